#!/venv/bin/python
"""C13 (jit-cache part) — minimal repro, found while building C01/C10.

Defect: `to_onnx` traces a *module-level* `jax.jit` object while its monkey patches are active.
JAX's jit cache keeps the jaxpr traced under the patches (it contains the substitute primitive
`jax.numpy.tanh`).  After `to_onnx` has returned and the patches are removed, an ordinary EAGER
call of the same jitted object with the same input signature re-uses that cached trace and fails:

    NotImplementedError: MLIR translation rule for primitive 'jax.numpy.tanh' not found for platform cpu

i.e. the conversion does not leave the host process as it found it.  (If the jitted object was
called eagerly *before* the export, the cache already holds a clean trace and nothing happens —
which is why suites that evaluate JAX first do not see it.)

Run:   /venv/bin/python notes/C13-jit-cache-repro.py          (J2O_REPO selects the tree, default /repo)
Exit:  1 = defect present, 0 = absent, 2 = the script itself could not run.
"""
import os
import sys

sys.path.insert(0, os.environ.get("J2O_REPO", "/repo"))
os.environ.setdefault("JAX_PLATFORMS", "cpu")

try:
    import warnings
    warnings.filterwarnings("ignore")
    import logging
    logging.disable(logging.CRITICAL)
    import numpy as np
    import jax
    import jax.numpy as jnp
    from jax2onnx import to_onnx
except Exception as e:  # pragma: no cover
    print("cannot import:", e)
    sys.exit(2)

# a module-level jitted function built from a patched library function; NOT called before the export
g = jax.jit(lambda a: jnp.tanh(a) * 2.0 + 1.0)
x = np.arange(6, dtype=np.float32).reshape(2, 3) / 4 - 0.5

try:
    to_onnx(lambda a: g(a) + 1.0, [jax.ShapeDtypeStruct(x.shape, x.dtype)])
except Exception as e:
    print("export itself failed (not the defect under test):", type(e).__name__, e)
    sys.exit(2)

try:
    y = np.asarray(g(jnp.asarray(x)))          # ordinary eager use of the user's function after the export
except NotImplementedError as e:
    print("DEFECT PRESENT: eager call of the jitted function after to_onnx raised:")
    print("  NotImplementedError:", str(e).splitlines()[0])
    sys.exit(1)
except Exception as e:
    print("DEFECT PRESENT (different exception):", type(e).__name__, str(e).splitlines()[0])
    sys.exit(1)

expected = np.tanh(x) * 2.0 + 1.0
if not np.allclose(y, expected, rtol=1e-6, atol=1e-6):
    print("DEFECT PRESENT: eager result after export differs:", y.tolist(), "vs", expected.tolist())
    sys.exit(1)
print("defect absent: the jitted function still evaluates eagerly after to_onnx")
sys.exit(0)
