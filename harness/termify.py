"""ONNX ModelProto graph -> canonical term JSON for the Lean validator (drivers/C02.lean).

Canonicalisation (trusted, see DESIGN §2.3): graph inputs are identified by their position in the
*before* graph (looked up by name), initializers and Constant nodes by a digest of dtype+shape+
bytes, scalar boolean constants by content, node outputs by the term of their producer; value
names never appear.  Loop/If/Scan bodies become part of the operator's attribute string (names
alpha-renamed by first use) and their captured outer values become extra arguments.
"""
from __future__ import annotations

import hashlib
import json
from typing import Any, Optional

import numpy as np
import onnx
from onnx import numpy_helper

MISSING_ID = 999_999


class TooBig(Exception):
    pass


def _ann_of_type(tp: Optional[onnx.TypeProto]) -> dict:
    if tp is None or not tp.HasField("tensor_type"):
        return {"dt": None, "sh": None}
    tt = tp.tensor_type
    dt = int(tt.elem_type) if tt.elem_type else None
    sh = None
    if tt.HasField("shape"):
        sh = []
        for d in tt.shape.dim:
            if d.HasField("dim_value"):
                sh.append(int(d.dim_value))
            elif d.HasField("dim_param") and d.dim_param:
                sh.append(str(d.dim_param))
            else:
                sh.append(None)
    return {"dt": dt, "sh": sh}


def _attr_canon(a: onnx.AttributeProto, body_canon) -> str:
    t = a.type
    AP = onnx.AttributeProto
    if t == AP.INT:
        return f"{a.name}={a.i}"
    if t == AP.FLOAT:
        return f"{a.name}={a.f!r}"
    if t == AP.STRING:
        return f"{a.name}={a.s!r}"
    if t == AP.INTS:
        return f"{a.name}={list(a.ints)}"
    if t == AP.FLOATS:
        return f"{a.name}={list(a.floats)}"
    if t == AP.STRINGS:
        return f"{a.name}={list(a.strings)}"
    if t == AP.TENSOR:
        arr = numpy_helper.to_array(a.t)
        return f"{a.name}=T{_digest(arr)}"
    if t == AP.GRAPH:
        return f"{a.name}=G{body_canon(a.g)}"
    if t == AP.GRAPHS:
        return f"{a.name}=GS[{','.join(body_canon(g) for g in a.graphs)}]"
    return f"{a.name}=?{t}"


def _digest(arr: np.ndarray) -> str:
    arr = np.asarray(arr)
    h = hashlib.sha1()
    h.update(str(arr.dtype).encode())
    h.update(str(arr.shape).encode())
    h.update(np.ascontiguousarray(arr).tobytes())
    return h.hexdigest()[:16]


NONDETERMINISTIC = {"RandomNormal", "RandomNormalLike", "RandomUniform", "RandomUniformLike", "Multinomial",
                    "Bernoulli"}


def has_unseeded_random(model: onnx.ModelProto) -> bool:
    def walk(g) -> bool:
        for n in g.node:
            if n.op_type in NONDETERMINISTIC and not any(a.name == "seed" for a in n.attribute):
                return True
            for a in n.attribute:
                if a.type == onnx.AttributeProto.GRAPH and walk(a.g):
                    return True
                if a.type == onnx.AttributeProto.GRAPHS and any(walk(x) for x in a.graphs):
                    return True
        return False
    return walk(model.graph) or any(walk(f) for f in model.functions)


def _const_value(n: onnx.NodeProto) -> Optional[np.ndarray]:
    """value of a standard-domain Constant node (None for anything else / unsupported forms)"""
    if n.op_type != "Constant" or n.domain != "":
        return None
    for a in n.attribute:
        if a.name == "value":
            return numpy_helper.to_array(a.t)
        if a.name == "value_int":
            return np.asarray(a.i, dtype=np.int64)
        if a.name == "value_float":
            return np.asarray(a.f, dtype=np.float32)
        if a.name == "value_ints":
            return np.asarray(list(a.ints), dtype=np.int64)
        if a.name == "value_floats":
            return np.asarray(list(a.floats), dtype=np.float32)
    return None


class Termifier:
    """Shared between the before and the after graph of one pair (ids must agree)."""

    def __init__(self, budget: int = 6000):
        self.input_pos: dict[str, int] = {}
        self.const_ids: dict[str, int] = {}
        self.budget = budget

    # ---- nested bodies
    def _body(self, g: onnx.GraphProto, outer_defined: set[str]) -> tuple[str, list[str]]:
        """canonical text of a body graph + ordered list of captured outer names.

        The text is a hash-consed rendering of the body's OUTPUT expressions (body inputs by
        position with their declared types, constants by content whether initializer or Constant
        node, captured outer values by order of first use): nodes the outputs do not depend on,
        names and node order do not enter it.  Bodies with unseeded random operators have no
        canonical text (the pair is then executed instead of certified)."""
        caps: list[str] = []
        memo: dict[str, str] = {}
        in_idx = {i.name: k for k, i in enumerate(g.input)}
        inits = {t.name: t for t in g.initializer}
        producer: dict[str, tuple[onnx.NodeProto, int]] = {}
        for n in g.node:
            for k, o in enumerate(n.output):
                if o:
                    producer[o] = (n, k)

        def h(name: str) -> str:
            if name == "":
                return "_"
            if name in memo:
                return memo[name]
            if name in producer:
                n, k = producer[name]
                cv = _const_value(n)
                if cv is not None:
                    r = "C" + _digest(cv)
                else:
                    if n.op_type in NONDETERMINISTIC and not any(a.name == "seed" for a in n.attribute):
                        raise TooBig()
                    args = [h(x) for x in n.input]
                    sub = []
                    for a in sorted(n.attribute, key=lambda a: a.name):
                        if a.type in (onnx.AttributeProto.GRAPH, onnx.AttributeProto.GRAPHS):
                            gs = [a.g] if a.type == onnx.AttributeProto.GRAPH else list(a.graphs)
                            for sg in gs:
                                txt, c2 = self._body(sg, set())
                                # captures of the inner body are values of this scope (or captures of ours)
                                sub.append(f"{a.name}=G<{txt}|{[h(c) for c in c2]}>")
                        else:
                            sub.append(_attr_canon(a, lambda g_: "?"))
                    r = hashlib.sha1(
                        f"{n.domain}::{n.op_type}#{k}({','.join(args)})[{';'.join(sub)}]".encode()).hexdigest()[:20]
            elif name in in_idx:
                r = f"in{in_idx[name]}"
            elif name in inits:
                r = "C" + _digest(numpy_helper.to_array(inits[name]))
            else:
                if name not in caps:
                    caps.append(name)
                r = f"@cap{caps.index(name)}"
            memo[name] = r
            return r

        outs = [h(o.name) for o in g.output]
        sig = [json.dumps(_ann_of_type(i.type)) for i in g.input]
        text = hashlib.sha1(("|".join(outs) + "##" + "|".join(sig)).encode()).hexdigest()[:16]
        return text, caps

    # ---- main
    def terms(self, model: onnx.ModelProto, is_before: bool, by_position: bool = False) -> list[Any]:
        g = model.graph
        if is_before:
            self.input_pos = {i.name: k for k, i in enumerate(g.input)}
        anns: dict[str, dict] = {}
        for vi in list(g.value_info) + list(g.input) + list(g.output):
            anns[vi.name] = _ann_of_type(vi.type)
        inits = {t.name: numpy_helper.to_array(t) for t in g.initializer}
        producer: dict[str, tuple[onnx.NodeProto, int]] = {}
        for n in g.node:
            for k, o in enumerate(n.output):
                if o:
                    producer[o] = (n, k)
        in_names = [i.name for i in g.input]
        memo: dict[str, Any] = {}
        count = [0]

        def const_term(arr: np.ndarray, ann: dict) -> Any:
            arr = np.asarray(arr)
            if arr.dtype == np.bool_ and arr.size == 1:
                return {"b": bool(arr.reshape(-1)[0])}
            d = _digest(arr)
            if d not in self.const_ids:
                self.const_ids[d] = 1_000_000 + len(self.const_ids)
            return {"l": self.const_ids[d], "dt": int(onnx.helper.np_dtype_to_tensor_dtype(arr.dtype))
                    if arr.dtype != object else None,
                    "sh": [int(x) for x in arr.shape], "sc": bool(arr.size == 1)}

        def term(name: str) -> Any:
            if name == "":
                return {"l": MISSING_ID, "dt": None, "sh": None, "sc": False}
            if name in memo:
                count[0] += memo[name][1]
                if count[0] > self.budget:
                    raise TooBig()
                return memo[name][0]
            start = count[0]
            count[0] += 1
            if count[0] > self.budget:
                raise TooBig()
            if name in inits and name not in producer:
                t = const_term(inits[name], anns.get(name, {}))
            elif name in in_names and name not in producer:
                if by_position or name not in self.input_pos:
                    pos = in_names.index(name) if by_position else 500_000 + in_names.index(name)
                else:
                    pos = self.input_pos[name]
                a = anns.get(name, {"dt": None, "sh": None})
                t = {"l": pos, "dt": a["dt"], "sh": a["sh"], "sc": False}
            elif name in producer:
                n, k = producer[name]
                if n.op_type == "Constant" and n.domain == "":
                    val = None
                    for a in n.attribute:
                        if a.name == "value":
                            val = numpy_helper.to_array(a.t)
                        elif a.name == "value_int":
                            val = np.asarray(a.i, dtype=np.int64)
                        elif a.name == "value_float":
                            val = np.asarray(a.f, dtype=np.float32)
                        elif a.name == "value_ints":
                            val = np.asarray(list(a.ints), dtype=np.int64)
                        elif a.name == "value_floats":
                            val = np.asarray(list(a.floats), dtype=np.float32)
                    if val is not None:
                        t = const_term(val, anns.get(name, {}))
                        memo[name] = (t, count[0] - start)
                        return t
                if n.op_type in NONDETERMINISTIC and not any(a.name == "seed" for a in n.attribute):
                    # the term language reads every operator as a function of its operands: two
                    # unseeded random nodes are NOT the same value, so such pairs are never certified
                    raise TooBig()
                ins = list(n.input)
                attrs = []
                extra: dict[str, Any] = {}
                skip_attrs: set[str] = set()
                if n.domain == "" and n.op_type.startswith("Reduce") and len(ins) >= 1:
                    # static keepdims=1 reductions: axes (attribute or constant input) become part
                    # of the head, normalised to non-negative sorted values
                    keep = 1
                    axes = None
                    for a in n.attribute:
                        if a.name == "keepdims":
                            keep = int(a.i)
                        if a.name == "axes":
                            axes = [int(x) for x in a.ints]
                    if len(ins) > 1 and ins[1]:
                        axes = None
                        if ins[1] in inits and ins[1] not in producer:
                            axes = [int(x) for x in np.asarray(inits[ins[1]]).reshape(-1)]
                    rk = anns.get(ins[0], {}).get("sh")
                    if keep == 1 and axes is not None and rk is not None and \
                            all(-len(rk) <= x < len(rk) for x in axes):
                        extra["axes"] = sorted({x % len(rk) for x in axes})
                        ins = ins[:1]
                        skip_attrs = {"axes", "keepdims"}
                if n.domain == "" and n.op_type == "Reshape" and \
                        all(int(a.i) == 0 for a in n.attribute if a.name == "allowzero"):
                    skip_attrs = {"allowzero"}       # allowzero=0 is the ONNX default
                args = [term(i) for i in ins]
                for a in sorted(n.attribute, key=lambda a: a.name):
                    if a.type in (onnx.AttributeProto.GRAPH, onnx.AttributeProto.GRAPHS):
                        gs = [a.g] if a.type == onnx.AttributeProto.GRAPH else list(a.graphs)
                        for sg in gs:
                            txt, caps = self._body(sg, set())
                            attrs.append(f"{a.name}=G{txt}")
                            args += [term(c) if (c in producer or c in inits or c in in_names)
                                     else {"l": MISSING_ID, "dt": None, "sh": None, "sc": False}
                                     for c in caps]
                    elif a.name not in skip_attrs:
                        attrs.append(_attr_canon(a, lambda g_: "?"))
                    if n.domain == "" and n.op_type == "Transpose" and a.name == "perm":
                        extra["perm"] = [int(x) for x in a.ints]
                    if n.domain == "" and n.op_type == "Cast" and a.name == "to":
                        extra["to"] = int(a.i)
                a_ = anns.get(name, {"dt": None, "sh": None})
                t = {"op": n.op_type, "dom": n.domain or "", "attrs": ";".join(attrs), "i": k,
                     "dt": a_["dt"], "sh": a_["sh"], "a": args}
                t.update(extra)
            else:
                t = {"l": MISSING_ID - 1, "dt": None, "sh": None, "sc": False}  # dangling
            memo[name] = (t, count[0] - start)
            return t

        return [term(o.name) for o in g.output]


def strip_node_anns(t: Any) -> Any:
    """after-graph terms: keep annotations on leaves only (the validator's soundness theorem
    assumes nothing about annotations the optimizer itself wrote)."""
    if isinstance(t, list):
        return [strip_node_anns(x) for x in t]
    if "a" in t:
        t2 = dict(t)
        t2["dt"] = None
        t2["sh"] = None
        t2["a"] = [strip_node_anns(x) for x in t["a"]]
        return t2
    return t


def pair_request(before: onnx.ModelProto, after: onnx.ModelProto, by_position: bool = False,
                 budget: int = 6000) -> Optional[str]:
    tz = Termifier(budget)
    try:
        b = tz.terms(before, True, by_position)
        a = strip_node_anns(tz.terms(after, False, by_position))
    except TooBig:
        return None
    return json.dumps({"before": b, "after": a}, separators=(",", ":"))
