#!/usr/bin/env python3
"""Print the markdown table 'which check catches which seeded change' from /verif/seeded/*/meta.json."""
import json, glob, os
rows = []
for d in sorted(glob.glob(os.path.join(os.path.dirname(__file__), "..", "seeded", "*"))):
    mp = os.path.join(d, "meta.json")
    if not os.path.exists(mp):
        continue
    m = json.load(open(mp))
    c = m.get("confirmed_by_lead", {})
    checks = c.get("checks", {})
    caught = [k for k, v in checks.items() if v.get("detected")]
    missed = [k for k, v in checks.items() if not v.get("detected")]
    summ = (m.get("summary") or "").replace("\n", " ").replace("|", "/")
    rows.append((os.path.basename(d), m.get("property", ""), summ[:150], (m.get("needs") or "").replace("\n", " ").replace("|", "/")[:120],
                 ", ".join(caught) or "—", ", ".join(missed) or ""))
print("| Seed | Property | Change | Needs | Caught by | Ran but silent |")
print("|---|---|---|---|---|---|")
for r in rows:
    print("| " + " | ".join(r) + " |")
