"""C09 round 2: the widened f32-detour probe (ops x producers, plugin testcases) and the constant
kinds x locations correspondence. `H` is the harness/props/c09.py module (helpers: rel_err,
narrow_sites, proto_tree, reflect_codes, reference_err, jaxpr_float_dtypes, …)."""
from __future__ import annotations

import json
from typing import Any, Callable, Optional

import numpy as np

TOL = 1e-12            # what a double-precision model achieves on the calibrated vocabulary
TOL_COMP = 1e-10       # a float32 round trip of a constant / an operand costs >= 1e-9
CHUNK = 64


# ----------------------------------------------------------------------------- one export


def export_fn(H, f: Callable, inputs: list, flag: bool = True, jit_refs: bool = False) -> dict:
    """Export `f` over `inputs` (numpy arrays; float ones are float64) through the public to_onnx with
    the flag on, evaluate JAX under x64 and ORT on the same points. `inputs` = list of input TUPLES."""
    import jax
    import jax.numpy as jnp
    import irtools
    from jax2onnx import to_onnx
    res: dict[str, Any] = {}
    jax.config.update("jax_enable_x64", False)
    try:
        with jax.enable_x64(flag):
            try:
                fj = jax.jit(f) if jit_refs else f
                refs = [[np.asarray(r) for r in jax.tree_util.tree_leaves(fj(*[jnp.asarray(a) for a in pt]))]
                        for pt in inputs]
                closed = jax.make_jaxpr(f)(*[jnp.asarray(a) for a in inputs[0]])
                res["float_dtypes"] = sorted(H.jaxpr_float_dtypes(closed.jaxpr))
            except Exception as e:
                res["status"] = "jax_failed"
                res["error"] = f"{type(e).__name__}: {str(e)[:160]}"
                return res
        res["all_f64"] = res["float_dtypes"] == ["float64"]
        before = H._x64_read()
        try:
            specs = [jax.ShapeDtypeStruct(a.shape, a.dtype) for a in inputs[0]]
            model = to_onnx(f, specs, enable_double_precision=flag)
            res["status"] = "exported"
        except Exception as e:
            res["status"] = "export_failed"
            res["error"] = f"{type(e).__name__}: {str(e)[:160]}"
            model = None
        res["x64_before"], res["x64_after"] = before, H._x64_read()
    finally:
        jax.config.update("jax_enable_x64", False)
    if model is None:
        return res
    res["model"], res["refs"], res["inputs"] = model, refs, inputs
    res["out_codes"] = [int(o.type.tensor_type.elem_type) for o in model.graph.output]
    errs = None
    try:
        for pt, ref in zip(inputs, refs):
            feeds = {i.name: np.asarray(a) for i, a in zip(model.graph.input, pt)}
            got = irtools.run_ort(model, feeds)
            if len(got) != len(ref):
                raise RuntimeError(f"{len(got)} outputs, {len(ref)} expected")
            e = [H.rel_err(g, r) for g, r in zip(got, ref)]
            errs = e if errs is None else [max(a, b) for a, b in zip(errs, e)]
        res["ort_error"] = None
    except Exception as e:
        res["ort_error"] = f"{type(e).__name__}: {str(e)[:300]}"
        errs = None
    res["runtime"] = "ort"
    if errs is None:
        # ORT has no double kernel for some operators (Erf, Atan, Tan, …): second runtime
        errs = ref_errs(res, H)
        res["runtime"] = "reference" if errs is not None else None
    res["errs"] = errs
    return res


def emits_float_constant_or_cast(H, model) -> bool:
    """Does the lowered model write a float tensor (initializer / Constant value) or a Cast?"""
    def rec(t) -> bool:
        for kind, code in t["o"]:
            if kind == "cast_to" or (kind in ("init", "attr_tensor", "sparse_init", "attr_sparse")
                                     and code in (1, 10, 11, 16)):
                return True
        return any(rec(k) for k in t["k"])
    return rec(H.proto_tree(model))


def ref_errs(res: dict, H) -> Optional[list]:
    """Per-output error in the ONNX reference evaluator (second runtime)."""
    try:
        from onnx.reference import ReferenceEvaluator
        model = res["model"]
        ev = ReferenceEvaluator(model)
        errs = None
        for pt, ref in zip(res["inputs"], res["refs"]):
            got = ev.run(None, {i.name: np.asarray(a) for i, a in zip(model.graph.input, pt)})
            if len(got) != len(ref):
                return None
            e = [H.rel_err(g, r) for g, r in zip(got, ref)]
            errs = e if errs is None else [max(a, b) for a, b in zip(errs, e)]
        return errs
    except Exception:
        return None


def confirmed_detour(H, res: dict, idx: int, calibrated: set) -> tuple[bool, dict]:
    """Is the disagreement of output `idx` a float32 detour of the MODEL (and not ORT's kernel or the
    approximation the lowering uses)?  Yes iff single precision is written in the model (Cast to a
    narrow float, a narrow tensor, or a DOUBLE constant that is exactly a full-significand float32
    number) AND the disagreement does not depend on ORT (calibrated operators only, or the reference
    evaluator shows it too)."""
    model = res["model"]
    sites = H.narrow_sites(model)
    info = {"sites": sites, "ops": sorted(H.model_ops(model))}
    if not sites:
        return False, info
    uncal = [o for o in info["ops"] if o not in H.STRUCTURAL_OPS and o not in calibrated]
    info["uncalibrated_ops"] = uncal
    if not uncal:
        return True, info
    re = ref_errs(res, H)
    info["reference_err"] = None if re is None else re[idx]
    return (re is not None and re[idx] > TOL), info


# ----------------------------------------------------------------------------- ops x producers


def _chunks(keys: list, n: int):
    return [keys[i:i + n] for i in range(0, len(keys), n)]


def output_slices(model) -> list[dict]:
    """For each model output i >= 1: the part of the top graph that computes it from output 0 (the
    producer) = ancestors(output i) - ancestors(output 0); does it write a float constant / a Cast?"""
    import onnx
    g = model.graph
    prod_of = {o: i for i, n in enumerate(g.node) for o in n.output}
    inits = {t.name: t for t in g.initializer}
    fn_emits = {}
    for f in model.functions:
        fn_emits[(f.domain, f.name)] = any(
            n.op_type in ("Cast", "CastLike") or (n.op_type == "Constant" and any(
                a.type == onnx.AttributeProto.TENSOR and a.t.data_type in (1, 10, 11, 16) for a in n.attribute))
            for n in f.node)

    def inner_names(n) -> list:
        out = []
        for a in n.attribute:
            gs = [a.g] if a.type == onnx.AttributeProto.GRAPH else (list(a.graphs) if a.type == onnx.AttributeProto.GRAPHS else [])
            for sg in gs:
                for m in sg.node:
                    out += list(m.input) + inner_names(m)
        return out

    def anc(name: str) -> tuple[set, set]:
        nodes, used, stack = set(), set(), [name]
        while stack:
            v = stack.pop()
            if v in inits:
                used.add(v)
            i = prod_of.get(v)
            if i is None or i in nodes:
                continue
            nodes.add(i)
            stack += list(g.node[i].input) + inner_names(g.node[i])
        return nodes, used

    base_nodes, base_inits = anc(g.output[0].name)
    res = []
    for o in list(g.output)[1:]:
        nodes, used = anc(o.name)
        nodes, used = nodes - base_nodes, used - base_inits
        emits = any(inits[u].data_type in (1, 10, 11, 16) for u in used)
        for i in nodes:
            n = g.node[i]
            if n.op_type in ("Cast", "CastLike"):
                emits = True
            elif n.op_type == "Constant":
                emits = emits or any(a.type == onnx.AttributeProto.TENSOR and a.t.data_type in (1, 10, 11, 16)
                                     for a in n.attribute)
            elif any(a.type in (onnx.AttributeProto.GRAPH, onnx.AttributeProto.GRAPHS) for a in n.attribute):
                emits = True        # a body graph: conservatively counted as constant-writing
            elif fn_emits.get((n.domain, n.op_type)):
                emits = True
        res.append({"nodes": len(nodes), "emits": emits})
    return res


def _usable(ref: np.ndarray) -> bool:
    return bool(np.all(np.isfinite(ref)) and np.any(ref != np.round(ref)))


def _probe_group(H, O, ops: dict, keys: list, prod: Callable, pts: list, stats: dict, max_depth: int = 99) -> dict:
    """Export op(prod(x)) for all `keys` in as few models as possible (bisecting on failure, at most
    `max_depth` levels). Returns {key: (err | None, status, res, output index)}; output 0 of every
    model is prod(x) itself (key "__prod__")."""
    out: dict[str, tuple] = {}

    def go(ks: list, depth: int) -> None:
        if not ks:
            return
        inner = O.build_program(ks, ops, prod)
        f = lambda x: (prod(x),) + inner(x)
        res = export_fn(H, f, [(p,) for p in pts], jit_refs=len(ks) > 4)
        stats["exports"] += 1
        if res.get("status") == "exported" and res.get("errs") is not None and res.get("all_f64"):
            stats["runtime_" + str(res.get("runtime"))] = stats.get("runtime_" + str(res.get("runtime")), 0) + 1
            for i, k in enumerate(ks):
                if all(_usable(rr[i + 1]) for rr in res["refs"]):
                    out[k] = (res["errs"][i + 1], "ok", res, i + 1)
                else:
                    out[k] = (None, "ref_not_usable", res, i + 1)
            out.setdefault("__prod__", (res["errs"][0], "ok", res, 0))
            return
        if len(ks) == 1 or depth >= max_depth:
            st = res.get("status")
            if st == "exported":
                st = "no_runtime" if res.get("errs") is None else "not_all_f64"
            for k in ks:
                out[k] = (None, st if len(ks) == 1 else "chunk_" + str(st), res, 1)
            return
        mid = len(ks) // 2
        go(ks[:mid], depth + 1)
        go(ks[mid:], depth + 1)

    for ch in _chunks(keys, CHUNK):
        go(ch, 0)
    return out


def untyped_producers(H, O, prods: dict) -> Optional[list]:
    """Producers whose output value carries NO IR element type yet when the next lowering reads it
    (observed by wrapping the lowering of `neg` for the duration of one tiny export per producer).
    None = the observation is not available (then the caller keeps every producer)."""
    import jax
    import jax.numpy as jnp
    from jax2onnx import to_onnx
    plugin = O.registry().get("neg")
    orig = getattr(plugin, "lower", None)
    if plugin is None or orig is None:
        return None
    seen: list = []

    def spy(ctx, eqn, *a, **k):
        try:
            v = ctx.get_value_for_var(eqn.invars[0])
            t = getattr(v, "type", None)
            seen.append(t is None or getattr(t, "dtype", None) is None)
        except Exception:
            seen.append(None)
        return orig(ctx, eqn, *a, **k)

    out = []
    try:
        plugin.lower = spy
        for name, prod in prods.items():
            seen.clear()
            jax.config.update("jax_enable_x64", False)
            try:
                to_onnx(lambda x: jax.lax.neg(prod(x)), [jax.ShapeDtypeStruct(O.X_SHAPE, np.float64)],
                        enable_double_precision=True)
            except Exception:
                continue
            finally:
                jax.config.update("jax_enable_x64", False)
            if not seen or seen[-1] is None:
                return None
            if seen[-1]:
                out.append(name)
    finally:
        try:
            del plugin.lower            # the wrapper was set on the instance
        except Exception:
            plugin.lower = orig
    return out


def check_ops(H, chk, rng, thorough: bool, calib: dict) -> dict:
    import c09_ops as O
    calibrated = {op for op, v in calib.items() if isinstance(v, float) and v < 1e-13}
    en = O.enumerate_ops(chk.seed)
    ops = en["ops"]
    prods = O.producers()
    untyped = untyped_producers(H, O, prods)
    if not thorough and untyped is not None:
        # quick tier: the direct form, every producer that hands an untyped value to the next lowering,
        # and a seeded sample of the others (thorough: all)
        others = [k for k in prods if k != "direct" and k not in untyped]
        keep = {"direct"} | set(untyped) | set(rng.sample(others, min(5, len(others))))
        prods = {k: v for k, v in prods.items() if k in keep}
    stats: dict[str, Any] = {"ops": len(ops), "producers": len(prods), "exports": 0, "pairs_probed": 0,
                             "pairs_skipped": {}, "direct_inaccurate": {}, "direct_unavailable": {},
                             "max_err_pairs": 0.0, "findings": 0, "skipped_keys": len(en["skipped"]),
                             "untyped_producers": untyped, "producers_used": sorted(prods)}
    n_pts = 2 if thorough else 1
    direct: dict[str, float] = {}
    remaining = sorted(ops.keys())
    by_dom: dict[int, list] = {}
    emitting: set = set()
    # ---- stage 1: every op directly on the graph input, on the first domain that gives usable values
    for di, (lo, hi) in enumerate(O.DOMAINS):
        if not remaining:
            break
        pts = O._points(lo, hi, chk.seed, n_pts)
        r1 = _probe_group(H, O, ops, remaining, prods["direct"], pts, stats)
        nxt = []
        for k in remaining:
            err, st, res, idx = r1[k]
            if st == "ref_not_usable":
                nxt.append(k)
                continue
            chk.count({"family": "ops", "op": k, "producer": "direct", "err": err, "status": st},
                      nontrivial=st == "ok", sample_every=25)
            if st != "ok":
                stats["direct_unavailable"][k] = st
                continue
            direct[k] = err
            sl = output_slices(res["model"])[idx - 1]
            if sl["emits"]:
                emitting.add(k)
            if err <= TOL:
                by_dom.setdefault(di, []).append(k)
                continue
            # the op itself misses double accuracy: float32 detour or approximation / runtime kernel?
            single = _probe_group(H, O, ops, [k], prods["direct"], pts, stats)[k]
            if single[1] != "ok":
                stats["direct_inaccurate"][k] = {"err": err, "class": "unclassified"}
                continue
            yes, info = confirmed_detour(H, single[2], single[3], calibrated)
            stats["direct_inaccurate"][k] = {"err": err, "class": "f32_detour" if yes else "approximation_or_runtime_kernel",
                                             "sites": info["sites"][:4]}
            if yes:
                stats["findings"] += 1
                chk.finding({"kind": "f32_detour", "family": "ops", "op": k, "producer": "direct",
                             "site": H._detour_site(info["sites"])},
                            f"flag on, float64 input: {k}(x) differs from JAX(x64) by {err:.2e} (threshold {TOL:g}); "
                            f"single precision at {info['sites'][:4]}",
                            {"family": "ops", "op": k, "producer": "direct", "domain": di, "err": err, "info": info})
        remaining = nxt
    for k in remaining:
        stats["direct_unavailable"][k] = "no usable probe domain"
    stats["emitting_ops"] = len(emitting)
    stats["accurate_ops"] = sum(len(v) for v in by_dom.values())
    # ---- stage 2: every accurate op on the output of every producer (quick tier: the ops whose
    # lowering writes a float constant, a Cast or a body graph; thorough: all)
    stats["stage2_ops"] = 0
    for di, good in sorted(by_dom.items()):
        lo, hi = O.DOMAINS[di]
        pts = O._points(lo, hi, chk.seed, n_pts)
        if not thorough:
            good = [k for k in good if k in emitting]
        stats["stage2_ops"] += len(good)
        for pname, prod in prods.items():
            if pname == "direct":
                continue
            cand = O.applicable(ops, good, prod)
            if not cand:
                continue
            r2 = _probe_group(H, O, ops, cand, prod, pts, stats, max_depth=99 if thorough else 3)
            perr = r2.get("__prod__", (None,))[0]
            for k in cand:
                err, st, res, idx = r2[k]
                if st != "ok":
                    stats["pairs_skipped"][st] = stats["pairs_skipped"].get(st, 0) + 1
                    continue
                stats["pairs_probed"] += 1
                chk.count({"family": "ops", "op": k, "producer": pname, "err": err}, nontrivial=True, sample_every=200)
                if err <= TOL_COMP or perr is None or perr > TOL:
                    if err <= TOL_COMP:
                        stats["max_err_pairs"] = max(stats["max_err_pairs"], err)
                    else:
                        stats["pairs_skipped"]["producer_inaccurate"] = stats["pairs_skipped"].get("producer_inaccurate", 0) + 1
                    continue
                # op accurate alone, producer accurate alone, composition off by a float32 rounding
                sites = H.narrow_sites(res["model"])
                stats["findings"] += 1
                chk.finding({"kind": "f32_detour", "family": "ops", "op": k, "producer": pname,
                             "site": H._detour_site(sites)},
                            f"flag on, float64 input: {k}({pname}(x)) differs from JAX(x64) by {err:.2e} although "
                            f"{k}(x) ({direct[k]:.1e}) and {pname}(x) ({perr:.1e}) are exact to {TOL:g}; single "
                            f"precision at {sites[:4]}",
                            {"family": "ops", "op": k, "producer": pname, "domain": di, "err": err,
                             "err_direct": direct[k], "err_producer": perr, "sites": sites[:8]})
    return stats


def replay_ops(H, rep: dict) -> int:
    import c09_ops as O
    calib = H.calibrate_ort()
    calibrated = {op for op, v in calib.items() if isinstance(v, float) and v < 1e-13}
    ops = O.enumerate_ops(rep.get("seed", 0))["ops"]
    k, pname, di = rep["op"], rep["producer"], rep["domain"]
    if k not in ops:
        print("op no longer in the registry vocabulary:", k)
        return 0
    lo, hi = O.DOMAINS[di]
    pts = O._points(lo, hi, rep.get("seed", 0), 2)
    stats = {"exports": 0}
    prods = O.producers()
    d = _probe_group(H, O, ops, [k], prods["direct"], pts, stats)[k]
    print("direct:", d[0], d[1])
    if pname == "direct":
        if d[1] != "ok" or d[0] <= TOL:
            return 0
        yes, info = confirmed_detour(H, d[2], d[3], calibrated)
        print(json.dumps(info, default=str)[:800])
        return 1 if yes else 0
    r = _probe_group(H, O, ops, [k], prods[pname], pts, stats)
    print("composed:", r[k][0], r[k][1], "producer alone:", r.get("__prod__", (None,))[0])
    if r[k][1] != "ok" or d[1] != "ok":
        return 0
    perr = r["__prod__"][0]
    return 1 if (r[k][0] > TOL_COMP and d[0] <= TOL and perr <= TOL) else 0


# ----------------------------------------------------------------------------- plugin testcases


def check_testcases(H, chk, rng, thorough: bool, calib: dict) -> dict:
    import c09_ops as O
    calibrated = {op for op, v in calib.items() if isinstance(v, float) and v < 1e-13}
    tcs = O.plugin_testcases()
    stats: dict[str, Any] = {"eligible_testcases": len(tcs), "sampled": 0, "exported": 0, "all_f64": 0,
                             "accurate": 0, "scanner_narrow": 0, "inaccurate": [], "export_failed": 0, "jax_failed": 0,
                             "ort_failed": 0, "findings": 0}
    if not thorough:
        idx = sorted(rng.sample(range(len(tcs)), min(36, len(tcs)))) if hasattr(rng, "sample") else \
            sorted({rng.randint(0, len(tcs) - 1) for _ in range(48)})[:36]
        tcs = [tcs[i] for i in idx]
    scan_lines, scan_meta = [], []
    for tc in tcs:
        stats["sampled"] += 1
        res = export_fn(H, tc["fn"], [tuple(tc["inputs"])])
        cid = f"{tc['plugin']}:{tc['testcase']}"
        st = res.get("status")
        if st == "jax_failed":
            stats["jax_failed"] += 1
            continue
        if res.get("x64_before") != res.get("x64_after"):
            stats["findings"] += 1
            chk.finding({"kind": "x64_not_restored", "override": False, "family": "testcases", "testcase": cid},
                        f"jax_enable_x64 {res['x64_before']} -> {res['x64_after']} after to_onnx of plugin testcase {cid}",
                        {"family": "testcases", "plugin": tc["plugin"], "testcase": tc["testcase"]})
        if st != "exported":
            stats["export_failed"] += 1
            continue
        stats["exported"] += 1
        chk.count({"family": "testcases", "testcase": cid, "all_f64": res["all_f64"],
                   "err": None if res["errs"] is None else max(res["errs"] or [0.0])},
                  nontrivial=bool(res["all_f64"]), sample_every=20)
        if not res["all_f64"]:
            continue
        stats["all_f64"] += 1
        tree = H.proto_tree(res["model"])
        narrow = any(c in H.NARROW_CODES for c in H.reflect_codes(res["model"]))
        scan_lines.append(H.scan_request(tree, "narrow"))
        scan_meta.append((cid, narrow))
        stats["scanner_narrow"] += int(narrow)
        if res["errs"] is None:
            stats["ort_failed"] += 1
            continue
        worst = int(np.argmax(res["errs"])) if res["errs"] else 0
        err = res["errs"][worst] if res["errs"] else 0.0
        if err <= TOL:
            stats["accurate"] += 1
            continue
        yes, info = confirmed_detour(H, res, worst, calibrated)
        if len(stats["inaccurate"]) < 40:
            stats["inaccurate"].append({"testcase": cid, "err": err, "class": "f32_detour" if yes else
                                        "approximation_or_ort_kernel", "sites": info["sites"][:3]})
        if yes:
            stats["findings"] += 1
            chk.finding({"kind": "f32_detour", "family": "testcases", "plugin": tc["plugin"], "testcase": tc["testcase"],
                         "site": H._detour_site(info["sites"])},
                        f"flag on, float64 inputs: plugin testcase {cid} differs from JAX(x64) by {err:.2e}; single "
                        f"precision at {info['sites'][:4]}",
                        {"family": "testcases", "plugin": tc["plugin"], "testcase": tc["testcase"], "err": err,
                         "info": info})
    # the proven dual scanner (noSingleOnDoublePath) against the reflection scan on every all-f64 export
    import common
    answers = common.run_driver("C09", scan_lines)
    for (cid, narrow), a in zip(scan_meta, answers):
        if a.startswith("bad-"):
            raise RuntimeError(f"driver could not read the tree of {cid}: {a}")
        if (a != "ok") != narrow:
            raise RuntimeError(f"Lean dual scanner ({a}) and reflection scan ({narrow}) disagree on {cid}")
    chk.add("traces_validated_against_impl", len(scan_lines))
    return stats


def replay_testcase(H, rep: dict) -> int:
    import c09_ops as O
    calib = H.calibrate_ort()
    calibrated = {op for op, v in calib.items() if isinstance(v, float) and v < 1e-13}
    for tc in O.plugin_testcases():
        if tc["plugin"] == rep["plugin"] and tc["testcase"] == rep["testcase"]:
            res = export_fn(H, tc["fn"], [tuple(tc["inputs"])])
            print({k: v for k, v in res.items() if k not in ("model", "refs", "inputs")})
            if res.get("status") != "exported" or res.get("errs") is None or not res.get("all_f64"):
                return 0
            worst = int(np.argmax(res["errs"]))
            if res["errs"][worst] <= TOL:
                return 0
            yes, info = confirmed_detour(H, res, worst, calibrated)
            print(json.dumps(info, default=str)[:800])
            return 1 if yes else 0
    print("testcase not found")
    return 0
