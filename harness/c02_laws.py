"""C02 — the ONNX operator facts the validator ASSUMES (fields of `Laws` in lean/J2O/Lemmas/C02Sem.lean that are
not theorems: the Reshape facts, `Not` of a constant, the scalar Swish identity) are validated against
ONNX Runtime on every run: each law is executed as a pair of tiny models on generated tensors (all
extents, targets with -1 and 0 entries, allowzero 0/1, empty tensors).  A law that fails in the runtime
is an infrastructure error of the verification (the model of ONNX is wrong), not a violation of /repo.
"""
from __future__ import annotations

from typing import Any

import numpy as np
from onnx import TensorProto, helper

import common


def _run(nodes, inputs, outputs, feeds, inits=()):
    import onnxruntime as ort
    g = helper.make_graph(nodes, "g", inputs, outputs, initializer=list(inits))
    m = helper.make_model(g, opset_imports=[helper.make_opsetid("", 24)], ir_version=10)
    so = ort.SessionOptions()
    so.graph_optimization_level = ort.GraphOptimizationLevel.ORT_DISABLE_ALL
    so.log_severity_level = 4
    s = ort.InferenceSession(m.SerializeToString(), so, providers=["CPUExecutionProvider"])
    return s.run(None, feeds)


def _vi(n, t=TensorProto.FLOAT):
    return helper.make_tensor_value_info(n, t, None)


def _targets(rng, shape):
    """valid reshape targets for `shape` (incl. -1 / 0 entries with allowzero=0)."""
    n = int(np.prod(shape)) if shape else 1
    out = [list(shape), [-1], [n]]
    if len(shape) >= 2:
        out.append([shape[0] * shape[1]] + list(shape[2:]))
        out.append([0, -1])                     # 0 copies shape[0]
        out.append(list(shape[:-1]) + [-1])
        out.append([0] * len(shape))            # copy every extent
    if n > 0:
        for d in (2, 3):
            if n % d == 0:
                out.append([d, n // d])
                out.append([n // d, d])
    return out


def check(chk, rng) -> dict[str, Any]:
    stats = {"reshape_numel": 0, "reshape_same": 0, "reshape_same2": 0, "reshape_pw": 0, "reshape_pw_sc": 0,
             "reshape_cast": 0, "not_const": 0, "swish": 0}
    bad: list[str] = []
    shapes = [[2, 3, 4], [6], [1, 5], [3, 1, 2], [0, 3], [2, 0, 4], [4, 3]]
    for shape in shapes:
        x = (np.arange(int(np.prod(shape)), dtype=np.float32).reshape(shape) - 3.0) * 0.5
        tg = _targets(rng, shape)
        for t1 in tg:
            s1 = np.asarray(t1, dtype=np.int64)
            try:
                (r1,) = _run([helper.make_node("Reshape", ["x", "s"], ["y"])], [_vi("x"), _vi("s", TensorProto.INT64)],
                             [_vi("y")], {"x": x, "s": s1})
            except Exception:  # noqa: BLE001   an invalid target (e.g. 0 entry beyond the rank): nothing assumed
                continue
            stats["reshape_numel"] += 1
            if r1.size != x.size:
                bad.append(f"reshape_numel {shape}->{t1}")
            if r1.shape == x.shape:
                stats["reshape_same"] += 1
                if not np.array_equal(r1, x):
                    bad.append(f"reshape_same {shape}->{t1}")
            # pw / cast commute with the reshape (same shape tensor on both sides)
            (a,) = _run([helper.make_node("Reshape", ["x", "s"], ["r"]), helper.make_node("Tanh", ["r"], ["y"])],
                        [_vi("x"), _vi("s", TensorProto.INT64)], [_vi("y")], {"x": x, "s": s1})
            (b,) = _run([helper.make_node("Tanh", ["x"], ["r"]), helper.make_node("Reshape", ["r", "s"], ["y"])],
                        [_vi("x"), _vi("s", TensorProto.INT64)], [_vi("y")], {"x": x, "s": s1})
            stats["reshape_pw"] += 1
            if a.shape != b.shape or not np.array_equal(a, b):
                bad.append(f"reshape_pw {shape}->{t1}")
            half = helper.make_tensor("h", TensorProto.FLOAT, [], [0.5])
            (a,) = _run([helper.make_node("Reshape", ["x", "s"], ["r"]), helper.make_node("Max", ["h", "r", "h"], ["y"])],
                        [_vi("x"), _vi("s", TensorProto.INT64)], [_vi("y")], {"x": x, "s": s1}, [half])
            (b,) = _run([helper.make_node("Max", ["h", "x", "h"], ["r"]), helper.make_node("Reshape", ["r", "s"], ["y"])],
                        [_vi("x"), _vi("s", TensorProto.INT64)], [_vi("y")], {"x": x, "s": s1}, [half])
            stats["reshape_pw_sc"] += 1
            if a.shape != b.shape or not np.array_equal(a, b):
                bad.append(f"reshape_pw_sc {shape}->{t1}")
            (a,) = _run([helper.make_node("Reshape", ["x", "s"], ["r"]), helper.make_node("Cast", ["r"], ["y"], to=TensorProto.INT32)],
                        [_vi("x"), _vi("s", TensorProto.INT64)], [_vi("y", TensorProto.INT32)], {"x": x, "s": s1})
            (b,) = _run([helper.make_node("Cast", ["x"], ["r"], to=TensorProto.INT32), helper.make_node("Reshape", ["r", "s"], ["y"])],
                        [_vi("x"), _vi("s", TensorProto.INT64)], [_vi("y", TensorProto.INT32)], {"x": x, "s": s1})
            stats["reshape_cast"] += 1
            if a.shape != b.shape or not np.array_equal(a, b):
                bad.append(f"reshape_cast {shape}->{t1}")
            # two reshapes in a row that restore the shape are the identity
            for t2 in _targets(rng, list(r1.shape)):
                s2 = np.asarray(t2, dtype=np.int64)
                try:
                    (r2,) = _run([helper.make_node("Reshape", ["x", "s"], ["r"]), helper.make_node("Reshape", ["r", "t"], ["y"])],
                                 [_vi("x"), _vi("s", TensorProto.INT64), _vi("t", TensorProto.INT64)], [_vi("y")],
                                 {"x": x, "s": s1, "t": s2})
                except Exception:  # noqa: BLE001
                    continue
                if r2.shape == x.shape:
                    stats["reshape_same2"] += 1
                    if not np.array_equal(r2, x):
                        bad.append(f"reshape_same2 {shape}->{t1}->{t2}")
    for bval in (True, False):
        c = helper.make_tensor("c", TensorProto.BOOL, [], [bval])
        (r,) = _run([helper.make_node("Not", ["c"], ["y"])], [], [_vi("y", TensorProto.BOOL)], {}, [c])
        stats["not_const"] += 1
        if bool(r) != (not bval):
            bad.append("not_const")
    xs = np.asarray([-30.0, -2.5, -0.0, 0.0, 0.5, 1.0, 7.25, 40.0], dtype=np.float32)
    try:
        (a,) = _run([helper.make_node("Sigmoid", ["x"], ["s"]), helper.make_node("Mul", ["x", "s"], ["y"])], [_vi("x")],
                    [_vi("y")], {"x": xs})
        (b,) = _run([helper.make_node("Swish", ["x"], ["y"])], [_vi("x")], [_vi("y")], {"x": xs})
        stats["swish"] += 1
        if not np.allclose(a, b, rtol=1e-6, atol=1e-7):
            bad.append("swish")
    except Exception as e:  # noqa: BLE001   Swish kernel missing in this runtime: the law cannot be executed
        stats["swish_unavailable"] = str(e)[:80]
    if bad:
        raise RuntimeError(f"C02: an ONNX fact assumed by Laws fails in onnxruntime: {bad[:5]}")
    return stats
