"""ONNX model -> compact JSON "ModelTree" (one line) for the Lean drivers of C03 / C11 / C08.

Format (mirrors lean/J2O/Model/ModelTreeJson.lean):
  graph  {"i":[name…], "t":[name…], "n":[node…], "o":[name…], "v":[[name, dtype|null, dims|null]…]}
  dims   [ int | "symbol" | null … ]
  node   {"d":domain, "op":op, "i":[…], "o":[…], "a":[attribute names…], "b":[graph…]}
  func   {"d":domain, "name":…, "i":[…], "o":[…], "t":[…], "imp":[[domain, version]…], "n":[…], "v":[…]}
  model  {"imp":[[domain, version]…], "g":graph, "f":[func…]}

Two front ends: `from_proto(onnx.ModelProto)` and `from_ir(onnx_ir.Model)`.  The IR front end keeps
what serialisation would lose or normalise (initializers held by a function body, not yet
normalised dims).  "ai.onnx" is the default domain "".
"""
from __future__ import annotations

import json
from typing import Any, Iterable, Optional

import onnx


def _dom(d: Optional[str]) -> str:
    d = d or ""
    return "" if d == "ai.onnx" else d


# ----------------------------------------------------------------------------- proto front end


def _proto_dims(tt) -> Optional[list]:
    if not tt.HasField("shape"):
        return None
    out: list = []
    for d in tt.shape.dim:
        if d.HasField("dim_value"):
            out.append(int(d.dim_value))
        elif d.HasField("dim_param"):
            out.append(str(d.dim_param))
        else:
            out.append(None)
    return out


def _proto_vi(vi: onnx.ValueInfoProto) -> Optional[list]:
    t = vi.type
    if not t.HasField("tensor_type"):
        return [vi.name, None, None]
    tt = t.tensor_type
    dt = int(tt.elem_type) or None
    return [vi.name, dt, _proto_dims(tt)]


def _proto_graph(g: onnx.GraphProto, with_vinfo: bool = True) -> dict:
    init_names = [t.name for t in g.initializer] + [s.values.name for s in g.sparse_initializer]
    init_set = set(init_names)
    # ONNX (IR >= 4): an initializer may also be listed as a graph input (overridable default);
    # such a name is ONE definition
    inputs = [vi.name for vi in g.input if vi.name not in init_set]
    vinfo: list = []
    if with_vinfo:
        seen = set()
        for vi in list(g.input) + list(g.output) + list(g.value_info):
            if vi.name in seen:
                continue
            seen.add(vi.name)
            e = _proto_vi(vi)
            if e is not None:
                vinfo.append(e)
        for t in g.initializer:
            if t.name not in seen:
                seen.add(t.name)
                vinfo.append([t.name, int(t.data_type) or None, [int(d) for d in t.dims]])
    return {"i": inputs, "t": init_names, "n": [_proto_node(n, with_vinfo) for n in g.node],
            "o": [vi.name for vi in g.output], "v": vinfo}


def _proto_node(n: onnx.NodeProto, with_vinfo: bool = True) -> dict:
    bodies = []
    for a in n.attribute:
        if a.type == onnx.AttributeProto.GRAPH:
            bodies.append(_proto_graph(a.g, with_vinfo))
        elif a.type == onnx.AttributeProto.GRAPHS:
            bodies += [_proto_graph(x, with_vinfo) for x in a.graphs]
    return {"d": _dom(n.domain), "op": n.op_type, "i": list(n.input), "o": list(n.output),
            "a": [a.name for a in n.attribute], "b": bodies}


def from_proto(m: onnx.ModelProto, with_vinfo: bool = True) -> dict:
    funcs = []
    for f in m.functions:
        vinfo = []
        if with_vinfo:
            for vi in f.value_info:
                e = _proto_vi(vi)
                if e is not None:
                    vinfo.append(e)
        funcs.append({"d": _dom(f.domain), "name": f.name, "i": list(f.input), "o": list(f.output),
                      "t": [], "imp": [[_dom(o.domain), int(o.version)] for o in f.opset_import],
                      "n": [_proto_node(n, with_vinfo) for n in f.node], "v": vinfo})
    return {"imp": [[_dom(o.domain), int(o.version)] for o in m.opset_import],
            "g": _proto_graph(m.graph, with_vinfo), "f": funcs}


# ----------------------------------------------------------------------------- IR front end


def ir_dim(d: Any):
    """int -> int; unknown -> None; named symbol -> its text (whatever object carries it)."""
    import numpy as np
    import onnx_ir as ir
    if d is None:
        return None
    if isinstance(d, (int, np.integer)):
        return int(d)
    if isinstance(d, ir.SymbolicDim):
        return None if d.value is None else str(d.value)
    return str(d)


def ir_annot(v) -> list:
    dt = None
    try:
        if v.dtype is not None:
            dt = int(v.dtype.value)
    except Exception:
        dt = None
    shp = v.shape
    dims = None if shp is None else [ir_dim(d) for d in shp.dims]
    return [v.name or "", dt, dims]


def _ir_inits(g) -> list:
    ini = g.initializers
    vals = list(ini.values()) if hasattr(ini, "values") else list(ini)
    return vals


def _ir_graph(g, with_vinfo: bool = True) -> dict:
    import onnx_ir as ir
    inits = _ir_inits(g)
    init_names = [v.name or "" for v in inits]
    init_set = set(init_names)
    nodes = []
    vinfo: list = []
    seen = set()

    def note(v):
        if v is None or not with_vinfo:
            return
        nm = v.name or ""
        if nm in seen:
            return
        seen.add(nm)
        vinfo.append(ir_annot(v))

    for v in g.inputs:
        note(v)
    for v in inits:
        note(v)
    for n in g:
        bodies = []
        for a in n.attributes.values():
            if a.type == ir.AttributeType.GRAPH:
                sg = a.as_graph()
                if sg is not None:
                    bodies.append(_ir_graph(sg, with_vinfo))
            elif a.type == ir.AttributeType.GRAPHS:
                bodies += [_ir_graph(x, with_vinfo) for x in a.as_graphs()]
        nodes.append({"d": _dom(n.domain), "op": n.op_type,
                      "i": [("" if v is None else (v.name or "")) for v in n.inputs],
                      "o": [(v.name or "") for v in n.outputs],
                      "a": list(n.attributes.keys()), "b": bodies})
        for v in n.outputs:
            note(v)
    for v in g.outputs:
        note(v)
    return {"i": [v.name or "" for v in g.inputs if (v.name or "") not in init_set],
            "t": init_names, "n": nodes, "o": [v.name or "" for v in g.outputs], "v": vinfo}


def from_ir(model, with_vinfo: bool = True) -> dict:
    funcs = []
    fstore = model.functions
    fvals = list(fstore.values()) if hasattr(fstore, "values") else list(fstore)
    for f in fvals:
        g = f.graph
        body = _ir_graph(g, with_vinfo)
        funcs.append({"d": _dom(f.domain), "name": f.name, "i": body["i"], "o": body["o"],
                      "t": body["t"],
                      "imp": [[_dom(d), int(v)] for d, v in dict(f.opset_imports).items()],
                      "n": body["n"], "v": body["v"]})
    return {"imp": [[_dom(d), int(v)] for d, v in dict(model.opset_imports).items()],
            "g": _ir_graph(model.graph, with_vinfo), "f": funcs}


# ----------------------------------------------------------------------------- helpers


def dumps(tree: dict) -> str:
    return json.dumps(tree, separators=(",", ":"), ensure_ascii=False)


def request(op: str, tree: dict, **extra) -> str:
    body = {"op": op, "m": tree}
    body.update(extra)
    return json.dumps(body, separators=(",", ":"), ensure_ascii=False)


def iter_graphs(tree_graph: dict, path=()) -> Iterable[tuple[tuple, dict]]:
    """All scopes of a graph tree with their (node index, body index) paths."""
    yield path, tree_graph
    for i, n in enumerate(tree_graph["n"]):
        for j, b in enumerate(n["b"]):
            yield from iter_graphs(b, path + ((i, j),))


def iter_nodes(tree: dict) -> Iterable[tuple[str, dict]]:
    """(where, node) for every node of the model tree, any depth, functions included."""
    for _, g in iter_graphs(tree["g"]):
        for n in g["n"]:
            yield "main", n
    for f in tree["f"]:
        for _, g in iter_graphs({"i": f["i"], "t": f["t"], "n": f["n"], "o": f["o"], "v": []}):
            for n in g["n"]:
                yield f"{f['d']}::{f['name']}", n


def iter_nodes_typed(tree: dict) -> Iterable[tuple[str, dict, list]]:
    """(where, node, declared dtype code of every input or 0) for every node at any depth; the annotations
    visible in a scope are its own, then those of the enclosing scopes (as in the Lean `atV?`)."""
    def walk(g, outer: dict, where: str):
        vis = dict(outer)
        vis.update({e[0]: e[1] for e in g.get("v", []) if e[1] is not None})
        for n in g["n"]:
            yield where, n, [int(vis.get(x) or 0) if x else 0 for x in n["i"]]
            for b in n["b"]:
                yield from walk(b, vis, where)
    yield from walk(tree["g"], {}, "main")
    for f in tree["f"]:
        yield from walk({"i": f["i"], "t": f["t"], "n": f["n"], "o": f["o"], "v": f.get("v", [])}, {},
                        f"{f['d']}::{f['name']}")


def stats(tree: dict) -> dict:
    depth = 0
    scopes = 0
    for p, _ in iter_graphs(tree["g"]):
        depth = max(depth, len(p))
        scopes += 1
    for f in tree["f"]:
        for p, _ in iter_graphs({"i": f["i"], "t": f["t"], "n": f["n"], "o": f["o"], "v": []}):
            depth = max(depth, len(p))
            scopes += 1
    return {"nodes": sum(1 for _ in iter_nodes(tree)), "scopes": scopes, "depth": depth,
            "functions": len(tree["f"])}


def scope_diagnosis(tree: dict) -> list[str]:
    """Independent (Python) scope walk used only to word a diagnosis when the Lean checker rejects."""
    msgs: list[str] = []

    def walk(g, outer: set, where: str):
        local: set = set()
        for nm in g["i"] + g["t"]:
            if nm in local:
                msgs.append(f"{where}: '{nm}' defined twice (inputs/initializers)")
            if nm in outer:
                msgs.append(f"{where}: '{nm}' shadows an outer name")
            local.add(nm)
        for k, n in enumerate(g["n"]):
            vis = outer | local
            for x in n["i"]:
                if x and x not in vis:
                    msgs.append(f"{where}: node {k} {n['op']} uses undefined '{x}'")
            for j, b in enumerate(n["b"]):
                walk(b, vis, f"{where}/{k}:{n['op']}[{j}]")
            for o in n["o"]:
                if not o:
                    continue
                if o in local or o in outer:
                    msgs.append(f"{where}: node {k} {n['op']} re-defines '{o}'")
                local.add(o)
        for o in g["o"]:
            if o not in local:
                msgs.append(f"{where}: graph output '{o}' not defined in the graph")

    walk(tree["g"], set(), "main")
    keys = {(f["d"], f["name"]): f for f in tree["f"]}
    for f in tree["f"]:
        if f["t"]:
            msgs.append(f"function {f['name']} owns initializers {f['t'][:3]}")
        walk({"i": f["i"], "t": f["t"], "n": f["n"], "o": f["o"]}, set(), f"fn {f['name']}")
    model_doms = {d for d, _ in tree["imp"]}
    for where, n in iter_nodes(tree):
        doms = model_doms if where == "main" else \
            {d for d, _ in next(f for f in tree["f"] if f"{f['d']}::{f['name']}" == where)["imp"]}
        if n["d"] not in doms:
            msgs.append(f"{where}: node {n['op']} domain '{n['d']}' not imported")
        f = keys.get((n["d"], n["op"]))
        if n["d"] != "" and f is None:
            msgs.append(f"{where}: call {n['d']}::{n['op']} has no definition")
        if f is not None and (len(f["i"]) != len(n["i"]) or len(f["o"]) != len(n["o"])):
            msgs.append(f"{where}: call {n['op']} arity {len(n['i'])}->{len(n['o'])} vs definition "
                        f"{len(f['i'])}->{len(f['o'])}")
    return msgs
