"""C19 — which parameters of a substituted library function REACH the traced program (T-tie, regenerated per run).

For every substituted function with a usable plugin testcase call and every optional parameter of the ORIGINAL
(non-default candidate value, passed by keyword) the live wrapper is run inside the converter's own tracing
context and the traced program (equations, primitive parameters, operand types, literals, constants) is observed:

  forwarded  the traced program differs from the one of the default call  (the value reaches bind / the params)
  rejected   the non-default use raises while tracing
  neutral    the traced program is identical AND eager JAX returns the identical result for both values
             (the value has no effect in JAX either: nothing is lost)
  ignored    the traced program is identical although eager JAX's result changes: the argument is dropped

The observation intercepts the public `jax.make_jaxpr` the converter calls and aborts before lowering, so it
does not depend on any private name of /repo.  A target whose default call traces to two different programs
(parameters holding per-call closures) is `unstable` and contributes no rows.
"""
from __future__ import annotations

import hashlib
from typing import Any

import numpy as np


class _Abort(Exception):
    pass


def trace_digest(program, specs) -> tuple[str, str]:
    import jax
    from jax2onnx import to_onnx
    real = jax.make_jaxpr
    seen: list = []

    def spy(fun, *a, **k):
        inner = real(fun, *a, **k)

        def run(*args, **kw):
            closed = inner(*args, **kw)
            seen.append(closed)
            raise _Abort()
        return run

    jax.make_jaxpr = spy
    try:
        to_onnx(program, specs)
    except _Abort:
        pass
    except Exception as e:
        return "raise", type(e).__name__
    finally:
        jax.make_jaxpr = real
    if not seen:
        return "unobserved", ""
    closed = seen[0]
    h = hashlib.sha1(str(closed.jaxpr).encode())
    for c in closed.consts:
        try:
            a = np.asarray(c)
            h.update(str((a.shape, a.dtype)).encode() + a.tobytes())
        except Exception:
            h.update(repr(c).encode())
    return "ok", h.hexdigest()


def _eager(pair, call) -> Any:
    import jax
    try:
        r = call(pair["orig"])
        leaves = jax.tree_util.tree_leaves(r)
        return [(np.asarray(l).shape, str(np.asarray(l).dtype), np.asarray(l).tobytes()) for l in leaves]
    except Exception as e:
        return ("raise", type(e).__name__)


def observe(pair: dict, c19, args, kwargs) -> dict:
    """Trace digest and eager result of ONE call of the target (arrays become program inputs)."""
    import jax
    tgt, attr = pair["tgt_obj"], pair["attr"]
    slots: list = []
    t_args = [c19._split_traced(v, slots) for v in args]
    t_kwargs = {k: c19._split_traced(v, slots) for k, v in kwargs.items()}

    def call(f, arrs):
        return f(*[c19._fill(t, arrs) for t in t_args], **{k: c19._fill(t, arrs) for k, t in t_kwargs.items()})

    eager = _eager(pair, lambda f: call(f, [jax.numpy.asarray(a) for a in slots]))
    specs = [jax.ShapeDtypeStruct(a.shape, a.dtype) for a in slots]
    st, dg = trace_digest(lambda *arrs: call(getattr(tgt, attr), arrs), specs)
    return {"trace": st, "digest": dg, "eager": eager, "n_inputs": len(slots)}


def forwarding_rows(pair: dict, c19, vals: dict, k: int, kw: list, extras: list, max_values: int = 1) -> list[dict]:
    base_call = c19._call_from(pair, vals, k, kw)
    if base_call is None:
        return []
    b1 = observe(pair, c19, *base_call)
    if b1["trace"] != "ok" or isinstance(b1["eager"], tuple):
        return []
    b2 = observe(pair, c19, *base_call)
    if b2["digest"] != b1["digest"]:
        return [{"target": pair["target"], "param": "*", "status": "unstable"}]
    rows = []
    params = pair["so"].parameters
    for n in extras:
        for v in c19.candidate_values(pair, n, params[n], vals)[:max_values]:
            if c19._is_arr(v):
                continue           # an array value becomes a program input: the program changes trivially
            o = observe(pair, c19, base_call[0], {**base_call[1], n: v})
            if isinstance(o["eager"], tuple):
                continue           # the library itself rejects the value
            if o["trace"] == "raise":
                st = "rejected"
            elif o["trace"] != "ok":
                continue
            elif o["digest"] != b1["digest"]:
                st = "forwarded"
            elif o["eager"] == b1["eager"]:
                st = "neutral"
            else:
                st = "ignored"
            rows.append({"target": pair["target"], "param": n, "value": repr(v)[:40], "status": st,
                         "detail": o["digest"] if st == "rejected" else ""})
    return rows
