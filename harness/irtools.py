"""Helpers to build small onnx_ir models and run them in ONNX Runtime (optimisations off)."""
from __future__ import annotations

import copy
from typing import Any, Optional, Sequence

import numpy as np
import onnx
import onnx_ir as ir
from onnx_ir import AttributeType as IRAttrType


def const_val(name: str, arr: np.ndarray) -> ir.Value:
    arr = np.asarray(arr)
    return ir.val(name, ir.DataType.from_numpy(arr.dtype), arr.shape, const_value=ir.tensor(arr))


def ints_attr(name: str, vals: Sequence[int]) -> ir.Attr:
    return ir.Attr(name=name, type=IRAttrType.INTS, value=tuple(int(v) for v in vals))


def int_attr(name: str, val: int) -> ir.Attr:
    return ir.Attr(name=name, type=IRAttrType.INT, value=int(val))


def float_attr(name: str, val: float) -> ir.Attr:
    return ir.Attr(name=name, type=IRAttrType.FLOAT, value=float(val))


def make_model(graph: ir.Graph, opset: int = 23) -> ir.Model:
    if "" not in graph.opset_imports:
        graph.opset_imports[""] = opset
    return ir.Model(graph, ir_version=10, producer_name="verif")


def to_proto(model: ir.Model) -> onnx.ModelProto:
    return ir.to_proto(model)


def clone_model(model: ir.Model) -> ir.Model:
    return ir.from_proto(ir.to_proto(model))


def run_ort(model_or_proto: Any, feeds: dict[str, np.ndarray], outputs: Optional[list[str]] = None):
    import onnxruntime as ort

    proto = model_or_proto if isinstance(model_or_proto, onnx.ModelProto) else ir.to_proto(model_or_proto)
    so = ort.SessionOptions()
    so.graph_optimization_level = ort.GraphOptimizationLevel.ORT_DISABLE_ALL
    so.log_severity_level = 3
    sess = ort.InferenceSession(proto.SerializeToString(), so, providers=["CPUExecutionProvider"])
    return sess.run(outputs, feeds)


def same_array(a: np.ndarray, b: np.ndarray) -> bool:
    """Bit-level agreement up to NaN class: same shape, same dtype, equal values (NaN==NaN),
    and equal sign of zero."""
    a, b = np.asarray(a), np.asarray(b)
    if a.shape != b.shape or a.dtype != b.dtype:
        return False
    if a.dtype.kind in "fc" or a.dtype.kind == "V" or "float" in a.dtype.name:
        af, bf = a.astype(np.complex128) if a.dtype.kind == "c" else a.astype(np.float64), \
            b.astype(np.complex128) if b.dtype.kind == "c" else b.astype(np.float64)
        if not np.array_equal(af, bf, equal_nan=True):
            return False
        if af.dtype.kind == "f":
            return bool(np.array_equal(np.signbit(af), np.signbit(bf)))
        return True
    return bool(np.array_equal(a, b))
