#!/venv/bin/python
"""Confirm a seeded breaking change and run a property's check against it.

usage: seedtest.py <seed_dir> <PROP> [--tier quick|thorough] [--baseline] [--keep <id>]

<seed_dir> holds patch.diff, demo.py, meta.json.  In a scratch worktree of /repo (HEAD):
  demo without patch must pass, with patch must fail; (optionally) the pinned test suite must still
  pass with the patch; the property's check with J2O_REPO=<worktree> must exit 1 with a VIOLATION
  line.  With --keep the seed is copied to /verif/seeded/<id>/ with the outcome in meta.json.
The worktree is removed afterwards; Gen files are regenerated from the clean /repo at the end.
"""
import argparse
import json
import os
import shutil
import subprocess
import sys
import time
from pathlib import Path

VERIF = Path(__file__).resolve().parents[1]


def sh(cmd, cwd=None, env=None, timeout=3600):
    r = subprocess.run(cmd, cwd=cwd, env=env, shell=isinstance(cmd, str), capture_output=True, text=True,
                       timeout=timeout)
    return r.returncode, (r.stdout or "") + (r.stderr or "")


def main() -> int:
    ap = argparse.ArgumentParser()
    ap.add_argument("seed_dir")
    ap.add_argument("prop")
    ap.add_argument("--tier", default="quick")
    ap.add_argument("--baseline", action="store_true")
    ap.add_argument("--keep", default=None)
    ap.add_argument("--also", default="", help="comma separated further properties to run")
    a = ap.parse_args()
    sd = Path(a.seed_dir)
    wt = Path(f"/tmp/wt_seedtest_{os.getpid()}")
    sh(f"git -C /repo worktree add -f {wt} HEAD")
    env = dict(os.environ, PYTHONPATH=str(wt), JAX_PLATFORMS="cpu")
    out = {"seed": str(sd), "property": a.prop}
    try:
        rc0, o0 = sh(["/venv/bin/python", str(sd / "demo.py")], cwd=wt, env=env)
        out["demo_without_patch"] = "pass" if rc0 == 0 else f"FAIL rc={rc0}: {o0[-300:]}"
        rc, o = sh(f"git -C {wt} apply {sd / 'patch.diff'}")
        if rc != 0:
            # /repo has moved on (fix commits): fall back to a 3-way merge of the seeded change
            rc, o = sh(f"git -C {wt} apply -3 {sd / 'patch.diff'} && git -C {wt} reset -q")
            out["applied_with_3way"] = rc == 0
        if rc != 0:
            out["apply"] = o[-300:]
            print(json.dumps(out, indent=1))
            return 2
        rc1, o1 = sh(["/venv/bin/python", str(sd / "demo.py")], cwd=wt, env=env)
        out["demo_with_patch"] = "fails (as required)" if rc1 != 0 else "PASSES (seed invalid)"
        if a.baseline:
            envb = dict(os.environ, J2O_REPO=str(wt), BASELINE_XDIST=os.environ.get("BASELINE_XDIST", "6"))
            rcb, ob = sh(["/venv/bin/python", str(VERIF / "harness/baseline.py"), f"/tmp/junit_seed_{os.getpid()}.xml"],
                         env=envb, timeout=7200)
            out["pinned_suite_with_patch"] = ob.strip().splitlines()[0] if ob.strip() else f"rc={rcb}"
            out["pinned_suite_ok"] = rcb == 0
        results = {}
        for prop in [a.prop] + [p for p in a.also.split(",") if p]:
            envc = dict(os.environ, J2O_REPO=str(wt))
            t0 = time.time()
            rcc, oc = sh(["/venv/bin/python", str(VERIF / "harness/vcheck.py"), prop, "--tier", a.tier],
                         cwd=VERIF, env=envc, timeout=7200)
            viol = [l for l in oc.splitlines() if l.startswith("VIOLATION")]
            results[prop] = {"exit": rcc, "violation_lines": viol[:3], "wall_s": round(time.time() - t0, 1),
                             "detected": rcc == 1 and bool(viol)}
            if viol:
                rp = viol[0].split("replay=")[1].split()[0]
                try:
                    results[prop]["replay_excerpt"] = json.dumps(json.load(open(rp)))[:600]
                except Exception:
                    pass
            if rcc not in (0, 1):
                results[prop]["tail"] = oc[-600:]
        out["checks"] = results
    finally:
        sh(f"git -C /repo worktree remove --force {wt}")
        # regenerate this property's Gen/ files from the clean tree
        for prop in [a.prop] + [p for p in a.also.split(",") if p]:
            code = ("import sys; sys.path.insert(0, %r); import common; common.use_repo(); "
                    "import importlib; m = importlib.import_module('props.%s'); "
                    "getattr(m, 'generate', lambda: None)()" % (str(VERIF / "harness"), prop.lower()))
            sh(["/venv/bin/python", "-c", code], cwd=VERIF, timeout=1200)
    print(json.dumps(out, indent=1))
    if a.keep:
        dst = VERIF / "seeded" / a.keep
        dst.mkdir(parents=True, exist_ok=True)
        for f in ("patch.diff", "demo.py"):
            if (sd / f).resolve() != (dst / f).resolve():
                shutil.copy(sd / f, dst / f)
        meta = json.loads((sd / "meta.json").read_text()) if (sd / "meta.json").exists() else {}
        meta["confirmed_by_lead"] = out
        (dst / "meta.json").write_text(json.dumps(meta, indent=1))
    return 0


if __name__ == "__main__":
    sys.exit(main())
