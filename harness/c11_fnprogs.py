"""C11 (round 2): every opset-gated component INSIDE an `@onnx_function` body, in a nested function (a function called
from a function body), and under a Loop inside a function body.  Registered into `progs.NAMED` as `c11fn:<name>`;
they are part of the tabulated gate catalogue (exported at every opset 21..max) and go through the proven checker.
The functions must be module attributes (`@onnx_function` resolves them by qualified name)."""
from __future__ import annotations

import progs  # noqa: F401  (sets up the repo path and jax)
import jax
import jax.numpy as jnp
from jax import lax
from jax2onnx import onnx_function


@onnx_function
def c11_fn_xsig(x):
    return x * jax.nn.sigmoid(x)


@onnx_function
def c11_fn_silu(x):
    return jax.nn.silu(x)


@onnx_function
def c11_fn_gelu(x):
    return jax.nn.gelu(x, approximate=False)


@onnx_function
def c11_fn_rms(x):
    return x * lax.rsqrt(jnp.mean(x * x, axis=-1, keepdims=True) + 1e-6)


@onnx_function
def c11_fn_meanvar(x):
    return (x - x.mean(axis=-1, keepdims=True)) * jnp.sqrt(x.var(axis=-1, keepdims=True) + 1.0)


@onnx_function
def c11_fn_softmax(x):
    return jax.nn.softmax(x, axis=-1) + jax.nn.logsumexp(x, axis=-1, keepdims=True)


@onnx_function
def c11_fn_dus(x):
    return lax.dynamic_update_slice(x, jnp.ones((2, 2), x.dtype), (0, 1))


@onnx_function
def c11_fn_iota(x):
    return x + lax.iota(x.dtype, 6) + jnp.arange(6, dtype=x.dtype)


@onnx_function
def c11_fn_loop(x):
    # the x*sigmoid(x) pattern and a reduction under a Loop inside a function body
    return lax.fori_loop(0, 2, lambda i, s: s * jax.nn.sigmoid(s) + jnp.sum(s, axis=-1, keepdims=True) * 0.0, x)


@onnx_function
def c11_fn_outer(x):
    # nested: functions called from a function body
    return c11_fn_xsig(x) + c11_fn_rms(x)


@onnx_function
def c11_fn_outer2(x):
    # call depth 3, the innermost under a Loop
    return c11_fn_outer(x) * 0.5 + c11_fn_loop(x)


FN_PROGRAMS = {
    "xsig": lambda x: c11_fn_xsig(x) * 2.0, "silu": lambda x: c11_fn_silu(x) * 2.0,
    "gelu": lambda x: c11_fn_gelu(x) * 2.0, "rms": lambda x: c11_fn_rms(x) * 2.0,
    "meanvar": lambda x: c11_fn_meanvar(x) * 2.0, "softmax": lambda x: c11_fn_softmax(x) * 2.0,
    "dus": lambda x: c11_fn_dus(x) * 2.0, "iota": lambda x: c11_fn_iota(x) * 2.0,
    "loop": lambda x: c11_fn_loop(x) * 2.0, "outer": lambda x: c11_fn_outer(x) * 2.0,
    "outer2": lambda x: c11_fn_outer2(x) * 2.0,
    # (an @onnx_function called from a fori_loop body of the MAIN graph raises "Function registry missing" at every
    #  opset on the unchanged tree – an explicit error, not generated)
}


def register() -> list[str]:
    names = []
    for k, f in FN_PROGRAMS.items():
        name = f"c11fn:{k}"
        progs.NAMED[name] = (f, [(2, 6)])
        names.append(name)
    return names
