"""C19 — the argument matrix of the FunctionPlugin wrapper (`@onnx_function`).

"No argument is silently ignored" for every KIND of argument value the wrapper can receive: Python scalars,
strings, tuples, None, dtype objects, callables (module-level functions, jnp functions, instances of a callable
class, lambdas, tuples of callables), dicts, arrays (numpy, jax, traced) - passed by keyword and positionally -
each with two DIFFERENT values at two call sites of ONE export (`kw2`, `pos2`, and `kwswap`: two keywords with
the values exchanged) and in separate exports (`kw1`, `pos1`), for a plain function and for an nnx.Module.
Oracle: eager JAX (outside conversion) against ONNX Runtime on the exported model.

Model tie (H, one-sided): for every two-call-site export that succeeds, the number of ONNX functions the two call
sites use is observed on the exported model and compared with the Lean model of the capture key
(`J2O.C19.Key`, driver op `K`): the live code may share ONE body only where the model's keys are equal
(`capture_key_injective`: equal keys => equal baked-in values).  Sharing where the model's keys differ is a
broken correspondence; the numeric comparison of the same export is the search for the failing input.
"""
from __future__ import annotations

import time
from typing import Any, Callable, Optional

import numpy as np

import common

EXPLICIT = (NotImplementedError, ValueError)


# ----------------------------------------------------------------------------- meaning of a value


def use(v: Any, x: Any) -> Any:
    """What the test function DOES with an argument value: different values of every class give different
    results, nothing is the identity, and numbers are used in a traceable way (a positional Python number
    legitimately becomes a traced operand)."""
    import jax.numpy as jnp
    if v is None:
        return x + 0.25
    if isinstance(v, (type, np.dtype)):
        return x.astype(v).astype(x.dtype) + float(np.dtype(v).itemsize)
    if callable(v):
        return v(x)
    if isinstance(v, str):
        return x * float(len(v)) + float(sum(map(ord, v)) % 11)
    if isinstance(v, (tuple, list)):
        y = x
        for i, e in enumerate(v):
            y = use(e, y) + float(i + 1)
        return y + (0.5 if isinstance(v, list) else 0.125)
    if isinstance(v, dict):
        y = x
        for k in sorted(v):
            y = use(v[k], y) - 0.75
        return y
    if isinstance(v, (bool, np.bool_)) or getattr(v, "dtype", None) == np.bool_:
        return jnp.where(v, x * 2.0, x + 1.0)
    if isinstance(v, (int, float)):
        return x * v + 0.5
    if hasattr(v, "shape"):
        if tuple(v.shape) == ():
            return x * v + 0.5
        return x + jnp.sum(jnp.asarray(v).astype(x.dtype) * jnp.arange(1, v.size + 1, dtype=x.dtype).reshape(v.shape))
    raise RuntimeError(f"no meaning defined for {type(v).__name__}")


class Scale:
    def __init__(self, k):
        self.k = k

    def __call__(self, x):
        return x * self.k - 1.0


def shift_up(x):
    return x + 10.0


def triple(x):
    return x * 3.0


def value_classes(rng: common.Rng, thorough: bool) -> list[dict]:
    """(class, a, b): two different values of the same kind.  `traced=True`: built from the program input."""
    import jax.numpy as jnp
    i1 = rng.randint(2, 9)
    i2 = i1 + rng.randint(1, 5)
    f1 = rng.randint(1, 40) / 8.0
    f2 = f1 + rng.randint(1, 9) / 4.0
    letters = "abcdefghijklmnop"
    s1 = "".join(rng.choice(letters) for _ in range(rng.randint(2, 5)))
    s2 = s1[:-1] + letters[(letters.index(s1[-1]) + 1 + rng.randint(0, 5)) % 16]    # same length, differs
    if sum(map(ord, s1)) % 11 == sum(map(ord, s2)) % 11:
        s2 = s2 + "q"
    cls = [
        ("int", i1, i2), ("float", f1, f2), ("bool", True, False), ("str", s1, s2), ("str_len", s1, s1 + "z"),
        ("tuple_int", (1, i1), (1, i2)), ("tuple_len", (i1,), (i1, i1)), ("tuple_float", (f1, 0.5), (f2, 0.5)),
        ("none_vs_value", None, i1), ("int_vs_float", i1, float(i1) + 0.5),
        ("dtype_np", np.float16, np.float32), ("dtype_obj", np.dtype("float16"), np.dtype("float64")),
        ("dtype_jnp", jnp.bfloat16, jnp.float32),
        ("function", shift_up, triple), ("jnp_function", jnp.sin, jnp.cos),
        ("callable_instance", Scale(float(i1)), Scale(float(i2))),
        ("lambda", lambda x: x + 1.5, lambda x: x - 1.5),
        ("tuple_of_callables", (jnp.sin, jnp.tanh), (jnp.tanh, jnp.sin)),
        ("callable_vs_none", jnp.tanh, None),
        ("dict", {"a": i1}, {"a": i2}),
        ("list", [1, i1], [1, i2]),
        ("numpy_array", np.array([1.0, f1], np.float32), np.array([1.0, f2], np.float32)),
        ("jax_array", jnp.array([1.0, f1], jnp.float32), jnp.array([1.0, f2], jnp.float32)),
    ]
    if thorough:
        cls += [("str_short", "aa", "ab"),
                ("nested_tuple", ((1, 2), (3, i1)), ((1, 2), (3, i2))),
                ("tuple_mixed", (jnp.sin, f1), (jnp.sin, f2)),
                ("partial", __import__("functools").partial(jnp.multiply, f1),
                 __import__("functools").partial(jnp.multiply, f2))]
    out = [{"class": c, "a": a, "b": b, "traced": False} for c, a, b in cls]
    out.append({"class": "tracer", "a": lambda x: x * 2.0, "b": lambda x: x + 1.0, "traced": True})
    return out


def label(v: Any) -> str:
    if callable(v) and not isinstance(v, type):
        return getattr(v, "__qualname__", None) or getattr(v, "__name__", None) or type(v).__name__
    return repr(v)[:60].replace("\n", " ")


# ----------------------------------------------------------------------------- abstraction to the Lean model


class Abstraction:
    """Python value -> descriptor of `J2O.C19.Key.Val` (driver syntax):
       `T <dtype> <dims...>`                 traced (an array with `.aval` that is a jaxpr variable)
       `D <dtype> <dims...> | <bytes...>`    np.asarray(value) has a data dtype (scalars, strings, tuples, constants)
       `O <tyname> <dims...> | <ids...>`     np.asarray(value).dtype == object: the identities it points to
       Names (dtypes, type names) and object identities are numbered by first use."""

    def __init__(self):
        self.names: dict[str, int] = {}
        self.ids: dict[int, int] = {}
        self.keep: list = []

    def _n(self, s: str) -> int:
        return self.names.setdefault(s, len(self.names))

    def _i(self, o: Any) -> int:
        self.keep.append(o)
        return self.ids.setdefault(id(o), len(self.ids))

    def describe(self, v: Any, traced: bool = False) -> Optional[str]:
        if traced:
            return f"T {self._n(str(v.dtype))} " + " ".join(str(int(d)) for d in v.shape)
        try:
            arr = np.asarray(v)
        except Exception:
            return None
        dims = " ".join(str(int(d)) for d in arr.shape)
        if arr.dtype == object:
            ids = " ".join(str(self._i(o)) for o in arr.ravel().tolist()) if arr.shape else str(self._i(v))
            return f"O {self._n(type(v).__name__)} {dims} | {ids}"
        return f"D {self._n(str(arr.dtype))} {dims} | " + " ".join(str(b) for b in arr.tobytes())


# ----------------------------------------------------------------------------- running one program


def _call_sites(model) -> list[tuple[str, str]]:
    fns = {(f.domain, f.name) for f in model.functions}
    return [(n.domain, n.op_type) for n in model.graph.node if (n.domain, n.op_type) in fns]


def run_program(prog: Callable, x: np.ndarray) -> dict:
    import jax
    from jax2onnx import to_onnx
    import irtools
    try:
        want = np.asarray(prog(x))
    except Exception as e:
        return {"status": "original_rejects", "error": f"{type(e).__name__}: {str(e)[:120]}"}
    try:
        model = to_onnx(prog, [jax.ShapeDtypeStruct(x.shape, x.dtype)])
    except EXPLICIT as e:
        return {"status": "explicit_rejection", "error": f"{type(e).__name__}: {str(e)[:120]}"}
    except Exception as e:
        return {"status": "export_error", "outcome": type(e).__name__,
                "error": f"{type(e).__name__}: {str(e)[:200]}".replace("\n", " ")}
    sites = _call_sites(model)
    out = {"status": "exported", "call_sites": len(sites), "functions_used": len(set(sites))}
    try:
        got = np.asarray(irtools.run_ort(model, {model.graph.input[0].name: x})[0])
    except Exception as e:
        msg = str(e)
        typed = "Type Error" in msg or "type mismatch" in msg.lower() or "Type (" in msg
        out.update(numeric="ort_type_error" if typed else "skipped_ort_load", error=msg[:200])
        return out
    if got.shape == want.shape and np.allclose(got, want, rtol=1e-3, atol=1e-3, equal_nan=True):
        out["numeric"] = "agree"
    else:
        out.update(numeric="DISAGREE", ort=np.round(got.ravel()[:4], 4).tolist(),
                   jax=np.round(want.ravel()[:4], 4).tolist())
    return out


def verif_gate(x, p=None, q=None):
    return use(q, use(p, x) * 1.5)


def verif_gate_dflt(x, p=3, q=None):
    # a parameter whose DEFAULT is not None: an explicit `p=None` must reach the body as None
    return use(q, use(p, x) * 1.5)


def _verif_gate_dflt_site(*args, **kwargs):
    return globals()["verif_gate_dflt"](*args, **kwargs)


def _verif_gate_site(*args, **kwargs):
    # the FunctionPlugin patches the MODULE ATTRIBUTE of a plain function: look it up at call time
    return globals()["verif_gate"](*args, **kwargs)


def make_targets():
    """A plain function and an nnx.Module, both registered on the fly (registry restored by the caller)."""
    from jax2onnx import onnx_function
    from flax import nnx

    onnx_function(verif_gate)
    onnx_function(verif_gate_dflt)

    @onnx_function
    class VerifGateModule(nnx.Module):
        def __call__(self, x, p=None, q=None):
            return use(q, use(p, x) * 1.5)

    return {"function": _verif_gate_site, "module": VerifGateModule(), "function_dflt": _verif_gate_dflt_site}


def programs(g: Callable, vc: dict) -> dict[str, list[Callable]]:
    """form -> programs of that form (one program = one export)."""
    a, b, tr = vc["a"], vc["b"], vc["traced"]
    va = (lambda x: a(x)) if tr else (lambda x: a)
    vb = (lambda x: b(x)) if tr else (lambda x: b)
    return {
        "kw2": [lambda x: g(x, p=va(x)) + 2.0 * g(x, p=vb(x))],
        "pos2": [lambda x: g(x, va(x)) + 2.0 * g(x, vb(x))],
        "kwswap": [lambda x: g(x, p=va(x), q=vb(x)) + 2.0 * g(x, p=vb(x), q=va(x))],
        "kw1": [lambda x: g(x, p=va(x)), lambda x: g(x, p=vb(x))],
        "pos1": [lambda x: g(x, va(x)), lambda x: g(x, vb(x))],
        "mixed": [lambda x: g(x, va(x), q=vb(x)) + 2.0 * g(x, vb(x), q=va(x))],
    }


# kw2/pos2 subsume kw1/pos1 unless two errors cancel; the quick tier keeps the two-call-site forms
QUICK_FORMS = {"function": ["kw2", "pos2", "kwswap"], "module": ["kw2", "pos2"], "function_dflt": ["kw2", "kw1"]}
# the target whose parameter default is not None only matters for value classes that contain None
NONE_CLASSES = {"none_vs_value", "callable_vs_none"}
ALL_FORMS = ["kw2", "pos2", "kwswap", "kw1", "pos1", "mixed"]


def finding_key(target: str, cls: str, form: str, outcome: str) -> dict:
    return {"target": f"onnx_function:{target}", "kind": "fnplugin_matrix", "class": cls,
            "passing": "keyword" if form.startswith("kw") else ("positional" if form.startswith("pos") else "mixed"),
            "outcome": outcome}


def run_matrix(chk, seed: int, thorough: bool, only: Optional[tuple[str, str, str]] = None) -> dict:
    """Returns {"results": [...], "tie": [...]}; findings are NOT reported here (see props/c19.py)."""
    from jax2onnx.plugins import plugin_system as ps
    before = set(ps.PLUGIN_REGISTRY), set(ps.ONNX_FUNCTION_PLUGIN_REGISTRY)
    rng = common.Rng(seed ^ 0xC19)
    x = (np.array([rng.randint(-16, 16) for _ in range(6)], np.float32) / 8.0).reshape(2, 3)
    results, tie = [], []
    t0 = time.time()
    try:
        targets = make_targets()
        classes = value_classes(rng, thorough)
        for tname, g in targets.items():
            forms = ALL_FORMS if thorough else QUICK_FORMS[tname]
            if tname.endswith("_dflt"):
                forms = [f for f in forms if f.startswith("kw")]
            for vc in classes:
                if tname.endswith("_dflt") and vc["class"] not in NONE_CLASSES:
                    continue
                for form in forms:
                    if only is not None and only != (tname, vc["class"], form):
                        continue
                    for pi, prog in enumerate(programs(g, vc)[form]):
                        out = run_program(prog, x)
                        rec = {"target": tname, "class": vc["class"], "form": form, "program": pi,
                               "a": label(vc["a"]), "b": label(vc["b"]), **out}
                        results.append(rec)
                        # one call node left = the two calls were merged as identical nodes: they shared a function
                        if form in ("kw2", "pos2") and out["status"] == "exported" and out["call_sites"] in (1, 2):
                            ab = Abstraction()
                            if vc["traced"]:
                                import jax.numpy as jnp
                                xa = jnp.asarray(x)
                                da, db = ab.describe(vc["a"](xa), True), ab.describe(vc["b"](xa), True)
                            elif form == "pos2":
                                # positional arguments are operands of the primitive: traced whatever they were
                                import jax.numpy as jnp
                                try:
                                    da, db = (ab.describe(jnp.asarray(vc["a"]), True),
                                              ab.describe(jnp.asarray(vc["b"]), True))
                                except Exception:
                                    da = db = None
                            else:
                                da, db = ab.describe(vc["a"]), ab.describe(vc["b"])
                            if da is not None and db is not None:
                                tie.append({"rec": rec, "line": f"K {da} ; {db}"})
    finally:
        for k in set(ps.PLUGIN_REGISTRY) - before[0]:
            ps.PLUGIN_REGISTRY.pop(k, None)
        for k in set(ps.ONNX_FUNCTION_PLUGIN_REGISTRY) - before[1]:
            ps.ONNX_FUNCTION_PLUGIN_REGISTRY.pop(k, None)
    return {"results": results, "tie": tie, "x": x.tolist(), "wall_s": round(time.time() - t0, 1)}
