"""C08 — make the annotations INSIDE function bodies observable, per call site.

`inline_functions(proto)` returns a copy of the model in which every call of a model-local function
(in the main graph, in Loop/If/Scan bodies, and — recursively — inside inlined bodies) is replaced by
the function's nodes with fresh names (`__c08fn<k>__<name>`), and the function's `value_info` entries
are carried over to the renamed values.  Formal inputs and outputs become values of their own
(`Identity` of the actual argument / of the renamed result), so the annotation a function declares for
its formals is compared with the tensor THIS call site really passes.  The resulting model computes
the same values; the observation oracle of the check (`c08.observe`) then exposes every prefixed
value and compares its declared dtype / rank / dims with ONNX Runtime for every binding.

Only renaming and splicing happen here — no annotation is invented or changed.
"""
from __future__ import annotations

import copy
from typing import Optional

import onnx
from onnx import helper

PREFIX = "__c08fn"


def _dom(d: str) -> str:
    return "" if d in ("", "ai.onnx") else d


def _rename_graph(g: onnx.GraphProto, r) -> None:
    for n in g.node:
        _rename_node(n, r)
    for vi in list(g.input) + list(g.output) + list(g.value_info):
        vi.name = r(vi.name)
    for t in g.initializer:
        t.name = r(t.name)


def _rename_node(n: onnx.NodeProto, r) -> None:
    ins = [r(x) for x in n.input]
    outs = [r(x) for x in n.output]
    del n.input[:]
    n.input.extend(ins)
    del n.output[:]
    n.output.extend(outs)
    if n.name:
        n.name = r(n.name)
    for a in n.attribute:
        if a.type == onnx.AttributeProto.GRAPH:
            _rename_graph(a.g, r)
        elif a.type == onnx.AttributeProto.GRAPHS:
            for sg in a.graphs:
                _rename_graph(sg, r)


def _resolve_attr_refs(n: onnx.NodeProto, call: onnx.NodeProto, f: onnx.FunctionProto) -> bool:
    """Replace `ref_attr_name` attributes of a body node by the call's (or the default) value."""
    given = {a.name: a for a in call.attribute}
    default = {a.name: a for a in f.attribute_proto}
    keep = []
    for a in n.attribute:
        if a.ref_attr_name:
            src = given.get(a.ref_attr_name) or default.get(a.ref_attr_name)
            if src is None:
                continue                      # optional attribute not given: dropped
            b = copy.deepcopy(src)
            b.name = a.name
            keep.append(b)
        else:
            if a.type == onnx.AttributeProto.GRAPH and not all(_resolve_graph(a.g, call, f)):
                return False
            keep.append(a)
    del n.attribute[:]
    n.attribute.extend(keep)
    return True


def _resolve_graph(g, call, f):
    return [_resolve_attr_refs(n, call, f) for n in g.node]


def inline_functions(proto: onnx.ModelProto) -> Optional[tuple[onnx.ModelProto, dict, dict]]:
    """-> (inlined model, {prefix: call-site description}, {"sites": n, "functions": n}) or None when the
    model has no functions / no call site."""
    if not proto.functions:
        return None
    m = copy.deepcopy(proto)
    funcs = {(_dom(f.domain), f.name): f for f in m.functions}
    sites: dict = {}
    counter = [0]

    def inline_graph(g: onnx.GraphProto, chain: str, depth: int) -> None:
        if depth > 12:
            raise RuntimeError("function nesting deeper than 12")
        new_nodes = []
        for n in g.node:
            f = funcs.get((_dom(n.domain), n.op_type)) if _dom(n.domain) else None
            if f is None:
                for a in n.attribute:
                    if a.type == onnx.AttributeProto.GRAPH:
                        inline_graph(a.g, chain, depth)
                    elif a.type == onnx.AttributeProto.GRAPHS:
                        for sg in a.graphs:
                            inline_graph(sg, chain, depth)
                new_nodes.append(n)
                continue
            counter[0] += 1
            pre = f"{PREFIX}{counter[0]}__"
            first_out = next((o for o in n.output if o), "?")
            here = f"{f.domain}::{f.name} called for '{first_out}'"
            sites[pre] = {"function": f"{f.domain}::{f.name}", "call_output": first_out,
                          "where": (chain + " > " if chain else "") + here, "site": counter[0]}
            ren: dict = {}
            for k, formal in enumerate(f.input):
                actual = n.input[k] if k < len(n.input) else ""
                if actual == "":
                    ren[formal] = ""
                else:
                    ren[formal] = pre + formal
                    new_nodes.append(helper.make_node("Identity", [actual], [pre + formal]))

            def r(x, ren=ren, pre=pre):
                if x == "":
                    return ""
                return ren.get(x, pre + x)

            tmp = onnx.GraphProto()
            for bn in f.node:
                c = copy.deepcopy(bn)
                if not _resolve_attr_refs(c, n, f):
                    raise RuntimeError("unresolved attribute reference")
                _rename_node(c, r)
                tmp.node.append(c)
            for vi in f.value_info:
                c = copy.deepcopy(vi)
                c.name = r(vi.name)
                if c.name:
                    tmp.value_info.append(c)
            inline_graph(tmp, (chain + " > " if chain else "") + here, depth + 1)
            new_nodes.extend(tmp.node)
            g.value_info.extend(tmp.value_info)
            for k, formal_out in enumerate(f.output):
                if k < len(n.output) and n.output[k]:
                    new_nodes.append(helper.make_node("Identity", [r(formal_out)], [n.output[k]]))
        del g.node[:]
        g.node.extend(new_nodes)

    inline_graph(m.graph, "", 0)
    if not sites:
        return None
    have = {(_dom(o.domain)) for o in m.opset_import}
    for f in m.functions:
        for o in f.opset_import:
            if _dom(o.domain) not in have:
                have.add(_dom(o.domain))
                m.opset_import.append(copy.deepcopy(o))
    del m.functions[:]
    return m, sites, {"sites": len(sites), "functions": len(funcs)}


def site_of(name: str, sites: dict) -> Optional[dict]:
    """call site a (possibly scan-exposed) value name belongs to"""
    i = name.find(PREFIX)
    if i < 0:
        return None
    j = name.find("__", i + len(PREFIX))
    if j < 0:
        return None
    return sites.get(name[i:j + 2])


def local_name(name: str) -> str:
    i = name.find(PREFIX)
    if i < 0:
        return name
    j = name.find("__", i + len(PREFIX))
    return name[j + 2:] if j >= 0 else name
