"""C11 helpers (round 2): typed model trees, extended onnx.defs table, opset-gate sites.

* `typed_tree(proto)`     the shared model tree (harness/modeltree.py) with every node attribute carried as
                          `name:code` (code = AttributeProto.AttributeType found in the model), the form the Lean
                          model `J2O.C11.attrName / attrKind` reads.
* `iter_forms(tree)`      (where, node, declared dtype of every input, of every output) at any depth, functions
                          included; visibility of annotations as in the Lean `atV?`.
* `schema_rows()`         per operator version of the installed onnx.defs: arity, attribute names, attribute TYPES,
                          REQUIRED attributes, admitted element types and type variables of inputs AND outputs.
* `gate_sites()`          every plugin module of the LIVE /repo whose source compares an opset with an integer
                          literal, with the plugin testcases that exercise it (found through the live
                          PLUGIN_REGISTRY: module -> plugin instance -> metadata (context, component) -> testcases).
"""
from __future__ import annotations

import re
from typing import Iterable, Optional

import onnx

import common
import modeltree


# ----------------------------------------------------------------------------- typed tree


def _retag_nodes(pnodes, tnodes) -> None:
    for pn, tn in zip(pnodes, tnodes):
        tn["a"] = [f"{a.name}:{int(a.type)}" if int(a.type) else a.name for a in pn.attribute]
        bodies = []
        for a in pn.attribute:
            if a.type == onnx.AttributeProto.GRAPH:
                bodies.append(a.g)
            elif a.type == onnx.AttributeProto.GRAPHS:
                bodies += list(a.graphs)
        for pg, tg in zip(bodies, tn["b"]):
            _retag_nodes(pg.node, tg["n"])


def typed_tree(proto: onnx.ModelProto) -> dict:
    tree = modeltree.from_proto(proto, with_vinfo=True)
    _retag_nodes(proto.graph.node, tree["g"]["n"])
    for pf, tf in zip(proto.functions, tree["f"]):
        _retag_nodes(pf.node, tf["n"])
    return tree


def attr_name(a: str) -> str:
    return a.split(":", 1)[0]


def iter_forms(tree: dict) -> Iterable[tuple[str, dict, list, list]]:
    def walk(g, outer: dict, where: str):
        vis = dict(outer)
        vis.update({e[0]: e[1] for e in g.get("v", []) if e[1] is not None})
        for n in g["n"]:
            yield (where, n, [int(vis.get(x) or 0) if x else 0 for x in n["i"]],
                   [int(vis.get(x) or 0) if x else 0 for x in n["o"]])
            for b in n["b"]:
                yield from walk(b, vis, where)
    yield from walk(tree["g"], {}, "main")
    for f in tree["f"]:
        yield from walk({"i": f["i"], "t": f["t"], "n": f["n"], "o": f["o"], "v": f.get("v", [])}, {},
                        f"{f['d']}::{f['name']}")


# ----------------------------------------------------------------------------- onnx.defs


def _type_code(ts: str):
    from onnx import TensorProto
    if not ts.startswith("tensor(") or not ts.endswith(")"):
        return None
    return getattr(TensorProto, ts[7:-1].upper(), None)


def _formals(formals, var_ids: dict) -> tuple[list, list, bool]:
    types, tvars = [], []
    for fi in formals:
        codes = [_type_code(t) for t in fi.types]
        if any(c is None for c in codes):
            types.append([])                       # sequences / optionals / maps: unconstrained here
        else:
            types.append(sorted(int(c) for c in codes))
        homog = getattr(fi, "is_homogeneous", True)
        if len(fi.types) > 1 and homog and all(c is not None for c in codes):
            tvars.append(var_ids.setdefault(fi.type_str, len(var_ids) + 1))
        else:
            tvars.append(0)
    variadic = bool(formals) and formals[-1].option == onnx.defs.OpSchema.FormalParameterOption.Variadic
    return types, tvars, variadic


def schema_rows() -> dict:
    """operator -> [(since, minIn, maxIn, minOut, maxOut, deprecated, attr names, inTypes, inVars, variadic,
    attrTy [(name, AttributeType code)], required names, outTypes, outVars, variadicOut)] sorted by since"""
    hist: dict = {}
    for s in onnx.defs.get_all_schemas_with_history():
        if s.domain not in ("", "ai.onnx"):
            continue
        var_ids: dict = {}
        in_types, in_vars, variadic = _formals(s.inputs, var_ids)
        out_types, out_vars, variadic_out = _formals(s.outputs, var_ids)   # ONE id space: T of an output = T of an input
        names = sorted(s.attributes.keys())
        for nm in names:
            if ":" in nm:
                raise RuntimeError(f"onnx.defs attribute name with ':' ({s.name}.{nm}) breaks the name:code encoding")
        attr_ty = [(nm, int(s.attributes[nm].type)) for nm in names]
        required = [nm for nm in names if bool(s.attributes[nm].required)]
        hist.setdefault(s.name, []).append(
            (int(s.since_version), int(s.min_input), int(s.max_input), int(s.min_output), int(s.max_output),
             bool(s.deprecated), names, in_types, in_vars, variadic, attr_ty, required, out_types, out_vars,
             variadic_out))
    return {k: sorted(v, key=lambda r: r[0]) for k, v in sorted(hist.items())}


def attr_type_codes_aligned() -> bool:
    """OpSchema.AttrType and AttributeProto.AttributeType use the same integer codes (the tie of the attribute-type
    check relies on it)."""
    A, P = onnx.defs.OpSchema.AttrType, onnx.AttributeProto
    names = ["FLOAT", "INT", "STRING", "TENSOR", "GRAPH", "FLOATS", "INTS", "STRINGS", "TENSORS", "GRAPHS",
             "SPARSE_TENSOR", "SPARSE_TENSORS", "TYPE_PROTO", "TYPE_PROTOS"]
    return all(int(getattr(A, n)) == int(getattr(P, n)) for n in names if hasattr(A, n) and hasattr(P, n))


# ----------------------------------------------------------------------------- gate sites

_CMP = re.compile(r"opset[^\n#=<>]*?(>=|<=|==|<|>)\s*(\d+)")

# sites known on the pinned tree (kept even when a refactoring hides the comparison from the scan)
KNOWN_SITE_MODULES = [
    "jax2onnx.plugins.equinox.eqx.nn.multihead_attention", "jax2onnx.plugins.equinox.eqx.nn.rotary_positional_embedding",
    "jax2onnx.plugins.equinox.eqx.nn.adaptive_pool", "jax2onnx.plugins.flax.nnx.group_norm",
    "jax2onnx.plugins.flax.nnx.dot_product_attention", "jax2onnx.plugins.flax.nnx.rms_norm",
    "jax2onnx.plugins.jax.nn.silu", "jax2onnx.plugins.jax.random.categorical", "jax2onnx.plugins.jax.numpy.arange",
    "jax2onnx.plugins.jax.numpy.clip", "jax2onnx.plugins.jax.lax.iota", "jax2onnx.plugins.jax.lax.dynamic_update_slice",
    "jax2onnx.plugins.jax.lax.reduce_window_sum",
]


def scan_sites() -> dict:
    """module name -> sorted thresholds an opset is compared with in that module's source (live tree)"""
    root = common.REPO / "jax2onnx" / "plugins"
    out: dict = {}
    for p in sorted(root.rglob("*.py")):
        try:
            src = p.read_text()
        except Exception:
            continue
        if "opset" not in src:
            continue
        ths = set()
        for line in src.splitlines():
            code = line.split("#", 1)[0]
            for m in _CMP.finditer(code):
                ths.add((m.group(1), int(m.group(2))))
        if ths:
            mod = ".".join(p.relative_to(common.REPO).with_suffix("").parts)
            out[mod] = sorted(ths, key=lambda t: (t[1], t[0]))
    return out


def flips_in(thresholds: list, lo: int, hi: int) -> bool:
    """may the comparison change its value between two opsets of lo..hi?"""
    for op, t in thresholds:
        edge = {">=": t, "<": t, ">": t + 1, "<=": t + 1, "==": t}[op]   # first opset where the value differs
        if lo < edge <= hi or (op == "==" and lo <= t <= hi):
            return True
    return False


def _users_of_shared_helpers() -> list[str]:
    """plugin modules calling the shared gate `builder_reduce_with_axes` (found by name in the live source)"""
    root = common.REPO / "jax2onnx" / "plugins"
    out = []
    for p in sorted(root.rglob("*.py")):
        if p.name.startswith("_"):
            continue
        try:
            if "builder_reduce_with_axes" in p.read_text():
                out.append(".".join(p.relative_to(common.REPO).with_suffix("").parts))
        except Exception:
            pass
    return out


def gate_sites(lo: int, hi: int, per_site: int = 2) -> dict:
    """{"sites": [{module, thresholds, in_range, testcases:[tp…]}], "no_testcases": [...]} for the live tree"""
    import progs
    params = progs.plugin_params()
    from jax2onnx.plugins import plugin_system as ps
    by_mod: dict = {}
    for inst in list(ps.PLUGIN_REGISTRY.values()):
        md = getattr(inst, "metadata", None) or {}
        mod = type(inst).__module__
        if md.get("component"):
            by_mod.setdefault(mod, set()).add((md.get("context", ""), md.get("component")))
    by_cc: dict = {}
    for tp in params:
        by_cc.setdefault((tp.get("context", ""), tp.get("component", "")), []).append(tp)
    scanned = scan_sites()
    mods = dict(scanned)
    for m in KNOWN_SITE_MODULES:
        mods.setdefault(m, [])
    helper_users = _users_of_shared_helpers()
    for m in helper_users:
        mods.setdefault(m, [("helper", 0)])
    sites, none = [], []
    for mod in sorted(mods):
        ths = [t for t in mods[mod] if t[0] != "helper"]
        in_range = flips_in(ths, lo, hi) or mod in KNOWN_SITE_MODULES or mod in helper_users
        tcs = []
        for cc in sorted(by_mod.get(mod, ())):
            # f32 variants, deterministic order; prefer testcases that do not pin their own opset
            cands = [tp for tp in by_cc.get(cc, []) if not tp.get("_enable_double_precision_test_setting", False)]
            # testcases written for a gated path (they name an opset) first, then the plainest ones
            cands.sort(key=lambda tp: ("opset" not in tp["testcase"], tp["testcase"].endswith("_dynamic"), tp["testcase"]))
            named = [tp for tp in cands if "opset" in tp["testcase"]][:2]
            tcs += named + [tp for tp in cands if tp not in named][:per_site]
        if not tcs:
            none.append(mod)
            continue
        sites.append({"module": mod, "thresholds": [list(t) for t in ths], "in_range": in_range, "testcases": tcs})
    return {"sites": sites, "no_testcases": none, "scanned": {k: [list(t) for t in v] for k, v in scanned.items()}}
