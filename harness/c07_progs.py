"""Programs for the C07 check: decorated blocks (module level, so patching works) and a
pattern-directed generator of call-site pairs that differ in exactly one component.

All arithmetic is exact in float32 (dyadic values, + − ×), so ORT(decorated), ORT(undecorated) and
eager JAX must agree bit for bit — no tolerance is involved in the oracle.
"""
from __future__ import annotations

import warnings
from typing import Any, Optional

import numpy as np

warnings.filterwarnings("ignore")

import jax
import jax.numpy as jnp
import equinox as eqx
from flax import nnx

from jax2onnx import onnx_function


def _apply(x, w, alpha, mode, gain, det):
    y = x * w * alpha
    y = y * gain
    if mode == "neg":
        y = -y
    elif mode == "dbl":
        y = y + y
    return jnp.where(det, y, y + 1.0)


def _arr_item(tag: str, a) -> dict:
    a = np.asarray(a)
    return {"tag": tag, "kind": "arr", "shape": [str(d) for d in a.shape], "dtype": str(a.dtype),
            "bytes": list(a.tobytes())}


def _lit_item(tag: str, v) -> dict:
    return {"tag": tag, "kind": "lit", "ty": type(v).__name__, "repr": repr(v)}


# ----------------------------------------------------------------------------- plain classes


class _PlainMixin:
    def _init(self, w, alpha=1.0, mode="pos"):
        self.w = np.asarray(w, np.float32)
        self.alpha = float(alpha)
        self.mode = str(mode)

    def _verif_state(self):
        return [_arr_item("w", self.w), _lit_item("alpha", self.alpha), _lit_item("mode", self.mode)]


@onnx_function
class PlainD(_PlainMixin):
    def __init__(self, w, alpha=1.0, mode="pos"):
        self._init(w, alpha, mode)

    def __call__(self, x, gain=1.0, deterministic=True):
        return _apply(x, self.w, self.alpha, self.mode, gain, deterministic)


@onnx_function(unique=True)
class PlainU(_PlainMixin):
    def __init__(self, w, alpha=1.0, mode="pos"):
        self._init(w, alpha, mode)

    def __call__(self, x, gain=1.0, deterministic=True):
        return _apply(x, self.w, self.alpha, self.mode, gain, deterministic)


@onnx_function
class TwoOutD(_PlainMixin):
    """two outputs, for the arity checks"""

    def __init__(self, w, alpha=1.0, mode="pos"):
        self._init(w, alpha, mode)

    def __call__(self, x, gain=1.0, deterministic=True):
        y = _apply(x, self.w, self.alpha, self.mode, gain, deterministic)
        return y, y - x


# ----------------------------------------------------------------------------- flax.nnx


class _NnxMixin:
    def _init(self, w, alpha=1.0, mode="pos"):
        self.w = nnx.Param(jnp.asarray(np.asarray(w, np.float32)))
        self.alpha = float(alpha)
        self.mode = str(mode)

    def _verif_state(self):
        return [_arr_item("w", np.asarray(self.w[...])), _lit_item("alpha", self.alpha),
                _lit_item("mode", self.mode)]


@onnx_function
class NnxD(nnx.Module, _NnxMixin):
    def __init__(self, w, alpha=1.0, mode="pos"):
        self._init(w, alpha, mode)

    def __call__(self, x, gain=1.0, deterministic=True):
        return _apply(x, self.w[...], self.alpha, self.mode, gain, deterministic)


@onnx_function(unique=True)
class NnxU(nnx.Module, _NnxMixin):
    def __init__(self, w, alpha=1.0, mode="pos"):
        self._init(w, alpha, mode)

    def __call__(self, x, gain=1.0, deterministic=True):
        return _apply(x, self.w[...], self.alpha, self.mode, gain, deterministic)


# ----------------------------------------------------------------------------- equinox


def _eqx_state(self):
    return [_arr_item("w", np.asarray(self.w)), _lit_item("alpha", self.alpha), _lit_item("mode", self.mode)]


@onnx_function
class EqxD(eqx.Module):
    w: jax.Array
    alpha: float = eqx.field(static=True, default=1.0)
    mode: str = eqx.field(static=True, default="pos")

    def __call__(self, x, gain=1.0, deterministic=True):
        return _apply(x, self.w, self.alpha, self.mode, gain, deterministic)

    _verif_state = _eqx_state


@onnx_function(unique=True)
class EqxU(eqx.Module):
    w: jax.Array
    alpha: float = eqx.field(static=True, default=1.0)
    mode: str = eqx.field(static=True, default="pos")

    def __call__(self, x, gain=1.0, deterministic=True):
        return _apply(x, self.w, self.alpha, self.mode, gain, deterministic)

    _verif_state = _eqx_state


# ----------------------------------------------------------------------------- free functions

_FN_W = np.asarray([0.5, 1.0, -2.0], np.float32)


@onnx_function
def fn_d(x, gain=1.0, deterministic=True):
    return _apply(x, _FN_W, 1.0, "pos", gain, deterministic)


@onnx_function(unique=True)
def fn_u(x, gain=1.0, deterministic=True):
    return _apply(x, _FN_W, 2.0, "neg", gain, deterministic)


# ----------------------------------------------------------------------------- two symbolic extents


def _grid(a, b, k):
    # a: (P,), b: (Q,) -> (P, Q); uses BOTH extents in a shape-dependent lowering
    cols = jnp.broadcast_to(a[:, None], (a.shape[0], b.shape[0]))
    return cols * jnp.sum(b) * k


@onnx_function
def grid_d(a, b):
    return _grid(a, b, 1.0)


@onnx_function(unique=True)
def grid_u(a, b):
    return _grid(a, b, 2.0)


@onnx_function
class GridD:
    def __init__(self, k):
        self.k = np.float32(k)

    def __call__(self, a, b):
        return _grid(a, b, self.k)

    def _verif_state(self):
        return [_arr_item("k", self.k)]


@onnx_function(unique=True)
class GridU(nnx.Module):
    def __init__(self, k):
        self.k = nnx.Param(jnp.asarray(np.float32(k)))

    def __call__(self, a, b):
        return _grid(a, b, self.k[...])

    def _verif_state(self):
        return [_arr_item("k", np.asarray(self.k[...]))]


GRID_KINDS = ["GridFnD", "GridFnU", "GridD", "GridU"]
# which arguments (x:(B,), y:(N,), z:(B,)) the two call sites get
SYMBOL_VARIANTS = {
    "self_then_cross": [("x", "x"), ("x", "y")],
    "cross_then_self": [("x", "y"), ("x", "x")],
    "cross_then_swapped": [("x", "y"), ("y", "x")],
    "cross_then_same_pattern": [("x", "y"), ("z", "y")],
    "self_then_self_other_symbol": [("x", "x"), ("y", "y")],
    "three_sites": [("x", "x"), ("x", "y"), ("y", "y")],
}
BINDINGS = [(3, 5), (1, 4), (5, 2), (2, 2), (4, 1)]


def gen_symbols(rng, kind: Optional[str] = None, variant: Optional[str] = None) -> dict:
    b = rng.sample(BINDINGS[:3] + [BINDINGS[4]], 2) + [rng.choice(BINDINGS)]
    return {"pattern": "symbols", "kind": kind or rng.choice(GRID_KINDS),
            "variant": variant or rng.choice(list(SYMBOL_VARIANTS)),
            "k": rng.choice([0.5, 2.0, -1.5]), "bindings": [list(x) for x in b]}


# ----------------------------------------------------------------------------- deep static fields (unique=True)


class _Act(nnx.Module):
    """undecorated, weight-free sub-module with a static field"""

    def __init__(self, slope, inner=None):
        self.slope = float(slope)
        self.inner = inner            # optional third level

    def __call__(self, y):
        y = jnp.where(y > 0, y, y * self.slope)
        return self.inner(y) if self.inner is not None else y

    def state(self, prefix):
        out = [_lit_item(prefix + "slope", self.slope)]
        if self.inner is not None:
            out += self.inner.state(prefix + "inner.")
        return out


@onnx_function(unique=True)
class DeepU(nnx.Module):
    """decorated module whose only difference to a twin may sit in a NESTED static field"""

    def __init__(self, w, slope, slope2=None, alpha=1.0):
        self.w = nnx.Param(jnp.asarray(np.asarray(w, np.float32)))
        self.alpha = float(alpha)
        self.act = _Act(slope, _Act(slope2) if slope2 is not None else None)

    def __call__(self, x):
        return self.act(x * self.w[...] * self.alpha)

    def _verif_state(self):
        return [_arr_item("w", np.asarray(self.w[...])), _lit_item("alpha", self.alpha)] + self.act.state("act.")


DEEP_VARIANTS = ["nested_static", "nested_nested_static", "equal", "weight", "root_static"]


def gen_deep(rng, variant: Optional[str] = None) -> dict:
    return {"pattern": "deep", "variant": variant or rng.choice(DEEP_VARIANTS), "w": rng.choice(W_CHOICES),
            "slopes": rng.sample([0.5, 0.25, 2.0, -1.0], 2), "three_levels": rng.chance(0.5)}


# ----------------------------------------------------------------------------- same display name, different targets


@onnx_function(type="Block")
def enc_block(x):
    return x * 2.0 + 1.0


@onnx_function(type="Block")
def dec_block(x):
    return x * 0.5 - 3.0


@onnx_function(unique=True, type="UBlock")
def enc_ublock(x):
    return x * 4.0 + 2.0


@onnx_function(unique=True, type="UBlock")
def dec_ublock(x):
    return x * 0.25 - 1.0


def _mk_same_named(modname: str, k: float):
    class Twin:
        __module__ = modname

        def __init__(self, w):
            self.w = np.float32(w)

        def __call__(self, x):
            return x * self.w + np.float32(k)

        def _verif_state(self):
            return [_arr_item("w", self.w)]
    return Twin


TwinA = onnx_function(_mk_same_named(__name__ + ".pkga", 1.0))     # two classes with the same __name__
TwinB = onnx_function(_mk_same_named(__name__ + ".pkgb", -2.0))    # in different modules

NAME_VARIANTS = ["history", "type_override_three", "type_override_default", "type_override_unique",
                 "same_class_name"]


# pool of decorated targets that share friendly names across targets, namespaces and modes; every member computes a
# different affine map, so a body stored under somebody else's identifier changes the numbers
def _mk_pool_fn(i: int, ns, typ, unique: bool):
    k, c = np.float32((i % 5 + 1) * 0.5), np.float32(i - 3)

    def f(x):
        return x * k + c
    f.__name__ = f.__qualname__ = f"pool_fn_{i}"
    f.__module__ = __name__
    globals()[f.__name__] = f
    kw = {"unique": unique}
    if ns is not None:
        kw["namespace"] = ns
    if typ is not None:
        kw["type"] = typ
    onnx_function(f, **kw)
    base = typ if typ is not None else f.__name__
    return {"attr": f.__name__, "ns": ns, "type": typ, "unique": unique, "base": base, "k": float(k), "c": float(c)}


ALLOC_POOL = [_mk_pool_fn(i, ns, typ, u) for i, (ns, typ, u) in enumerate([
    (None, "Block", False), (None, "Block", False), (None, "Block", True), (None, "Block", True),
    ("a", "Block", False), ("a", "Block", True), ("a.Block", "Block", False), ("a.b", "Block", False),
    ("a.b", "Block", True), (None, None, False), (None, None, True), ("a", "Other", False),
    ("a", "Other", False), ("a.Block", "unique_", True), (None, "Blk-2", False), (None, "Blk.2", False),
    ("a.Block.1", "Block", False), ("a.Block.unique", "Block", True),
])]


def pool_request(m: dict) -> dict:
    """what `_allocate_friendly_name` is asked for, from the decorator arguments (not from the plugin object)"""
    import re
    parts = [re.sub(r"[^A-Za-z0-9_]", "_", q) for q in (m["ns"] or "custom").split(".") if q]
    parts = [q for q in parts if q] or ["custom"]
    return {"ns": parts, "base": re.sub(r"[^A-Za-z0-9_]", "_", m["base"]), "unique": bool(m["unique"])}


def gen_names(rng, variant: Optional[str] = None) -> dict:
    d = {"pattern": "names", "variant": variant or rng.choice(NAME_VARIANTS), "swap": rng.chance(0.5)}
    if d["variant"] == "history":
        # a call history over the pool: (member, which input) — the two inputs have different shapes, so one
        # target can get two definitions; members share friendly names across targets / namespaces / modes
        members = rng.sample(list(range(len(ALLOC_POOL))), 4)
        d["calls"] = [[rng.choice(members), rng.choice([0, 1])] for _ in range(rng.choice([4, 5, 6]))]
    return d


# ----------------------------------------------------------------------------- several traced keywords / object-valued keywords


@onnx_function
def affine_d(x, scale=None, shift=None, extra=None):
    y = x * scale + shift
    return y if extra is None else y - extra * 2.0


@onnx_function(unique=True)
def affine_u(x, scale=None, shift=None, extra=None):
    y = x * scale - shift
    return y if extra is None else y + extra * 2.0


@onnx_function
class AffineD:
    def __init__(self, w):
        self.w = np.float32(w)

    def __call__(self, x, scale=None, shift=None):
        return x * scale * self.w + shift

    def _verif_state(self):
        return [_arr_item("w", self.w)]


KWORDER_VARIANTS = ["swapped", "swapped_three", "same_order", "swapped_values_same_order"]


def gen_kworder(rng, variant: Optional[str] = None) -> dict:
    return {"pattern": "kworder", "kind": rng.choice(["affine_d", "affine_u", "AffineD"]),
            "variant": variant or rng.choice(KWORDER_VARIANTS)}


def act_neg(y):
    return -y


def act_dbl(y):
    return y + y


def act_sq(y):
    return y * y


class _ActObj:
    """callable object: same Python type, different meaning"""

    def __init__(self, k):
        self.k = np.float32(k)

    def __call__(self, y):
        return y * self.k


ACT_OBJS = {"neg": act_neg, "dbl": act_dbl, "sq": act_sq, "obj2": _ActObj(2.0), "obj3": _ActObj(-0.5)}


@onnx_function
def gated_d(x, act=None):
    return act(x * 0.5) + 1.0


@onnx_function
class GatedD:
    def __init__(self, w):
        self.w = np.float32(w)

    def __call__(self, x, act=None):
        return act(x * self.w)

    def _verif_state(self):
        return [_arr_item("w", self.w)]


OBJKW_VARIANTS = [("neg", "dbl"), ("obj2", "obj3"), ("dbl", "dbl"), ("sq", "neg"), ("obj2", "obj2")]


def gen_objkw(rng, pair=None) -> dict:
    a, b = pair or rng.choice(OBJKW_VARIANTS)
    return {"pattern": "objkw", "kind": rng.choice(["gated_d", "GatedD"]), "acts": [a, b], "third": rng.chance(0.5)}


# ----------------------------------------------------------------------------- nesting


class _OuterMixin:
    def _verif_state(self):
        out = []
        for nm in ("a", "b"):
            inner = getattr(self, nm)
            out.append(_lit_item(nm + ".type", type(inner).__name__))
            for it in inner._verif_state():
                it = dict(it)
                it["tag"] = nm + "." + it["tag"]
                out.append(it)
        return out


@onnx_function
class OuterD(nnx.Module, _OuterMixin):
    """a decorated module whose body calls two decorated modules"""

    def __init__(self, a, b):
        self.a = a
        self.b = b

    def __call__(self, x, deterministic=True):
        return self.b(self.a(x, deterministic=deterministic) + x, gain=2.0)


@onnx_function(unique=True)
class OuterU(nnx.Module, _OuterMixin):
    def __init__(self, a, b):
        self.a = a
        self.b = b

    def __call__(self, x, deterministic=True):
        return self.b(self.a(x, deterministic=deterministic) + x, gain=2.0)


@onnx_function
class Outer3(nnx.Module):
    """three levels: Outer3 -> OuterD -> blocks"""

    def __init__(self, o):
        self.o = o

    def __call__(self, x):
        return self.o(x) - x

    def _verif_state(self):
        return [dict(it, tag="o." + it["tag"]) for it in self.o._verif_state()]


KINDS = {"PlainD": PlainD, "PlainU": PlainU, "NnxD": NnxD, "NnxU": NnxU, "EqxD": EqxD, "EqxU": EqxU}
FN_KINDS = {"FnD": "fn_d", "FnU": "fn_u"}
MY_MODULE = __name__


def make_block(kind: str, w, alpha, mode):
    if kind in ("EqxD", "EqxU"):
        return KINDS[kind](jnp.asarray(np.asarray(w, np.float32)), alpha, mode)
    return KINDS[kind](w, alpha, mode)


# ----------------------------------------------------------------------------- descriptors

W_CHOICES = [[0.5, 1.0, -2.0], [0.25, -1.0, 1.5], [2.0, 0.5, 0.75], [1.0, 1.0, 1.0], [-0.5, 3.0, 0.25]]
ALPHAS = [1.0, 0.5, 2.0, -1.5]
MODES = ["pos", "neg", "dbl"]
GAINS = [None, 1.0, 2.0, 0.5, 3.0]
SHAPES = [[2, 3], [4, 3], [3], [1, 3], [2, 2, 3]]
DTYPES = ["float32", "int32", "float16"]
DIFFS = ["same_instance", "identity", "weight", "static_alpha", "static_mode", "kwarg_gain",
         "kwarg_presence", "shape", "dtype", "kwarg_gain_f32twin"]


def gen_pair(rng, kind: Optional[str] = None, diff: Optional[str] = None) -> dict:
    kind = kind or rng.choice(list(KINDS) + list(FN_KINDS))
    is_fn = kind in FN_KINDS
    diffs = [d for d in DIFFS if not (is_fn and d in ("identity", "weight", "static_alpha", "static_mode"))]
    diff = diff if diff in diffs else rng.choice(diffs)
    base = {"w": rng.choice(W_CHOICES), "alpha": rng.choice(ALPHAS), "mode": rng.choice(MODES),
            "gain": rng.choice(GAINS), "shape": rng.choice(SHAPES[:4]), "dtype": "float32"}
    other = dict(base)
    if diff == "weight":
        other["w"] = rng.choice([w for w in W_CHOICES if w != base["w"]])
    elif diff == "static_alpha":
        other["alpha"] = rng.choice([a for a in ALPHAS if a != base["alpha"]])
    elif diff == "static_mode":
        other["mode"] = rng.choice([m for m in MODES if m != base["mode"]])
    elif diff == "kwarg_gain":
        base["gain"] = rng.choice(GAINS[1:])
        other["gain"] = rng.choice([g for g in GAINS[1:] if g != base["gain"]])
    elif diff == "kwarg_gain_f32twin":
        # two Python floats that differ below float32 resolution (distinct float64 bytes, same float32)
        base["gain"] = rng.choice([1.0, 2.0, 0.5])
        other["gain"] = base["gain"] + 2.0 ** -40
    elif diff == "kwarg_presence":
        base["gain"], other["gain"] = None, 1.0
    elif diff == "shape":
        other["shape"] = rng.choice([s for s in SHAPES if s != base["shape"]])
    elif diff == "dtype":
        other["dtype"] = rng.choice(DTYPES[1:])
    return {"pattern": "pair", "kind": kind, "diff": diff, "a": base, "b": other,
            "third": rng.chance(0.5), "swap": rng.chance(0.3), "chain": rng.chance(0.25) and diff not in ("shape", "dtype"),
            "sym": rng.chance(0.2) and diff != "shape", "det_param": rng.chance(0.25),
            # keyword passed as a traced scalar (runtime parameter of the function; works since 978be54)
            "traced_gain": rng.chance(0.2) and diff != "kwarg_gain_f32twin"}


def gen_nested(rng) -> dict:
    inner = rng.choice(["NnxD", "NnxU"])
    outer = rng.choice(["OuterD", "OuterU"])
    d = {"pattern": "nested", "inner": inner, "outer": outer,
            "wa": rng.choice(W_CHOICES), "wb": rng.choice(W_CHOICES), "alpha": rng.choice(ALPHAS),
            "variant": rng.choice(["twice", "two_outers_shared_inner", "two_outers_equal_state",
                                   "two_outers_diff_weight", "three_levels", "inner_also_top"]),
            "det_param": False}
    # (set below) input_params + three levels: the outermost function does not take the parameter but an
    # inner one accepts it -> listed finding, exercised by the probe input_param_nested_scope
    d["det_param"] = rng.chance(0.3) and d["variant"] != "three_levels"
    return d


_COVER_BASE = {"w": [0.5, 1.0, -2.0], "alpha": 0.5, "mode": "neg", "gain": 2.0, "shape": [2, 3], "dtype": "float32"}
_COVER_OTHER = {"weight": {"w": [0.25, -1.0, 1.5]}, "static_alpha": {"alpha": 2.0}, "static_mode": {"mode": "dbl"},
                "kwarg_gain": {"gain": 0.5}, "kwarg_gain_f32twin": {"gain": 2.0 + 2.0 ** -40},
                "kwarg_presence": {"gain": 1.0}, "shape": {"shape": [4, 3]}, "dtype": {"dtype": "int32"},
                "identity": {}, "same_instance": {}}
_COVER_COMPONENT = {"weight": "weight", "static_alpha": "static", "static_mode": "static", "kwarg_gain": "kwarg_value",
                    "kwarg_gain_f32twin": "kwarg_value", "kwarg_presence": "kwarg_presence", "shape": "shape",
                    "dtype": "dtype", "identity": "identity", "same_instance": "none"}


def _cover_pair(kind: str, diff: str) -> dict:
    a = dict(_COVER_BASE)
    if diff == "kwarg_presence":
        a["gain"] = None
    b = dict(a, **_COVER_OTHER[diff])
    return {"pattern": "pair", "kind": kind, "diff": diff, "a": a, "b": b, "third": False, "swap": False,
            "chain": False, "sym": False, "det_param": False, "traced_gain": False}


def cover() -> list[dict]:
    """FIXED programs (independent of the PRNG seed) with exactly two call sites that differ in exactly one
    component: one per (component x {default class, unique class, function}).  Each entry: component, mode, desc.
    They are part of every run (the generator's guaranteed part) and the source of Gen/C07.lean's response table."""
    out = []
    for kind, mode in (("NnxD", "default"), ("EqxU", "unique"), ("FnD", "default"), ("FnU", "unique")):
        for diff in ("weight", "static_alpha", "static_mode", "kwarg_gain", "kwarg_gain_f32twin", "kwarg_presence",
                     "shape", "dtype", "identity", "same_instance"):
            if kind in FN_KINDS and diff in ("weight", "static_alpha", "static_mode", "identity"):
                continue
            if kind == "FnU" and diff not in ("dtype", "shape", "kwarg_gain"):
                continue
            if diff in ("identity", "same_instance") and kind not in ("NnxD", "EqxU"):
                continue
            out.append({"component": _COVER_COMPONENT[diff], "mode": mode, "desc": _cover_pair(kind, diff)})
    for kind, mode in (("GridFnD", "default"), ("GridU", "unique")):
        out.append({"component": "symbol", "mode": mode,
                    "desc": {"pattern": "symbols", "kind": kind, "variant": "cross_then_self", "k": 2.0,
                             "bindings": [[3, 5], [5, 2], [2, 2]]}})
    for v in ("nested_static", "nested_nested_static"):
        out.append({"component": "nested_static", "mode": "unique",
                    "desc": {"pattern": "deep", "variant": v, "w": [0.5, 1.0, -2.0], "slopes": [0.5, 2.0],
                             "three_levels": True}})
    for v, mode in (("type_override_default", "default"), ("type_override_unique", "unique"),
                    ("same_class_name", "default")):
        out.append({"component": "target", "mode": mode, "desc": {"pattern": "names", "variant": v, "swap": False}})
    for kind, mode in (("affine_d", "default"), ("affine_u", "unique"), ("AffineD", "default")):
        out.append({"component": "kwarg_order", "mode": mode,
                    "desc": {"pattern": "kworder", "kind": kind, "variant": "swapped"}})
    for kind, acts in (("gated_d", ["neg", "dbl"]), ("GatedD", ["obj2", "obj3"])):
        out.append({"component": "kwarg_object", "mode": "default",
                    "desc": {"pattern": "objkw", "kind": kind, "acts": acts, "third": False}})
    return out


def generate(rng, n: int) -> list[dict]:
    """The fixed cover set first (one program per component x mode), then every (kind, diff) combination in
    shuffled order (pattern-directed) with random options."""
    out: list[dict] = [c["desc"] for c in cover()]
    n = max(n - len(out), 10)
    out += _generate_random(rng, n)
    return out


def _generate_random(rng, n: int) -> list[dict]:
    out: list[dict] = []
    combos = [(k, d) for k in list(KINDS) + list(FN_KINDS) for d in DIFFS
              if not (k in FN_KINDS and d in ("identity", "weight", "static_alpha", "static_mode"))]
    combos = rng.shuffle(combos)
    sym_combos = rng.shuffle([(k, v) for k in GRID_KINDS for v in SYMBOL_VARIANTS])
    extra = 0
    for i in range(n):
        r = i % 10
        if r == 5:
            k, v = sym_combos[(i // 10) % len(sym_combos)]
            out.append(gen_symbols(rng, k, v))
        elif r in (4, 9):
            out.append(gen_nested(rng))
        elif r in (2, 7):
            # one of the four targeted patterns, variants in list order (the critical ones first)
            which, rnd = extra % 4, extra // 4
            extra += 1
            if which == 0:
                out.append(gen_deep(rng, DEEP_VARIANTS[rnd % len(DEEP_VARIANTS)]))
            elif which == 1:
                out.append(gen_names(rng, NAME_VARIANTS[rnd % len(NAME_VARIANTS)]))
            elif which == 2:
                out.append(gen_kworder(rng, KWORDER_VARIANTS[rnd % len(KWORDER_VARIANTS)]))
            else:
                out.append(gen_objkw(rng, OBJKW_VARIANTS[rnd % len(OBJKW_VARIANTS)]))
        elif i in (0, 1, 3):
            # always present: the float-resolution twin for a default class, a unique class and a function
            out.append(gen_pair(rng, ["NnxD", "EqxU", "FnD"][min(i, 2)], "kwarg_gain_f32twin"))
        else:
            k, d = combos[(i - (i // 10) * 5) % len(combos)]
            out.append(gen_pair(rng, k, d))
    return out


# ----------------------------------------------------------------------------- building


class Prog:
    def __init__(self, desc: dict):
        self.desc = desc
        self.keep: list[Any] = []
        self.input_params: Optional[dict] = None
        self.fn = None
        self.specs: list[Any] = []
        self.feeds: list[np.ndarray] = []
        self.feed_sets: Optional[list[list[np.ndarray]]] = None   # several bindings of the symbols


def _feed(shape, dtype, salt: int) -> np.ndarray:
    n = int(np.prod(shape)) if shape else 1
    vals = ((np.arange(n) * 3 + salt) % 9 - 4).astype(np.float64)
    if dtype == "int32":
        return vals.reshape(shape).astype(np.int32)
    return (vals * 0.5).reshape(shape).astype(dtype)


def build(desc: dict) -> Prog:
    p = Prog(desc)
    if desc["pattern"] == "pair":
        _build_pair(p)
    elif desc["pattern"] == "nested":
        _build_nested(p)
    elif desc["pattern"] == "symbols":
        _build_symbols(p)
    elif desc["pattern"] == "deep":
        _build_deep(p)
    elif desc["pattern"] == "names":
        _build_names(p)
    elif desc["pattern"] == "kworder":
        _build_kworder(p)
    elif desc["pattern"] == "objkw":
        _build_objkw(p)
    elif desc["pattern"] == "probe":
        _build_probe(p)
    else:
        raise ValueError(desc["pattern"])
    return p


def _kw(gain, det_kw: dict) -> dict:
    kw = dict(det_kw)
    if gain is not None:
        kw["gain"] = gain
    return kw


def _build_pair(p: Prog) -> None:
    d = p.desc
    a, b, kind = d["a"], d["b"], d["kind"]
    if kind in FN_KINDS:
        import sys
        mod = sys.modules[MY_MODULE]
        name = FN_KINDS[kind]

        def call_a(x, **kw):
            return getattr(mod, name)(x, **kw)
        call_b = call_a
    else:
        A = make_block(kind, a["w"], a["alpha"], a["mode"])
        if d["diff"] in ("same_instance", "kwarg_gain", "kwarg_gain_f32twin", "kwarg_presence", "shape", "dtype"):
            B = A
        else:
            B = make_block(kind, b["w"], b["alpha"], b["mode"])
        p.keep += [A, B]
        call_a, call_b = A, B
    sa = list(a["shape"])
    sb = list(b["shape"])
    sym = bool(d.get("sym")) and len(sa) > 1 and len(sb) > 1 and sa[0] == sb[0] \
        and a["dtype"] == "float32" and b["dtype"] == "float32"
    if sym:
        p.specs = [tuple(["B"] + sa[1:]), tuple(["B"] + sb[1:])]
    else:
        p.specs = [jax.ShapeDtypeStruct(tuple(sa), np.dtype(a["dtype"])),
                   jax.ShapeDtypeStruct(tuple(sb), np.dtype(b["dtype"]))]
    p.feeds = [_feed(sa, a["dtype"], 1), _feed(sb, b["dtype"], 2)]
    det_param = bool(d.get("det_param"))
    if det_param:
        p.input_params = {"deterministic": True}
    two = kind == "TwoOutD"

    def first(r):
        return r[0] if two else r

    def fn(x, y, deterministic=True):
        det_kw = {"deterministic": deterministic} if det_param else {}
        outs = []
        kw_a = _kw(a["gain"], det_kw)
        if d.get("traced_gain"):
            # exact: 0 * x0 + g  (x0 is finite), as a traced float32 scalar
            g = a["gain"] if a["gain"] is not None else 1.0
            kw_a["gain"] = jnp.ravel(x)[0].astype(jnp.float32) * 0.0 + jnp.float32(g)
        if d.get("swap"):
            rb = call_b(y, **_kw(b["gain"], det_kw))
            ra = call_a(x, **kw_a)
        else:
            ra = call_a(x, **kw_a)
            rb = call_b(y, **_kw(b["gain"], det_kw))
        outs += list(ra) if two else [ra]
        outs += list(rb) if two else [rb]
        if d.get("third"):
            outs.append(first(call_a(x + 1, **_kw(a["gain"], det_kw))))
        if d.get("chain"):
            outs.append(first(call_b(first(call_a(x, **_kw(a["gain"], det_kw))), **_kw(b["gain"], det_kw))))
        return tuple(outs)

    p.fn = fn


def _build_symbols(p: Prog) -> None:
    d = p.desc
    import sys
    mod = sys.modules[MY_MODULE]
    kind = d["kind"]
    if kind == "GridFnD":
        call = lambda a, b: getattr(mod, "grid_d")(a, b)   # noqa: E731 (module lookup at call time)
    elif kind == "GridFnU":
        call = lambda a, b: getattr(mod, "grid_u")(a, b)   # noqa: E731
    else:
        blk = {"GridD": GridD, "GridU": GridU}[kind](d["k"])
        p.keep.append(blk)
        call = blk
    sites = SYMBOL_VARIANTS[d["variant"]]
    p.specs = [("B",), ("N",), ("B",)]
    p.feed_sets = [[_feed([B], "float32", 1), _feed([N], "float32", 2), _feed([B], "float32", 4)]
                   for B, N in d["bindings"]]
    p.feeds = p.feed_sets[0]

    def fn(x, y, z):
        env = {"x": x, "y": y, "z": z}
        return tuple(call(env[a], env[b]) for a, b in sites)

    p.fn = fn


def _build_deep(p: Prog) -> None:
    d = p.desc
    s1, s2 = d["slopes"]
    lvl3 = 0.5 if d["three_levels"] or d["variant"] == "nested_nested_static" else None
    a = DeepU(d["w"], s1, lvl3)
    v = d["variant"]
    if v == "nested_static":
        b = DeepU(d["w"], s2, lvl3)
    elif v == "nested_nested_static":
        b = DeepU(d["w"], s1, 0.25)
    elif v == "equal":
        b = DeepU(d["w"], s1, lvl3)
    elif v == "weight":
        b = DeepU([x + 0.5 for x in d["w"]], s1, lvl3)
    else:
        b = DeepU(d["w"], s1, lvl3, alpha=2.0)
    p.keep += [a, b]
    p.specs = [(2, 3)]
    p.feeds = [_feed([2, 3], "float32", 6)]
    p.fn = lambda x: (a(x), b(x), a(x + 1))


def _build_names(p: Prog) -> None:
    d = p.desc
    import sys
    mod = sys.modules[MY_MODULE]
    v = d["variant"]
    if v == "history":
        p.specs = [(2, 3), (1, 3)]
        p.feeds = [_feed([2, 3], "float32", 7), _feed([1, 3], "float32", 2)]
        calls_h = [(ALLOC_POOL[i]["attr"], j) for i, j in d["calls"]]
        p.fn = lambda x, y: tuple(getattr(mod, a)((x, y)[j]) for a, j in calls_h)
        return
    if v == "same_class_name":
        ta, tb = TwinA(2.0), TwinB(2.0)
        p.keep += [ta, tb]
        calls = [ta, tb]
    elif v == "type_override_unique":
        calls = [lambda x: getattr(mod, "enc_ublock")(x), lambda x: getattr(mod, "dec_ublock")(x)]
    else:
        calls = [lambda x: getattr(mod, "enc_block")(x), lambda x: getattr(mod, "dec_block")(x)]
    if d.get("swap"):
        calls = calls[::-1]
    if v == "type_override_three":
        calls = calls + [calls[0]]
    p.specs = [(2, 3)]
    p.feeds = [_feed([2, 3], "float32", 7)]
    p.fn = lambda x: tuple(c(x + i) for i, c in enumerate(calls))


def _build_kworder(p: Prog) -> None:
    d = p.desc
    import sys
    mod = sys.modules[MY_MODULE]
    if d["kind"] == "AffineD":
        blk = AffineD(2.0)
        p.keep.append(blk)
        call = blk
    else:
        name = d["kind"]
        call = lambda x, **kw: getattr(mod, name)(x, **kw)   # noqa: E731
    v = d["variant"]
    three = v == "swapped_three" and d["kind"] != "AffineD"
    p.specs = [(2, 3), (3,), (3,), (3,)]
    p.feeds = [_feed([2, 3], "float32", 1), _feed([3], "float32", 2), _feed([3], "float32", 5), _feed([3], "float32", 8)]

    def fn(x, s, t, u):
        s, t, u = s * 1.0, t * 1.0, u * 1.0          # traced values, not graph inputs themselves
        if v == "same_order":
            return call(x, scale=s, shift=t), call(x + 1, scale=s, shift=t)
        if v == "swapped_values_same_order":
            return call(x, scale=s, shift=t), call(x + 1, scale=t, shift=s)
        if three:
            return call(x, scale=s, shift=t, extra=u), call(x + 1, extra=s, shift=t, scale=u)
        return call(x, scale=s, shift=t), call(x + 1, shift=s, scale=t)

    p.fn = fn


def _build_objkw(p: Prog) -> None:
    d = p.desc
    import sys
    mod = sys.modules[MY_MODULE]
    if d["kind"] == "GatedD":
        blk = GatedD(2.0)
        p.keep.append(blk)
        call = blk
    else:
        call = lambda x, **kw: getattr(mod, "gated_d")(x, **kw)   # noqa: E731
    a, b = (ACT_OBJS[k] for k in d["acts"])
    p.specs = [(2, 3)]
    p.feeds = [_feed([2, 3], "float32", 3)]

    def fn(x):
        outs = [call(x, act=a), call(x, act=b)]
        if d.get("third"):
            outs.append(call(x, act=a))
        return tuple(outs)

    p.fn = fn


def _build_nested(p: Prog) -> None:
    d = p.desc
    inner = KINDS[d["inner"]]
    outer = {"OuterD": OuterD, "OuterU": OuterU}[d["outer"]]
    a = inner(d["wa"], d["alpha"], "pos")
    b = inner(d["wb"], 1.0, "neg")
    o1 = outer(a, b)
    v = d["variant"]
    objs = [a, b, o1]
    if v == "two_outers_shared_inner":
        o2 = outer(a, inner(d["wb"], 1.0, "neg"))
    elif v == "two_outers_equal_state":
        o2 = outer(inner(d["wa"], d["alpha"], "pos"), inner(d["wb"], 1.0, "neg"))
    elif v == "two_outers_diff_weight":
        o2 = outer(inner([w + 0.5 for w in d["wa"]], d["alpha"], "pos"), b)
    else:
        o2 = o1
    objs.append(o2)
    o3 = Outer3(OuterD(a, b)) if v == "three_levels" else None
    objs.append(o3)
    p.keep += objs
    p.specs = [(2, 3)]
    p.feeds = [_feed([2, 3], "float32", 3)]
    det_param = bool(d.get("det_param"))
    if det_param:
        p.input_params = {"deterministic": True}

    def fn(x, deterministic=True):
        det_kw = {"deterministic": deterministic} if det_param else {}
        outs = [o1(x, **det_kw), o2(x + 1, **det_kw)]
        if v == "twice":
            outs.append(o1(x * 2, **det_kw))
        if v == "inner_also_top":
            outs.append(a(x, **det_kw))
        if o3 is not None:
            outs.append(o3(x))
        return tuple(outs)

    p.fn = fn


# ----------------------------------------------------------------------------- defect probes


@onnx_function
class FlagBlk:
    """__call__ branches in Python on a keyword argument"""

    def __call__(self, x, flag=True):
        if flag:
            return x + 1.0
        return x - 1.0


@onnx_function
class StrBlk:
    def __call__(self, x, mode="a"):
        return x + 1.0 if mode == "a" else x - 1.0


@onnx_function
class BiasBlk:
    def __init__(self, w):
        self.w = np.asarray(w, np.float32)

    def __call__(self, x, bias=None, gain=1.0):
        y = x * self.w * gain
        return y if bias is None else y + bias


@onnx_function
class MutBlk:
    def __init__(self, w):
        self.w = np.float32(w)

    def __call__(self, x):
        return x * self.w


@onnx_function(unique=True)
class MutBlkU:
    def __init__(self, w):
        self.w = np.float32(w)

    def __call__(self, x):
        return x * self.w


@onnx_function
class TmpBlk:
    def __init__(self, w):
        self.w = np.float32(w)

    def __call__(self, x):
        return x * self.w


def _mk_unique_cls(modname: str, add: bool):
    class unique:                      # the class is literally named `unique`
        __module__ = modname

        def __init__(self, w):
            self.w = np.float32(w)

        def __call__(self, x):
            return x + self.w if add else x * self.w
    return unique


# `unique` counter of class `unique` in namespace a  vs  shared counter of class `unique` in namespace a.unique
UniqA = onnx_function(unique=True, namespace="a")(_mk_unique_cls(__name__ + ".nsa", False))
UniqB = onnx_function(namespace="a.unique")(_mk_unique_cls(__name__ + ".nsb", True))


PROBES = {
    # id: (what is exercised)
    "static_bool_kwarg_false": "class __call__(self, x, flag=True) branching on flag, called with flag=False",
    "static_bool_kwarg_true": "same, called with flag=True",
    "static_str_kwarg": "keyword argument of type str",
    "traced_array_kwarg": "keyword argument that is a traced array (runtime parameter)",
    "ndarray_static_kwarg": "keyword argument that is a numpy array",
    "float_input_param": "input_params={'gain': 3.0} forwarded to a decorated callable",
    "mutated_instance_default": "one instance, weight changed between two calls (default mode)",
    "mutated_instance_unique": "one instance, weight changed between two calls (unique=True)",
    "temporary_instances": "two decorated instances created and dropped inside the traced function",
    "single_temporary_instance": "one decorated instance created inside the traced function",
    "tuple_output": "decorated callable returning a tuple of two arrays",
    "function_in_fori_loop": "decorated block called inside a lax.fori_loop body",
    "function_in_scan": "decorated block called inside a lax.scan body",
    "function_in_cond": "decorated block called inside a lax.cond branch",
    "function_in_while_loop": "decorated block called inside a lax.while_loop body",
    "domain_name_collision": "two decorated classes both named `unique`, namespaces 'a' (unique=True) and "
                             "'a.unique' (default), two instances each",
    "input_param_name_capture": "input_params={'deterministic': True}; one call forwards it, a second call of "
                                "the same instance hard-codes deterministic=False",
    "input_param_auto_injected": "input_params={'deterministic': False}; the block (default deterministic=True) "
                                 "is called WITHOUT the keyword",
    "input_param_nested_scope": "input_params={'deterministic': True}; a decorated module that does not take the "
                                "parameter calls a decorated module that accepts it",
}


def _build_probe(p: Prog) -> None:
    pid = p.desc["id"]
    x = _feed([2, 3], "float32", 5)
    p.specs, p.feeds = [(2, 3)], [x]
    if pid in ("static_bool_kwarg_false", "static_bool_kwarg_true"):
        blk = FlagBlk()
        flag = pid.endswith("true")
        p.keep.append(blk)
        p.fn = lambda x: blk(x, flag=flag)
    elif pid == "static_str_kwarg":
        blk = StrBlk()
        p.keep.append(blk)
        p.fn = lambda x: blk(x, mode="b")
    elif pid == "traced_array_kwarg":
        blk = BiasBlk([0.5, 1.0, -2.0])
        p.keep.append(blk)
        p.specs, p.feeds = [(2, 3), (3,)], [x, _feed([3], "float32", 7)]
        p.fn = lambda x, t: blk(x, bias=t * 2.0)
    elif pid == "ndarray_static_kwarg":
        blk = BiasBlk([0.5, 1.0, -2.0])
        p.keep.append(blk)
        p.fn = lambda x: blk(x, bias=np.asarray([1.0, 2.0, 3.0], np.float32))
    elif pid == "float_input_param":
        blk = BiasBlk([0.5, 1.0, -2.0])
        p.keep.append(blk)
        p.input_params = {"gain": 3.0}
        p.fn = lambda x, gain=1.0: blk(x, gain=gain)
    elif pid in ("mutated_instance_default", "mutated_instance_unique"):
        blk = MutBlk(2.0) if pid.endswith("default") else MutBlkU(2.0)
        p.keep.append(blk)

        def fn(x):
            blk.w = np.float32(2.0)
            a = blk(x)
            blk.w = np.float32(3.0)
            return blk(a)
        p.fn = fn
    elif pid == "temporary_instances":
        p.fn = lambda x: TmpBlk(3.0)(TmpBlk(2.0)(x))
    elif pid == "single_temporary_instance":
        p.fn = lambda x: TmpBlk(2.0)(x)
    elif pid == "domain_name_collision":
        u1, u2, s1, s2 = UniqA(2.0), UniqA(4.0), UniqB(8.0), UniqB(16.0)
        p.keep += [u1, u2, s1, s2]
        p.fn = lambda x: (u1(x), u2(x), s1(x), s2(x))
    elif pid.startswith("function_in_"):
        from jax import lax
        blk = PlainD([0.5, 1.0, -2.0])
        p.keep.append(blk)
        p.fn = {
            "function_in_fori_loop": lambda x: lax.fori_loop(0, 3, lambda i, v: blk(v), x),
            "function_in_scan": lambda x: lax.scan(lambda c, _: (blk(c), None), x, None, length=2)[0],
            "function_in_cond": lambda x: lax.cond(x[0, 0] > 0, lambda v: blk(v), lambda v: v, x),
            "function_in_while_loop": lambda x: lax.while_loop(lambda v: v[0, 0] < -100.0, lambda v: blk(v), x),
        }[pid]
    elif pid == "tuple_output":
        blk = TwoOutD([0.5, 1.0, -2.0])
        p.keep.append(blk)
        p.fn = lambda x: blk(x)
    elif pid == "input_param_name_capture":
        blk = PlainD([0.5, 1.0, -2.0])
        p.keep.append(blk)
        p.input_params = {"deterministic": True}
        p.fn = lambda x, deterministic=True: (blk(x, deterministic=deterministic), blk(x, deterministic=False))
    elif pid == "input_param_auto_injected":
        blk = PlainD([0.5, 1.0, -2.0])
        p.keep.append(blk)
        p.input_params = {"deterministic": False}
        p.fn = lambda x, deterministic=False: (blk(x), jnp.where(deterministic, x, -x))
    elif pid == "input_param_nested_scope":
        a = NnxD([0.5, 1.0, -2.0])
        o3 = Outer3(OuterD(a, NnxD([1.0, 1.0, 1.0])))
        p.keep += [a, o3]
        p.input_params = {"deterministic": True}
        p.fn = lambda x, deterministic=True: (o3(x), a(x, deterministic=deterministic))
    else:
        raise ValueError(pid)
