"""Pattern-directed generator of small ONNX models around the optimizer's rewrite patterns.

Each case instantiates one matched pattern and perturbs ONE OR MORE guard dimensions (DESIGN §2.2):
consumers of intermediates, intermediates as graph outputs / captured by a nested body, inverse vs
non-inverse perms, scalar vs full-rank vs graph-input side operands, keepdims, axes as input vs
attribute, symbolic dims, reshape wildcards, chain length, operator domain.
"""
from __future__ import annotations

from typing import Any, Optional, Sequence

import numpy as np
import onnx
from onnx import TensorProto, helper, numpy_helper

from common import Rng

F32 = TensorProto.FLOAT


class GB:
    def __init__(self, opset: int = 23):
        self.nodes: list = []
        self.inputs: list = []
        self.inits: list = []
        self.outputs: list[str] = []
        self.shapes: dict[str, tuple] = {}
        self.dtypes: dict[str, int] = {}
        self.k = 0
        self.opset = opset
        self.tags: list[str] = []

    def fresh(self, base: str = "v") -> str:
        self.k += 1
        return f"{base}{self.k}"

    def inp(self, shape: Sequence[Any], dtype: int = F32, name: Optional[str] = None) -> str:
        name = name or f"in_{len(self.inputs)}"
        self.inputs.append(helper.make_tensor_value_info(name, dtype, list(shape)))
        self.shapes[name] = tuple(shape)
        self.dtypes[name] = dtype
        return name

    def const(self, arr: np.ndarray, name: Optional[str] = None) -> str:
        name = name or self.fresh("c")
        arr = np.asarray(arr)
        self.inits.append(numpy_helper.from_array(arr, name))
        self.shapes[name] = tuple(arr.shape)
        return name

    def node(self, op: str, ins: Sequence[str], nout: int = 1, domain: str = "", **attrs):
        outs = [self.fresh(op.lower()[:4]) for _ in range(nout)]
        self.nodes.append(helper.make_node(op, list(ins), outs, domain=domain,
                                           name=self.fresh("n_" + op), **attrs))
        return outs[0] if nout == 1 else outs

    def out(self, name: str) -> None:
        if name not in self.outputs:
            self.outputs.append(name)

    def model(self) -> onnx.ModelProto:
        outs = [helper.make_empty_tensor_value_info(o) for o in self.outputs]
        g = helper.make_graph(self.nodes, "g", self.inputs, outs, initializer=self.inits)
        opsets = [helper.make_opsetid("", self.opset)]
        if any(n.domain for n in self.nodes):
            opsets.append(helper.make_opsetid("custom.verif", 1))
        m = helper.make_model(g, opset_imports=opsets, ir_version=10)
        try:
            m = onnx.shape_inference.infer_shapes(m, strict_mode=False, data_prop=True)
        except Exception:
            pass
        return m


def inv_perm(p: Sequence[int]) -> list[int]:
    q = [0] * len(p)
    for i, x in enumerate(p):
        q[x] = i
    return q


PERMS3 = [[0, 2, 1], [1, 0, 2], [2, 0, 1], [1, 2, 0], [2, 1, 0]]
PERMS4 = [[0, 3, 1, 2], [0, 2, 3, 1], [0, 1, 3, 2], [3, 2, 1, 0], [1, 0, 2, 3]]
UNARY = ["Relu", "Tanh", "Sigmoid", "Neg", "Abs", "Exp", "Identity", "Elu", "LeakyRelu", "Sqrt"]
CHAIN_ONLY = ["Relu", "Tanh", "Sigmoid", "Identity", "Elu", "LeakyRelu", "Gelu"]


# unary, shape-preserving operators that are NOT layout-invariant (they act along an axis); they
# must never be folded across — part of every chain pool so that a widened "elementwise" set in
# the code is exercised at once
AXIS_SENSITIVE = {"Softmax": {"axis": -1}, "LogSoftmax": {"axis": -1}, "Hardmax": {"axis": -1},
                  "LpNormalization": {"axis": -1, "p": 2}}
KNOWN_UNARY_ATTRS = {"LeakyRelu": {"alpha": 0.1}, "Elu": {"alpha": 0.1}, "Selu": {}, "Celu": {"alpha": 1.0},
                     "ThresholdedRelu": {"alpha": 0.5}, "HardSigmoid": {}, "Softplus": {}, "Softsign": {},
                     "Mish": {}, "Erf": {}, "Sign": {}, "Floor": {}, "Ceil": {}, "Round": {}, "Reciprocal": {},
                     "Sin": {}, "Cos": {}, "Atan": {}, "HardSwish": {}, "Gelu": {}, "Swish": {},
                     **AXIS_SENSITIVE}


def code_unary_ops() -> list[str]:
    """unary operators the CODE currently considers foldable (read live, so that a change of the
    sets changes what is generated)"""
    try:
        import jax2onnx.converter.ir_optimizations as opt
        names = set(opt.ALLOWED_ELEMWISE) | set(opt.ELEMENTWISE_UNARY_OPS)
    except Exception:
        names = set()
    skip = {"Cast", "CastLike", "Not", "Max", "Min", "Clip", "Log", "Sqrt"}
    return sorted(n for n in names if n not in skip)


def _dims(rng: Rng, rank: int) -> list[int]:
    pool = [2, 3, 5, 7, 4, 6]
    ds = rng.sample(pool, rank)
    return ds


def perm_shape(shape, p):
    return [shape[i] for i in p]


def side_operand(gb: GB, rng: Rng, kind: str, layout_shape: list[int]) -> str:
    """second operand for a binary op whose first operand has `layout_shape`."""
    if kind == "scalar":
        return gb.const(np.asarray(rng.randint(1, 5) / 2.0, dtype=np.float32))
    if kind == "scalar1d":
        return gb.const(np.asarray([rng.randint(1, 5) / 2.0] * 1, dtype=np.float32).reshape([1] * len(layout_shape)))
    if kind == "full_const":
        n = int(np.prod(layout_shape))
        return gb.const((np.arange(n, dtype=np.float32).reshape(layout_shape) % 7) - 3)
    if kind == "full_input":
        return gb.inp(layout_shape)
    if kind == "bias":
        return gb.const(np.arange(layout_shape[-1], dtype=np.float32) - 1)
    raise ValueError(kind)


def gen_transpose_chain(rng: Rng) -> tuple[GB, dict]:
    """T1 -> k elementwise ops -> T2 with perturbations."""
    rank = rng.choice([3, 4])
    shape = _dims(rng, rank)
    sym = rng.chance(0.15)
    in_shape: list[Any] = list(shape)
    if sym:
        in_shape[0] = "B"
    gb = GB()
    x = gb.inp(in_shape)
    p1 = rng.choice(PERMS3 if rank == 3 else PERMS4)
    inv = rng.chance(0.8)
    p2 = inv_perm(p1) if inv else rng.choice([p for p in (PERMS3 if rank == 3 else PERMS4) if p != inv_perm(p1)])
    k = rng.choice([0, 1, 1, 2, 2, 3, 5, 9])
    desc: dict[str, Any] = {"family": "transpose_chain", "rank": rank, "p1": p1, "p2": p2, "inverse": inv,
                            "chain": [], "sym": sym, "guards": []}
    t1 = gb.node("Transpose", [x], perm=p1)
    cur = t1
    lay = perm_shape(shape, p1)
    mids = [t1]
    for _ in range(k):
        c = rng.randint(0, 99)
        if c < 55:
            r0 = rng.randint(0, 99)
            if r0 < 55:
                op = rng.choice(CHAIN_ONLY)
            elif r0 < 70:
                op = rng.choice(UNARY)
            elif r0 < 88:
                pool = code_unary_ops()
                op = rng.choice(pool) if pool else "Relu"
            else:
                op = rng.choice(sorted(AXIS_SENSITIVE))
            if op in AXIS_SENSITIVE:
                desc["guards"].append("axis_sensitive_op")
            dom = ""
            if rng.chance(0.04):
                dom = "custom.verif"
                desc["guards"].append("custom_domain")
            attrs = dict(KNOWN_UNARY_ATTRS.get(op, {}))
            cur = gb.node(op, [cur], domain=dom, **attrs)
            desc["chain"].append(op)
        elif c < 62:
            to = rng.choice([TensorProto.FLOAT16, TensorProto.DOUBLE])
            cur = gb.node("Cast", [cur], to=to)
            cur = gb.node("Cast", [cur], to=F32)
            desc["chain"].append(f"Cast{to}")
        elif c < 68:
            # CastLike: the chain value as data operand, or (dangerous) only as the dtype operand
            if rng.chance(0.6):
                like = gb.const(np.asarray(1.0, dtype=np.float32)) if rng.chance(0.5) else gb.inp(lay)
                cur = gb.node("CastLike", [cur, like])
                desc["chain"].append("CastLike:data")
            else:
                other = gb.inp(lay)
                cur = gb.node("CastLike", [other, cur])
                desc["chain"].append("CastLike:dtype_operand")
                desc["guards"].append("chain_only_dtype_operand")
        elif c < 73:
            lo = gb.const(np.asarray(-1.5, dtype=np.float32))
            if rng.chance(0.7):
                hi = gb.const(np.asarray(2.5, dtype=np.float32))
            else:
                hi = side_operand(gb, rng, "full_const", lay)
                desc["guards"].append("nonscalar_side_operand")
            cur = gb.node("Clip", [cur, lo, hi])
            desc["chain"].append("Clip")
        else:
            op = rng.choice(["Add", "Mul", "Max", "Min", "Sub"])
            kind = rng.choice(["scalar", "scalar", "scalar1d", "full_const", "full_input", "bias"])
            other = side_operand(gb, rng, kind, lay)
            first = rng.chance(0.8)
            cur = gb.node(op, [cur, other] if first else [other, cur])
            desc["chain"].append(f"{op}:{kind}")
            if kind not in ("scalar", "scalar1d"):
                desc["guards"].append("nonscalar_side_operand")
        mids.append(cur)
    t2 = gb.node("Transpose", [cur], perm=p2)
    post = gb.node(rng.choice(["Relu", "Neg", "Identity"]), [t2]) if rng.chance(0.5) else t2
    gb.out(post)
    # perturb observers
    r = rng.randint(0, 99)
    if r < 14 and len(mids) > 0:
        m = rng.choice(mids)
        gb.out(m)
        desc["guards"].append("intermediate_is_output")
    elif r < 26 and len(mids) > 0:
        m = rng.choice(mids)
        extra = gb.node("Exp", [m])
        gb.out(extra)
        desc["guards"].append("intermediate_extra_consumer")
    elif r < 32:
        t3 = gb.node("Transpose", [cur], perm=p2)
        gb.out(gb.node("Neg", [t3]))
        desc["guards"].append("second_inverse_transpose")
    elif r < 38 and len(mids) > 0:
        m = rng.choice(mids)
        # capture `m` inside an If body
        cond = gb.const(np.asarray(True))
        then_g = helper.make_graph([helper.make_node("Neg", [m], ["then_out"])], "then", [],
                                   [helper.make_empty_tensor_value_info("then_out")])
        else_g = helper.make_graph([helper.make_node("Abs", [m], ["else_out"])], "else", [],
                                   [helper.make_empty_tensor_value_info("else_out")])
        if rng.chance(0.5):
            # capture only at nesting depth 2: If inside an If branch
            inner = helper.make_node("If", [cond], ["inner_out"], then_branch=then_g, else_branch=else_g)
            outer_then = helper.make_graph([inner], "outer_then", [],
                                           [helper.make_empty_tensor_value_info("inner_out")])
            outer_else = helper.make_graph([helper.make_node("Identity", [x], ["oe_out"])] if False else
                                           [helper.make_node("Constant", [], ["oe_out"],
                                                             value=numpy_helper.from_array(
                                                                 np.zeros((1,), dtype=np.float32)))],
                                           "outer_else", [], [helper.make_empty_tensor_value_info("oe_out")])
            o = gb.node("If", [cond], then_branch=outer_then, else_branch=outer_else)
            desc["guards"].append("intermediate_captured_depth2")
        else:
            o = gb.node("If", [cond], then_branch=then_g, else_branch=else_g)
            desc["guards"].append("intermediate_captured_by_body")
        gb.out(o)
    return gb, desc


def gen_add_forest(rng: Rng) -> tuple[GB, dict]:
    rank = 4 if rng.chance(0.7) else 3
    shape = _dims(rng, rank)
    p = rng.choice(PERMS4 if rank == 4 else PERMS3)
    gb = GB()
    n_in = rng.choice([2, 2, 3, 4])
    desc: dict[str, Any] = {"family": "add_forest", "rank": rank, "p": p, "guards": [], "n_in": n_in}
    leaves = []
    for j in range(n_in):
        x = gb.inp(shape)
        if rng.chance(0.12):
            # an untransposed operand already in the transposed layout
            y = gb.inp(perm_shape(shape, p))
            leaves.append(y)
            desc["guards"].append("untransposed_operand")
        else:
            pj = p
            if rng.chance(0.08):
                alt = [q for q in (PERMS4 if rank == 4 else PERMS3) if q != p and sorted(q) == sorted(p)]
                pj = rng.choice(alt)
                desc["guards"].append("different_perm")
            leaves.append(gb.node("Transpose", [x], perm=pj) if pj == p or True else x)
            if pj != p:
                # shapes would mismatch; make dims equal so that the graph stays valid
                pass
    # different perms need equal extents to stay valid
    if "different_perm" in desc["guards"]:
        return gen_add_forest_equal_dims(rng)
    adds = []
    cur = gb.node("Add", [leaves[0], leaves[1]])
    adds.append(cur)
    for l in leaves[2:]:
        cur = gb.node("Add", [cur, l] if rng.chance(0.7) else [l, cur])
        adds.append(cur)
    q = inv_perm(p) if rng.chance(0.85) else p
    if q != inv_perm(p):
        desc["guards"].append("non_inverse_out")
    # outputs: one or several inverse transposes, on the last and possibly on an inner Add
    gb.out(gb.node("Transpose", [cur], perm=q))
    r = rng.randint(0, 99)
    if r < 15 and len(adds) > 1:
        gb.out(gb.node("Transpose", [adds[0]], perm=q))
        desc["guards"].append("inner_add_transposed_out")
    elif r < 30:
        gb.out(rng.choice(adds))
        desc["guards"].append("add_output_is_graph_output")
    elif r < 42:
        gb.out(gb.node("Relu", [rng.choice(adds)]))
        desc["guards"].append("add_extra_consumer")
    elif r < 50:
        gb.out(leaves[0])
        desc["guards"].append("input_transpose_is_output")
    return gb, desc


def gen_add_forest_equal_dims(rng: Rng) -> tuple[GB, dict]:
    d = rng.choice([2, 3])
    shape = [d, d, d]
    gb = GB()
    a, b = gb.inp(shape), gb.inp(shape)
    ta = gb.node("Transpose", [a], perm=[0, 2, 1])
    tb = gb.node("Transpose", [b], perm=[1, 0, 2])
    s = gb.node("Add", [ta, tb])
    gb.out(gb.node("Transpose", [s], perm=[0, 2, 1]))
    return gb, {"family": "add_forest", "guards": ["different_perm"], "rank": 3}


def gen_elem_dag(rng: Rng) -> tuple[GB, dict]:
    """scale * T(x) + T(res) style DAG below one inverse transpose."""
    rank = 4
    shape = _dims(rng, rank)
    p = rng.choice(PERMS4)
    gb = GB()
    x, r = gb.inp(shape), gb.inp(shape)
    tx, tr = gb.node("Transpose", [x], perm=p), gb.node("Transpose", [r], perm=p)
    desc: dict[str, Any] = {"family": "elem_dag", "p": p, "guards": []}
    lay = perm_shape(shape, p)
    kind = rng.choice(["scalar", "scalar", "full_const", "bias", "full_input"])
    if kind not in ("scalar",):
        desc["guards"].append("nonscalar_side_operand:" + kind)
    s = side_operand(gb, rng, kind, lay)
    m = gb.node("Mul", [tx, s])
    a = gb.node(rng.choice(["Add", "Sub", "Max"]), [m, tr])
    if rng.chance(0.5):
        a2 = gb.node(rng.choice(["Relu", "Tanh", "Abs"]), [a])
    else:
        a2 = a
    q = inv_perm(p) if rng.chance(0.85) else p
    if q != inv_perm(p):
        desc["guards"].append("non_inverse_out")
    gb.out(gb.node("Transpose", [a2], perm=q))
    c = rng.randint(0, 99)
    if c < 15:
        gb.out(a)
        desc["guards"].append("intermediate_is_output")
    elif c < 28:
        gb.out(gb.node("Neg", [m]))
        desc["guards"].append("intermediate_extra_consumer")
    elif c < 36:
        gb.out(tx)
        desc["guards"].append("input_transpose_is_output")
    return gb, desc


def gen_reduce(rng: Rng) -> tuple[GB, dict]:
    rank = rng.choice([3, 4])
    shape = _dims(rng, rank)
    p = rng.choice(PERMS3 if rank == 3 else PERMS4)
    gb = GB(opset=rng.choice([17, 18, 23]))
    x = gb.inp(shape)
    t1 = gb.node("Transpose", [x], perm=p)
    naxes = rng.randint(1, 2)
    axes = rng.sample(list(range(rank)), naxes)
    if rng.chance(0.3):
        axes = [a - rank for a in axes]
    keep = 1 if rng.chance(0.8) else 0
    desc: dict[str, Any] = {"family": "reduce", "p": p, "axes": axes, "keepdims": keep, "opset": gb.opset,
                            "guards": []}
    if keep == 0:
        desc["guards"].append("keepdims0")
    if gb.opset >= 18:
        r = gb.node("ReduceMean", [t1, gb.const(np.asarray(axes, dtype=np.int64))], keepdims=keep)
    else:
        r = gb.node("ReduceMean", [t1], axes=axes, keepdims=keep)
    q = inv_perm(p) if rng.chance(0.85) else p
    if q != inv_perm(p):
        desc["guards"].append("non_inverse_out")
    if keep == 0:
        gb.out(r)
        return gb, desc
    gb.out(gb.node("Transpose", [r], perm=q))
    c = rng.randint(0, 99)
    if c < 15:
        gb.out(r)
        desc["guards"].append("reducer_is_output")
    elif c < 30:
        gb.out(gb.node("Neg", [r]))
        desc["guards"].append("reducer_extra_consumer")
    elif c < 40:
        gb.out(gb.node("Abs", [t1]))
        desc["guards"].append("t1_extra_consumer")
    return gb, desc


def _gen_reshape_foreign(rng: Rng) -> tuple[GB, dict]:
    """flatten → chain → Reshape to the run-time shape of ANOTHER input: (B, X) and (B, Y) agree on
    the symbol B and are 'one extent apart', but with an empty batch X and Y need not be equal."""
    gb = GB()
    lead = rng.choice(["B", "B", 3, 0])
    x = gb.inp([lead, "X"])
    y = gb.inp([lead, "Y"])
    desc: dict[str, Any] = {"family": "reshape_pair", "sym": "foreign", "lead": lead, "guards": ["target_from_other_input"],
                            "chain": []}
    cur = gb.node("Reshape", [x, gb.const(np.asarray([-1], dtype=np.int64))])
    for _ in range(rng.choice([0, 1, 2])):
        op = rng.choice(["Relu", "Tanh", "Neg", "Abs"])
        cur = gb.node(op, [cur])
        desc["chain"].append(op)
    gb.out(gb.node("Reshape", [cur, gb.node("Shape", [y])]))
    return gb, desc


def gen_reshape(rng: Rng) -> tuple[GB, dict]:
    a, b, c = rng.sample([2, 3, 4, 5, 6], 3)
    gb = GB()
    sym = rng.choice(["none", "none", "one", "two_same", "two_diff", "foreign"])
    if sym == "foreign":
        return _gen_reshape_foreign(rng)
    if sym == "none":
        in_shape: list[Any] = [a, b, c]
    elif sym == "one":
        in_shape = ["B", b, c]
    elif sym == "two_same":
        in_shape = ["B", "B", c]
    else:
        in_shape = ["A", "B", c]
    x = gb.inp(in_shape)
    desc: dict[str, Any] = {"family": "reshape_pair", "sym": sym, "guards": [], "chain": []}
    mid_target = [0, -1] if sym != "none" else [a, b * c]
    if sym in ("two_same", "two_diff"):
        mid_target = [-1, c]
    r1 = gb.node("Reshape", [x, gb.const(np.asarray(mid_target, dtype=np.int64))])
    cur = r1
    mids = [r1]
    for _ in range(rng.choice([0, 1, 1, 2, 3])):
        ch = rng.randint(0, 99)
        if ch < 70:
            op = rng.choice(["Relu", "Tanh", "Sigmoid", "Identity", "Elu"])
            cur = gb.node(op, [cur])
            desc["chain"].append(op)
        else:
            op = rng.choice(["Max", "Min"])
            kind = rng.choice(["scalar", "full_input_mid"])
            if kind == "scalar":
                other = gb.const(np.asarray(0.5, dtype=np.float32))
            else:
                if sym == "none":
                    other = gb.inp([a, b * c])
                else:
                    other = gb.const(np.asarray(0.25, dtype=np.float32))
                    kind = "scalar"
            if kind != "scalar":
                desc["guards"].append("nonscalar_side_operand")
            cur = gb.node(op, [cur, other])
            desc["chain"].append(f"{op}:{kind}")
        mids.append(cur)
    # second reshape: back to the source shape, or to something else of equal size
    back = rng.chance(0.75)
    if sym == "none":
        tgt = [a, b, c] if back else [b, a, c]
        if rng.chance(0.2):
            # allowzero=0: a zero entry copies the extent of the OPERAND (a, b*c), not of the source
            tgt = [0, b, c] if back else [0, -1]
            desc["guards"].append("zero_copy_target")
        shp = gb.const(np.asarray(tgt, dtype=np.int64))
    elif sym == "one":
        tgt = [-1, b, c] if back else [-1, c, b]
        shp = gb.const(np.asarray(tgt, dtype=np.int64))
    else:
        # dynamic target built from Shape(x): [dim0, dim1, c] or swapped
        shape_x = gb.node("Shape", [x])
        if back:
            shp = shape_x
        else:
            idx = gb.const(np.asarray([1, 0, 2], dtype=np.int64))
            shp = gb.node("Gather", [shape_x, idx], axis=0)
    if not back:
        desc["guards"].append("different_target")
    r2 = gb.node("Reshape", [cur, shp])
    gb.out(gb.node("Neg", [r2]) if rng.chance(0.4) else r2)
    c2 = rng.randint(0, 99)
    if c2 < 14:
        gb.out(rng.choice(mids))
        desc["guards"].append("intermediate_is_output")
    elif c2 < 26:
        gb.out(gb.node("Exp", [rng.choice(mids)]))
        desc["guards"].append("intermediate_extra_consumer")
    return gb, desc


def gen_reshape_empty(rng: Rng) -> tuple[GB, dict]:
    """Reshape pairs on empty tensors: a concrete 0 extent next to one uncomparable extent."""
    gb = GB()
    n_real = rng.choice([3, 5])
    tgt_n = rng.choice([3, 5])
    x = gb.inp([0, "N"])
    flat = gb.node("Reshape", [x, gb.const(np.asarray([-1], dtype=np.int64))])
    cur = gb.node(rng.choice(["Relu", "Tanh", "Identity"]), [flat]) if rng.chance(0.7) else flat
    back = gb.node("Reshape", [cur, gb.const(np.asarray([0, tgt_n], dtype=np.int64))], allowzero=1)
    gb.out(gb.node("Neg", [back]) if rng.chance(0.5) else back)
    return gb, {"family": "reshape_empty", "guards": ["zero_extent"], "tgt_n": tgt_n}


def gen_identity_reshape(rng: Rng) -> tuple[GB, dict]:
    a, b = rng.sample([2, 3, 4, 5], 2)
    gb = GB()
    x = gb.inp([a, b])
    same = rng.chance(0.7)
    tgt = [a, b] if same else [b, a]
    r = gb.node("Reshape", [gb.node("Relu", [x]), gb.const(np.asarray(tgt, dtype=np.int64))])
    gb.out(gb.node("Tanh", [r]))
    return gb, {"family": "identity_reshape", "same": same, "guards": [] if same else ["different_target"]}


CAST_TYPES = [TensorProto.FLOAT, TensorProto.DOUBLE, TensorProto.FLOAT16, TensorProto.INT32, TensorProto.INT64,
              TensorProto.INT8, TensorProto.UINT8, TensorProto.BOOL, TensorProto.INT16, TensorProto.BFLOAT16]


def gen_casts(rng: Rng) -> tuple[GB, dict]:
    s = rng.choice(CAST_TYPES)
    m = rng.choice(CAST_TYPES)
    gb = GB()
    x = gb.inp([3, 4], dtype=s)
    c1 = gb.node("Cast", [x], to=m)
    desc: dict[str, Any] = {"family": "casts", "s": s, "m": m, "guards": []}
    cur = c1
    if rng.chance(0.3):
        cur = gb.node("Transpose", [cur], perm=[1, 0])
        desc["guards"].append("transpose_between")
    c2 = gb.node("Cast", [cur], to=s)
    gb.out(c2)
    r = rng.randint(0, 99)
    if r < 20:
        gb.out(c1)
        desc["guards"].append("intermediate_is_output")
    elif r < 35:
        gb.out(gb.node("Identity", [c1]))
        desc["guards"].append("intermediate_extra_consumer")
    return gb, desc


NARROW = {TensorProto.INT8: (-128, 127), TensorProto.UINT8: (0, 255), TensorProto.INT16: (-32768, 32767),
          TensorProto.INT32: (-2**31, 2**31 - 1)}


def gen_range_casts(rng: Rng) -> tuple[GB, dict]:
    """Range(start, limit, delta) with constant operands → shape-only ops → Cast(narrow) → Cast(back): the
    cast pass drops the narrowing round trip only when the statically proven value range fits. Triples
    are drawn around the edge of the narrow type: last element exactly at, one step before and one step
    past the bound; non-unit and negative steps; spans that are / are not multiples of the step; empty."""
    wide = rng.choice([TensorProto.INT64, TensorProto.INT64, TensorProto.INT32])
    narrow = rng.choice([t for t in NARROW if t != wide and not (wide == TensorProto.INT32 and t == TensorProto.INT32)])
    lo, hi = NARROW[narrow]
    np_w = np.int64 if wide == TensorProto.INT64 else np.int32
    delta = rng.choice([1, 1, 2, 3, 5, 7, 9, -1, -2, -3, -7])
    count = rng.choice([0, 1, 2, 3, 5, 8])
    edge = hi if delta > 0 else lo
    # last element = edge + off*|delta|-ish: off 0 → exactly fits, >0 → overflows, <0 → inside
    off = rng.choice([-2, -1, 0, 0, 1, 1, 2])
    last = edge + off * (1 if rng.chance(0.5) else abs(delta))
    start = last - (max(count, 1) - 1) * delta
    # exclusive limit: somewhere in (last, last + delta] resp. [last + delta, last)
    extra = rng.randint(1, abs(delta))
    limit = last + (extra if delta > 0 else -extra)
    if count == 0:
        limit = start - (1 if delta > 0 else -1) * rng.choice([0, 1, 3])
    i32 = (-2**31, 2**31 - 1)
    if wide == TensorProto.INT32 and not all(i32[0] <= v <= i32[1] for v in (start, limit, delta)):
        wide, np_w = TensorProto.INT64, np.int64
    gb = GB()
    r = gb.node("Range", [gb.const(np.asarray(start, dtype=np_w)), gb.const(np.asarray(limit, dtype=np_w)),
                          gb.const(np.asarray(delta, dtype=np_w))])
    desc: dict[str, Any] = {"family": "range_casts", "start": start, "limit": limit, "delta": delta, "wide": wide,
                            "narrow": narrow, "guards": [], "via": []}
    cur = r
    for _ in range(rng.choice([0, 0, 1, 2])):
        op = rng.choice(["Identity", "Unsqueeze", "Reshape", "Transpose", "Flatten"])
        if op == "Unsqueeze":
            cur = gb.node("Unsqueeze", [cur, gb.const(np.asarray([0], dtype=np.int64))])
            cur = gb.node("Squeeze", [cur, gb.const(np.asarray([0], dtype=np.int64))])
        elif op == "Reshape":
            cur = gb.node("Reshape", [cur, gb.const(np.asarray([-1], dtype=np.int64))])
        elif op == "Transpose":
            cur = gb.node("Transpose", [cur], perm=[0])
        elif op == "Flatten":
            cur = gb.node("Flatten", [cur], axis=0)
            cur = gb.node("Reshape", [cur, gb.const(np.asarray([-1], dtype=np.int64))])
        else:
            cur = gb.node("Identity", [cur])
        desc["via"].append(op)
    c1 = gb.node("Cast", [cur], to=narrow)
    c2 = gb.node("Cast", [c1], to=wide)
    gb.out(c2)
    true_last_fits = count == 0 or (lo <= min(start, last) and max(start, last) <= hi)
    desc["guards"].append("values_fit" if true_last_fits else "values_overflow_narrow_type")
    if rng.chance(0.15):
        gb.out(c1)
        desc["guards"].append("intermediate_is_output")
    return gb, desc


def gen_swish(rng: Rng) -> tuple[GB, dict]:
    gb = GB(opset=rng.choice([23, 24, 24]))
    x = gb.inp([2, 3])
    src = gb.node("Relu", [x]) if rng.chance(0.5) else x
    sg = gb.node("Sigmoid", [src])
    other = src if rng.chance(0.8) else gb.inp([2, 3])
    m = gb.node("Mul", [other, sg] if rng.chance(0.5) else [sg, other])
    gb.out(m)
    desc: dict[str, Any] = {"family": "swish", "opset": gb.opset, "guards": []}
    if other is not src:
        desc["guards"].append("different_mul_operand")
    if rng.chance(0.25):
        gb.out(sg)
        desc["guards"].append("intermediate_is_output")
    return gb, desc


def gen_dropout(rng: Rng) -> tuple[GB, dict]:
    gb = GB()
    x = gb.inp([2, 3])
    ratio = gb.const(np.asarray(0.5, dtype=np.float32))
    tm_true = gb.const(np.asarray(True))
    n = gb.node("Not", [tm_true])
    d = gb.node("Dropout", [x, ratio, n], nout=2)
    gb.out(d[0])
    desc: dict[str, Any] = {"family": "dropout", "guards": []}
    if rng.chance(0.3):
        gb.out(n)
        desc["guards"].append("not_output_is_graph_output")
    return gb, desc


def _if_reading(gb: GB, names: list[str], tag: str, cond: Optional[str] = None) -> str:
    """An If node whose two bodies read the outer values `names` (Identity / Add); returns its output."""
    cond = cond or gb.const(np.asarray(True), name=gb.fresh("cond"))

    def body(suffix: str):
        ns = []
        cur = names[0]
        for k, other in enumerate(names[1:]):
            o = f"{tag}_{suffix}_a{k}"
            ns.append(helper.make_node("Add", [cur, other], [o]))
            cur = o
        o = f"{tag}_{suffix}_o"
        ns.append(helper.make_node("Identity", [cur], [o]))
        return helper.make_graph(ns, f"{tag}_{suffix}", [], [helper.make_empty_tensor_value_info(o)])

    return gb.node("If", [cond], then_branch=body("t"), else_branch=body("e"))


CSE_VARIANTS = [
    ("LeakyRelu", {"alpha": 0.1}, {"alpha": 0.3}), ("Elu", {"alpha": 1.0}, {"alpha": 0.5}),
    ("Softmax", {"axis": 0}, {"axis": 1}), ("LogSoftmax", {"axis": -1}, {"axis": 0}),
    ("Transpose", {"perm": [1, 0]}, {"perm": [0, 1]}), ("Cast", {"to": TensorProto.DOUBLE}, {"to": TensorProto.FLOAT16}),
    ("ReduceSum", {"keepdims": 1}, {"keepdims": 0}), ("CumSum", {"reverse": 0}, {"reverse": 1}),
    ("Selu", {}, {"gamma": 1.5}), ("HardSigmoid", {"alpha": 0.2}, {"alpha": 0.4}),
]


def gen_misc(rng: Rng) -> tuple[GB, dict]:
    """Passes that delete or merge nodes without a layout pattern: CSE (what is 'the same node'),
    dead-node removal, unused-input pruning, constant lifting — with nested-graph uses."""
    kind = rng.choice(["cse_attr", "cse_attr", "cse_random", "dead_unused", "dead_unused", "const_lift", "multi_out"])
    gb = GB()
    desc: dict[str, Any] = {"family": "misc_" + kind, "guards": []}
    if kind == "cse_attr":
        op, a1, a2 = rng.choice(CSE_VARIANTS)
        same = rng.chance(0.4)
        x = gb.inp([3, 3])
        src = gb.node("Tanh", [x]) if rng.chance(0.5) else x
        extra_in = []
        if op == "ReduceSum":
            extra_in = [gb.const(np.asarray([1], dtype=np.int64))]
        if op == "CumSum":
            extra_in = [gb.const(np.asarray(1, dtype=np.int64))]
        n1 = gb.node(op, [src] + extra_in, **a1)
        n2 = gb.node(op, [src] + extra_in, **(a1 if same else a2))
        desc["op"] = op
        desc["guards"].append("identical_duplicates" if same else "attributes_differ")
        gb.out(n1)
        gb.out(n2)
        if rng.chance(0.4):
            gb.out(_if_reading(gb, [n2], gb.fresh("cse")))
            desc["guards"].append("duplicate_captured")
    elif kind == "cse_random":
        gb.opset = 21          # onnxruntime has no kernel for the opset-22 Random*Like
        x = gb.inp([4, 5])
        mode = rng.choice(["unseeded", "same_seed", "different_seed"])
        at1 = {} if mode == "unseeded" else {"seed": 7.0}
        at2 = {} if mode == "unseeded" else ({"seed": 7.0} if mode == "same_seed" else {"seed": 8.0})
        op = rng.choice(["RandomUniformLike", "RandomNormalLike"])
        r1 = gb.node(op, [x], **at1)
        r2 = gb.node(op, [x], **at2)
        d = gb.node("Abs", [gb.node("Sub", [r1, r2])])
        mx = gb.node("ReduceMax", [d], keepdims=0)
        gb.out(gb.node("Greater", [mx, gb.const(np.asarray(0.0, dtype=np.float32))]))
        desc["guards"].append("random_" + mode)
        desc["op"] = op
    elif kind == "dead_unused":
        x = gb.inp([2, 3])
        extra = gb.inp([2, 3], name="extra_in")          # not read at all: may be pruned
        pos = gb.inp([2, 3]) if rng.chance(0.5) else None  # in_<k>: positional, must be kept
        y = gb.inp([2, 3], name="only_in_body")           # read only inside an If body
        dead = gb.node("Neg", [gb.node("Relu", [x])])     # dead chain
        semi = gb.node("Exp", [x])                        # read only inside a body
        nested = _if_reading(gb, [semi, y] if rng.chance(0.7) else [y], gb.fresh("du"))
        gb.out(gb.node("Add", [x, nested]))
        if rng.chance(0.3):
            t = gb.node("Transpose", [x], perm=[1, 0])    # orphan transpose read only in a body
            gb.out(_if_reading(gb, [t], gb.fresh("du")))
            desc["guards"].append("transpose_only_in_body")
        desc["guards"] += ["unused_input", "input_only_in_body", "dead_chain", "value_only_in_body"]
        _ = (extra, pos, dead)
    elif kind == "const_lift":
        x = gb.inp([2, 3])
        how = rng.choice(["value", "value_float", "value_ints", "empty", "in_body"])
        desc["guards"].append("constant_" + how)
        if how == "value":
            c = gb.node("Constant", [], value=numpy_helper.from_array(np.arange(6, dtype=np.float32).reshape(2, 3) - 2))
            gb.out(gb.node("Add", [x, c]))
        elif how == "value_float":
            c = gb.node("Constant", [], value_float=1.5)
            gb.out(gb.node("Mul", [x, c]))
        elif how == "value_ints":
            c = gb.node("Constant", [], value_ints=[3, 2])
            gb.out(gb.node("Reshape", [x, c]))
        elif how == "empty":
            c = gb.node("Constant", [], value=numpy_helper.from_array(np.zeros((0, 3), dtype=np.float32)))
            gb.out(gb.node("Concat", [x, c], axis=0))
        else:
            c = gb.node("Constant", [], value=numpy_helper.from_array(np.asarray([[1.0, 2.0, 3.0]], dtype=np.float32)))
            gb.out(gb.node("Mul", [x, _if_reading(gb, [c, x], gb.fresh("cl"))]))
        if rng.chance(0.3):
            gb.out(c)
            desc["guards"].append("constant_is_output")
    else:  # multi_out: operators with several outputs between foldable layout pairs
        x = gb.inp([4, 6])
        t1 = gb.node("Transpose", [x], perm=[1, 0])
        if rng.chance(0.5):
            a, b = gb.node("Split", [t1], nout=2, axis=0, num_outputs=2)
            desc["op"] = "Split"
        else:
            a, b = gb.node("TopK", [t1, gb.const(np.asarray([2], dtype=np.int64))], nout=2, axis=0)
            b = gb.node("Cast", [b], to=TensorProto.FLOAT)
            desc["op"] = "TopK"
        gb.out(gb.node("Transpose", [gb.node("Relu", [a])], perm=[1, 0]))
        gb.out(gb.node("Transpose", [b], perm=[1, 0]))
        if rng.chance(0.4):
            gb.out(gb.node("Transpose", [gb.node("Transpose", [a], perm=[1, 0]), ], perm=[1, 0]))
            desc["guards"].append("pair_after_multi_output")
    return gb, desc


FAMILIES = [
    (gen_transpose_chain, 34), (gen_add_forest, 14), (gen_elem_dag, 12), (gen_reduce, 10),
    (gen_reshape, 14), (gen_identity_reshape, 3), (gen_casts, 8), (gen_swish, 3), (gen_dropout, 2),
    (gen_reshape_empty, 3), (gen_misc, 12), (gen_range_casts, 7),
]


def capture_in_body(gb: GB, rng: Rng, desc: dict) -> None:
    """Generic perturbation for EVERY family: some intermediate value is read only inside an If body
    (depth 1 or 2), by both branches, only by `then_branch` or only by `else_branch` (the predicate
    selects a reading branch). A rewrite that removes or re-lays-out that value must notice the capture
    in EVERY graph-valued attribute."""
    produced = [o for n in gb.nodes for o in n.output if o and o not in gb.outputs]
    if not produced:
        return
    m = rng.choice(produced)
    which = rng.choice(["both", "both", "then_only", "else_only"])
    # the non-reading branch must return a tensor of the same rank (ONNX merges the branch types): take the
    # rank from shape inference on the graph built so far; unknown rank → both branches read
    rank = None
    try:
        for vi in gb.model().graph.value_info:
            if vi.name == m and vi.type.tensor_type.HasField("shape"):
                rank = len(vi.type.tensor_type.shape.dim)
    except Exception:  # noqa: BLE001
        rank = None
    if rank is None:
        which = "both"
    cond = gb.const(np.asarray(which != "else_only"), name=gb.fresh("capcond"))

    def reading(name):
        return helper.make_graph([helper.make_node("Cast", [m], [name], to=TensorProto.FLOAT)], name + "_g", [],
                                 [helper.make_empty_tensor_value_info(name)])

    def silent(name):
        c = helper.make_tensor(name + "_c", TensorProto.FLOAT, [1] * (rank or 0), [0.25])
        return helper.make_graph([helper.make_node("Constant", [], [name], value=c)], name + "_g", [],
                                 [helper.make_empty_tensor_value_info(name)])

    def leafs(tag):
        t = (reading if which in ("both", "then_only") else silent)(f"{tag}_t")
        e = (reading if which in ("both", "else_only") else silent)(f"{tag}_e")
        return t, e

    depth = 2 if rng.chance(0.4) else 1
    tag = gb.fresh("cap")
    t, e = leafs(tag + "a")
    if depth == 2:
        t2, e2 = leafs(tag + "b")
        inner1 = helper.make_node("If", [cond], [f"{tag}_i1"], then_branch=t, else_branch=e)
        inner2 = helper.make_node("If", [cond], [f"{tag}_i2"], then_branch=t2, else_branch=e2)
        t = helper.make_graph([inner1], f"{tag}_ot", [], [helper.make_empty_tensor_value_info(f"{tag}_i1")])
        e = helper.make_graph([inner2], f"{tag}_oe", [], [helper.make_empty_tensor_value_info(f"{tag}_i2")])
    gb.out(gb.node("If", [cond], then_branch=t, else_branch=e))
    desc.setdefault("guards", []).append(f"generic_capture_depth{depth}")
    if which != "both":
        desc["guards"].append(f"capture_{which}")


def generate(rng: Rng):
    total = sum(w for _, w in FAMILIES)
    r = rng.randint(0, total - 1)
    for f, w in FAMILIES:
        if r < w:
            gb, desc = f(rng)
            if rng.chance(0.12):
                capture_in_body(gb, rng, desc)
            return gb.model(), desc
        r -= w
    raise AssertionError


def make_feeds(model: onnx.ModelProto, rng: Rng, binding: Optional[dict] = None) -> dict[str, np.ndarray]:
    binding = dict(binding or {})
    feeds = {}
    pool = [2, 3, 5, 7]
    for i in model.graph.input:
        tt = i.type.tensor_type
        shape = []
        for d in tt.shape.dim:
            if d.HasField("dim_value"):
                shape.append(int(d.dim_value))
            else:
                s = d.dim_param or f"?{len(binding)}"
                if s not in binding:
                    binding[s] = pool[len(binding) % len(pool)]
                shape.append(binding[s])
        n = int(np.prod(shape)) if shape else 1
        dt = helper.tensor_dtype_to_np_dtype(tt.elem_type)
        if tt.elem_type == TensorProto.BOOL:
            arr = (np.arange(n) % 2 == 0).reshape(shape)
        elif np.issubdtype(dt, np.integer):
            arr = ((np.arange(n) * 7 + rng.randint(0, 5)) % 23 - (5 if np.issubdtype(dt, np.signedinteger) else 0)
                   ).astype(dt).reshape(shape)
        else:
            base = (np.arange(n, dtype=np.float64) * 0.37 + rng.randint(0, 9) * 0.11) - n * 0.17
            arr = base.reshape(shape).astype(dt)
        feeds[i.name] = arr
    return feeds
