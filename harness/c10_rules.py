"""C10 round 2 — ties of the new Lean models to the live code (used by harness/props/c10.py).

* validate_fn_rule      real `FunctionPlugin` batching rule (a stub @onnx_function wrapping a non-pointwise function,
                        patched through the public patch path and run under jax.vmap with every in_axes placement)
                        vs `fnBatchRule` (drivers/C10.lean `fnb`)
* validate_ad_pipeline  real `register_original_rule_forwarding` + `backfill_missing_transpose_rules` on stub
                        primitives with sentinel rule objects vs `adPipeline` (driver op `adp`): the registries after
* validate_redlane      lane b of what the real reduction batch rule returns (stub primitive reducing with jnp.sum) vs
                        the tensor-model expression of `reduction_batch_rule_lanewise(_drop)` (driver op `redlane`)
* add_domain_table      live operand-shape domains of lax.add's JVP rule and of the plugin `jax.numpy.add` (→ Gen)
* batcher_lane_oracle   does the REAL broadcast batcher's result satisfy vmap semantics on this input?  (turns a
                        model/code disagreement into a concrete failing input of the real code)
* substitute primitives with their own batching rule: catalogue (name → callable + operands valid in eager JAX) and
  their execution under vmap against eager JAX
"""
from __future__ import annotations

import itertools
from typing import Any, Callable, Optional

import numpy as np

import common


def _enc(shape: tuple, off: int) -> np.ndarray:
    a = np.zeros(shape, dtype=np.int32)
    for idx in itertools.product(*[range(d) for d in shape]):
        v = off
        for i in idx:
            v = 4 * v + i
        a[idx] = v
    return a


def _shape_str(s) -> str:
    return "s" if len(s) == 0 else "x".join(str(int(d)) for d in s)


def _fancy_batchers():
    from jax._src.interpreters import batching as jb
    return jb.fancy_primitive_batchers


def _call_batcher(prim, args, dims, **params):
    """Call the batching rule JAX would call for `prim` (fancy registry: (axis_data, args, dims, **params))."""
    from jax._src.interpreters import batching as jb
    fb = jb.fancy_primitive_batchers
    if prim in fb:
        return fb[prim](None, tuple(args), tuple(dims), **params)
    raise KeyError(f"no batching rule registered for {prim}")


# ----------------------------------------------------------------------------- FunctionPlugin._batching_rule


def _fn_py(*xs):
    import jax.numpy as jnp
    x0 = xs[0]
    out = jnp.flip(x0, axis=-1) if np.ndim(x0) else x0
    w = 0
    for j, x in enumerate(xs[1:]):
        w = w + (j + 2) * jnp.sum(x)
    return out + 1024 * w


def fn_rule_cases(rng: common.Rng, n: int) -> list[list[tuple]]:
    pes = [(3,), (2, 3), (3, 2), (2, 1, 3), (1,), (), (2, 2)]
    cases = []
    for _ in range(n):
        arity = rng.choice([1, 2, 2, 3])
        B = rng.choice([1, 2, 3])
        ops = []
        for i in range(arity):
            pe = rng.choice(pes)
            if rng.chance(0.65):
                k = rng.randint(0, len(pe))
                ops.append((pe[:k] + (B,) + pe[k:], k, 1 + i))
            else:
                ops.append((pe, None, 1 + i))
        cases.append(ops)
    # systematic: every placement for two rank-2 operands, incl. nothing mapped
    for k0 in (None, 0, 1, 2):
        for k1 in (None, 0, 1, 2):
            ops = []
            for i, k in enumerate((k0, k1)):
                pe = (2, 3)
                ops.append(((pe[:k] + (2,) + pe[k:]) if k is not None else pe, k, 1 + i))
            cases.append(ops)
    return cases


def validate_fn_rule(chk, rng: common.Rng, thorough: bool) -> list[dict]:
    import jax.numpy as jnp
    from jax2onnx.plugins.plugin_system import FunctionPlugin
    from jax2onnx._compat.jax import NOT_MAPPED
    import jax
    plugin = FunctionPlugin("onnx_fn::verif.c10_stub", _fn_py)
    # the public patching path: the wrapper binds the plugin's primitive; under jax.vmap JAX calls the batching
    # rule the plugin registered for it (no private attribute or method name is used here)
    patch_func = plugin.get_patch_params()[0][2]
    wrapped = patch_func(_fn_py)
    cases = fn_rule_cases(rng, 300 if thorough else 90)
    lines = []
    for ops in cases:
        parts = []
        for s, k, off in ops:
            parts += [_shape_str(s), "n" if k is None else str(k), str(off)]
        lines.append(f"fnb {len(ops)} " + " ".join(parts))
    ans = common.run_driver("C10", lines)
    bad = []
    for ops, a in zip(cases, ans):
        args = [jnp.asarray(_enc(s, off)) for s, _, off in ops]
        dims = [NOT_MAPPED if k is None else k for _, k, _ in ops]
        lane_ok = True
        try:
            if all(k is None for _, k, _ in ops):
                out, od = wrapped(*args), None
            else:
                out, od = jax.vmap(wrapped, in_axes=tuple(dims), out_axes=0)(*args), 0
            o = np.asarray(out)
            ods = "n" if od is None else str(int(od))
            real = f"{ods} {_shape_str(o.shape)} | " + " ".join(str(int(v)) for v in o.reshape(-1))
            # vmap semantics on the real result, independent of the model
            if ods != "n":
                B = o.shape[int(od)]
                for b in range(B):
                    lanes = [np.take(np.asarray(x), b, axis=k) if k is not None else np.asarray(x)
                             for x, (_, k, _) in zip(args, ops)]
                    want = np.asarray(_fn_py(*[jnp.asarray(l) for l in lanes]))
                    got = np.take(o, b, axis=int(od))
                    lane_ok = lane_ok and got.shape == want.shape and bool(np.array_equal(got, want))
        except Exception as e:  # the rule raised
            real = f"raises {type(e).__name__}"
        chk.count({"stage": "fn_batch_rule", "operands": [[list(s), k] for s, k, _ in ops], "real": real[:60]},
                  nontrivial=not real.startswith("raises"), sample_every=40)
        if a != real or not lane_ok:
            bad.append({"operands": [[list(s), k, off] for s, k, off in ops], "real": real[:300], "lean": a[:300],
                        "per_example_function": "flip(x0, -1) + 1024 * sum_j (j+2) * sum(x_{j+1})",
                        "real_result_is_lanewise_F": lane_ok})
    chk.info("fn_batch_rule_correspondence", {"cases": len(cases), "disagreements": len(bad)})
    chk.add("traces_validated_against_impl", len(cases))
    return bad


# ----------------------------------------------------------------------------- AD registries


def ad_scenarios(rng: common.Rng, n: int, live_allow: list, live_lin: list) -> list[dict]:
    origs = ["add", "reshape", "gather", "mul"]
    news = ["jax.numpy.add", "jax.numpy.reshape", "jax.numpy.take", "jax.numpy.multiply", "jax.nn.relu"]
    scen = []
    for i in range(n):
        if i % 4 == 0:      # the live policy
            allow = [tuple(p) for p in live_allow]
            lin = list(live_lin)
            o_pool = sorted({o for o, _ in allow} | {"gather", "mul"})
            n_pool = sorted({nn for _, nn in allow} | set(lin[:3]) | {"jax.numpy.multiply"})
        else:
            o_pool, n_pool = origs, news
            allow = [(o, nn) for o in o_pool for nn in n_pool if rng.chance(0.25)] or [("add", "jax.numpy.add")]
            lin = [nn for nn in n_pool if rng.chance(0.5)] or ["jax.numpy.add"]
        universe = list(o_pool) + list(n_pool)
        reqs = []
        for _ in range(rng.randint(0, 4)):
            if rng.chance(0.8) and allow:
                o, nn = rng.choice(allow)
            else:
                o, nn = rng.choice(o_pool), rng.choice(n_pool)
            reqs.append((o, nn, rng.chance(0.3), False))
        J = [p for p in universe if rng.chance(0.7)]
        T = [p for p in universe if rng.chance(0.4)]
        I = [p for p in universe if rng.chance(0.85)]
        P = [p for p in universe if rng.chance(0.7)]
        if rng.chance(0.3) and P:
            P = P + [P[0]]      # a primitive listed twice
        scen.append({"U": universe, "A": allow, "R": reqs, "J": J, "T": T, "I": I, "L": lin, "P": P})
    return scen


def _ad_line(s: dict) -> str:
    def names(xs):
        return ",".join(xs) if xs else "-"
    A = ",".join(f"{o}>{n}" for o, n in s["A"]) or "-"
    R = ",".join(f"{o}>{n}:{int(ov)}:{int(fb)}" for o, n, ov, fb in s["R"]) or "-"
    return (f"adp U={names(s['U'])} A={A} R={R} J={names(s['J'])} T={names(s['T'])} X=- I={names(s['I'])} "
            f"L={names(s['L'])} P={names(s['P'])}")


def _ad_real(s: dict) -> str:
    from jax.extend.core import Primitive
    from jax.interpreters import ad
    import jax2onnx.plugins.jax._autodiff_utils as au
    prims = {n: Primitive(n) for n in s["U"]}
    sent: dict[int, str] = {}
    try:
        for n, p in prims.items():
            if n not in s["I"]:
                p.impl = None           # no callable impl
            else:
                p.def_impl(lambda *a, **k: a[0])
            if n in s["J"]:
                r = (lambda primals, tangents, _n=n, **kw: (primals[0], tangents[0]))
                sent[id(r)] = n
                ad.primitive_jvps[p] = r
            if n in s["T"]:
                r = (lambda ct, *a, _n=n, **kw: (ct,))
                sent[id(r)] = n
                ad.primitive_transposes[p] = r
        keep = [ad.primitive_jvps.get(p) for p in prims.values()] + [ad.primitive_transposes.get(p) for p in prims.values()]
        try:
            for o, nn, ov, fb in s["R"]:
                au.register_original_rule_forwarding(orig_prim=prims[o], new_prim=prims[nn], allowlist=set(s["A"]),
                                                     override=ov, forward_batching=fb)
        except ValueError:
            return "raises"
        au.backfill_missing_transpose_rules([prims[n] for n in s["P"]], allowlist=set(s["L"]))

        def show(reg, p):
            r = reg.get(p)
            if r is None:
                return "-"
            return "own." + sent[id(r)] if id(r) in sent else "fallback"
        del keep
        return " ".join(f"{n}:{show(ad.primitive_jvps, p)}/{show(ad.primitive_transposes, p)}/-" for n, p in prims.items())
    finally:
        for p in prims.values():
            ad.primitive_jvps.pop(p, None)
            ad.primitive_transposes.pop(p, None)


def validate_ad_pipeline(chk, rng: common.Rng, thorough: bool, tabs: dict) -> list[dict]:
    scen = ad_scenarios(rng, 240 if thorough else 80, tabs["allow"], tabs["lin"])
    ans = common.run_driver("C10", [_ad_line(s) for s in scen])
    bad = []
    kinds = {"raises": 0, "ran": 0}
    for s, a in zip(scen, ans):
        real = _ad_real(s)
        kinds["raises" if real == "raises" else "ran"] += 1
        chk.count({"stage": "ad_pipeline", "requests": [list(r) for r in s["R"]], "allow": len(s["A"]),
                   "real": real[:80]}, nontrivial=real != "raises" and bool(s["R"]), sample_every=40)
        if a != real:
            bad.append({"scenario": {k: ([list(x) for x in v] if k in ("A", "R") else v) for k, v in s.items()},
                        "real": real, "lean": a})
    chk.info("ad_pipeline_correspondence", {"scenarios": len(scen), "disagreements": len(bad), "kinds": kinds})
    chk.add("traces_validated_against_impl", len(scen))
    return bad


def add_domain_table() -> list[tuple]:
    """[(shapes, lax.add's JVP rule runs, plugin jax.numpy.add accepts)] over a finite domain of shape pairs."""
    import jax
    from jax import lax
    from jax.interpreters import ad
    from jax.core import ShapedArray
    from jax2onnx.plugins.plugin_system import PLUGIN_REGISTRY, import_all_plugins
    import_all_plugins()
    rule = ad.primitive_jvps[lax.add_p]
    plugin = PLUGIN_REGISTRY.get("jax.numpy.add")
    shapes = [(), (3,), (1,), (4,), (4, 3), (1, 3), (4, 1), (3, 3), (2, 4, 3)]
    rows = []
    for sa in shapes:
        for sb in shapes:
            A, Bs = jax.ShapeDtypeStruct(sa, np.float32), jax.ShapeDtypeStruct(sb, np.float32)
            try:
                jax.eval_shape(lambda a, b: rule((a, b), (a, b)), A, Bs)
                lax_ok = True
            except (TypeError, ValueError):
                lax_ok = False
            try:
                plugin.abstract_eval(ShapedArray(sa, np.float32), ShapedArray(sb, np.float32))
                jnp_ok = True
            except (TypeError, ValueError):
                jnp_ok = False
            rows.append(((sa, sb), lax_ok, jnp_ok))
    return rows


# ----------------------------------------------------------------------------- reduction rule on the tensor model


def validate_redlane(chk, rng: common.Rng, thorough: bool) -> list[dict]:
    import jax.numpy as jnp
    from jax.extend.core import Primitive
    from jax2onnx.plugins.jax.numpy._reduction_utils import register_reduction_batch_rule
    prim = Primitive("verif.stub_reduce_lane")

    def impl(operand, *, axes=None, axes_is_tuple=False, keepdims=False, **kw):
        return jnp.sum(operand, axis=None if axes is None else tuple(int(a) for a in axes), keepdims=keepdims)
    prim.def_impl(impl)
    register_reduction_batch_rule(prim, None)
    cases = []
    for pe in [(4, 3), (2, 4, 3), (3,), (2, 1, 3)]:
        r = len(pe)
        axes_opts = [None] + [(a,) for a in range(-r, r)] + ([(0, -1)] if r >= 2 else []) + [tuple(range(r))]
        for bdim in range(r + 1):
            for axes in axes_opts:
                for kd in (False, True):
                    cases.append((pe, bdim, axes, kd))
    if not thorough:
        cases = [c for i, c in enumerate(cases) if (i + rng.randint(0, 3)) % 4 == 0]
    lines, meta = [], []
    B = 2
    for pe, bdim, axes, kd in cases:
        full = pe[:bdim] + (B,) + pe[bdim:]
        b = rng.randint(0, B - 1)
        x = _enc(full, 1)
        lines.append(f"redlane {_shape_str(full)} {bdim} {'none' if axes is None else ','.join(map(str, axes))} "
                     f"{int(kd)} {b}")
        try:
            out, od = _call_batcher(prim, (jnp.asarray(x),), (bdim,), axes=axes, axes_is_tuple=axes is not None,
                                    keepdims=kd)
            lane = np.take(np.asarray(out), b, axis=int(od))
            real = f"{_shape_str(lane.shape)} | " + " ".join(str(int(v)) for v in lane.reshape(-1))
        except Exception as e:
            real = f"raises {type(e).__name__}"
        meta.append((pe, bdim, axes, kd, b, real))
    ans = common.run_driver("C10", lines)
    bad = []
    for (pe, bdim, axes, kd, b, real), a in zip(meta, ans):
        chk.count({"stage": "reduction_lanewise", "per_example_shape": list(pe), "bdim": bdim,
                   "axes": None if axes is None else list(axes), "keepdims": kd}, nontrivial=True, sample_every=60)
        if a != real:
            bad.append({"per_example_shape": list(pe), "batch_size": B, "bdim": bdim,
                        "axes": None if axes is None else list(axes), "keepdims": kd, "lane": b,
                        "real_lane": real[:200], "tensor_model_lane": a[:200]})
    chk.info("reduction_lanewise_correspondence", {"cases": len(lines), "disagreements": len(bad)})
    chk.add("traces_validated_against_impl", len(lines))
    return bad


# ----------------------------------------------------------------------------- batcher: vmap semantics of the real result


def batcher_lane_oracle(ops: list[tuple], stub_cls) -> Optional[dict]:
    """Run the REAL broadcast_batcher_compat on `ops` and test its result against vmap semantics computed lane by
    lane with numpy broadcasting.  Returns a description of the failure (a concrete failing input) or None."""
    import jax.numpy as jnp
    from jax2onnx.plugins.jax._batching_utils import broadcast_batcher_compat
    mapped = [(s, k) for s, k, _ in ops if k is not None]
    if len(ops) < 2 or not mapped:
        return None
    B = mapped[0][0][mapped[0][1]]
    arrs = [_enc(s, off) for s, _, off in ops]

    def comb(xs):
        out = 0
        for a in xs:
            out = out * 1024 + np.asarray(a, dtype=np.int64)
        return out
    try:
        want = [comb([np.take(a, b, axis=k) if k is not None else a for a, (_, k, _) in zip(arrs, ops)])
                for b in range(B)]
    except ValueError:
        return None            # the per-example shapes do not broadcast: outside vmap's domain
    prim = stub_cls()
    try:
        out, od = broadcast_batcher_compat(prim, [jnp.asarray(a) for a in arrs], [k for _, k, _ in ops])
    except Exception as e:
        # JAX's vmap is defined here (the lanes broadcast) — only a lower-rank mapped operand is a listed defect
        return {"operands": [[list(s), k, off] for s, k, off in ops], "real": f"raises {type(e).__name__}: {e}"[:200],
                "expected_lane_shape": list(want[0].shape)}
    o = np.asarray(out)
    for b in range(B):
        got = np.take(o, b, axis=int(od)) if o.ndim > int(od) else None
        if got is None or got.shape != want[b].shape or not np.array_equal(got, want[b]):
            return {"operands": [[list(s), k, off] for s, k, off in ops], "reported_out_dim": int(od),
                    "real_result_shape": list(o.shape), "lane": b,
                    "real_lane": None if got is None else got.reshape(-1).tolist()[:24],
                    "expected_lane": want[b].reshape(-1).tolist()[:24],
                    "primitive": "f(a1..an) = sum a_i * 1024^(n-i) with numpy broadcasting"}
    return None


# ----------------------------------------------------------------------------- substitute primitives under vmap


def _resolve(name: str):
    import importlib
    parts = name.split(".")
    for cut in range(len(parts) - 1, 0, -1):
        try:
            mod = importlib.import_module(".".join(parts[:cut]))
        except Exception:
            continue
        obj = mod
        ok = True
        for p in parts[cut:-1]:
            obj = getattr(obj, p, None)
            if obj is None:
                ok = False
                break
        if ok and callable(getattr(obj, parts[-1], None)):
            return obj, parts[-1]
    return None


def _special(name: str):
    """operands/call shapes for substitutes that are not plain unary/binary elementwise"""
    import jax
    import jax.numpy as jnp
    F = lambda *s: ("f", s)
    I = lambda *s: ("i", s)
    return {
        "jax.numpy.concatenate": (lambda g, x, y: g([x, y], axis=0), [F(4, 3), F(2, 3)]),
        "jax.numpy.stack": (lambda g, x, y: g([x, y], axis=1), [F(4, 3), F(4, 3)]),
        "jax.numpy.reshape": (lambda g, x: g(x, (3, 4)), [F(4, 3)]),
        "jax.numpy.moveaxis": (lambda g, x: g(x, 0, 1), [F(4, 3)]),
        "jax.numpy.tile": (lambda g, x: g(x, (2, 1)), [F(4, 3)]),
        "jax.numpy.pad": (lambda g, x: g(x, ((1, 1), (0, 2))), [F(4, 3)]),
        "jax.numpy.split": (lambda g, x: g(x, 2, axis=0), [F(4, 3)]),
        "jax.numpy.take": (lambda g, x: g(x, jnp.array([2, 0]), axis=1), [F(4, 3)]),
        "jax.numpy.where": (lambda g, x, y: g(x > 0, x, y), [F(4, 3), F(4, 3)]),
        "jax.numpy.select": (lambda g, x, y: g([x > 0.5, x > -0.5], [x, y], 0.0), [F(4, 3), F(4, 3)]),
        "jax.numpy.clip": (lambda g, x: g(x, -0.5, 0.5), [F(4, 3)]),
        "jax.numpy.einsum": (lambda g, x, y: g("ij,kj->ik", x, y), [F(4, 3), F(5, 3)]),
        "jax.numpy.matmul": (lambda g, x, y: g(x, y), [F(4, 3), F(3, 5)]),
        "jax.numpy.outer": (lambda g, x, y: g(x, y), [F(4,), F(3,)]),
        "jax.numpy.cumsum": (lambda g, x: g(x, axis=0), [F(4, 3)]),
        "jax.numpy.cumprod": (lambda g, x: g(x, axis=1), [F(4, 3)]),
        "jax.numpy.sort": (lambda g, x: g(x, axis=0), [F(4, 3)]),
        "jax.numpy.argmax": (lambda g, x: g(x, axis=-1), [F(4, 3)]),
        "jax.numpy.argmin": (lambda g, x: g(x, axis=-1), [F(4, 3)]),
        "jax.numpy.sum": (lambda g, x: g(x, axis=0, keepdims=True), [F(4, 3)]),
        "jax.numpy.prod": (lambda g, x: g(x, axis=-1), [F(4, 3)]),
        "jax.numpy.mean": (lambda g, x: g(x, axis=0), [F(4, 3)]),
        "jax.numpy.max": (lambda g, x: g(x, axis=0, keepdims=True), [F(4, 3)]),
        "jax.numpy.min": (lambda g, x: g(x, axis=-1), [F(4, 3)]),
        "jax.numpy.amax": (lambda g, x: g(x, axis=None, keepdims=True), [F(4, 3)]),
        "jax.numpy.amin": (lambda g, x: g(x, axis=0), [F(4, 3)]),
        "jax.numpy.any": (lambda g, x: g(x > 0, axis=0), [F(4, 3)]),
        "jax.numpy.all": (lambda g, x: g(x > 0, axis=-1, keepdims=True), [F(4, 3)]),
        "jax.numpy.linalg.norm": (lambda g, x: g(x, axis=-1), [F(4, 3)]),
        "jax.numpy.diagonal": (lambda g, x: g(x), [F(3, 3)]),
        "jax.numpy.squeeze": (lambda g, x: g(x, axis=1), [F(4, 1, 3)]),
        "jax.numpy.transpose": (lambda g, x: g(x), [F(4, 3)]),
        "jax.nn.softmax": (lambda g, x: g(x, axis=0), [F(4, 3)]),
        "jax.nn.log_softmax": (lambda g, x: g(x, axis=0), [F(4, 3)]),
        "jax.nn.logsumexp": (lambda g, x: g(x, axis=-1), [F(4, 3)]),
        "jax.nn.glu": (lambda g, x: g(x, axis=-1), [F(3, 4)]),
        "jax.nn.one_hot": (lambda g, x: g(x, 5), [I(4,)]),
        "jax.nn.standardize": (lambda g, x: g(x, axis=-1), [F(4, 3)]),
    }.get(name)


def substitute_catalogue() -> tuple[list, list]:
    """(entries, unexercised): every leaf plugin primitive named after a jax function that has its OWN batching rule,
    with a call valid in eager JAX under vmap; entries are (name, callable, operand specs)."""
    import jax
    import jax.numpy as jnp
    from jax2onnx.plugins.plugin_system import PLUGIN_REGISTRY, import_all_plugins
    import_all_plugins()
    fb = _fancy_batchers()
    names = []
    for _, pl in PLUGIN_REGISTRY.items():
        prim = getattr(pl.__class__, "_PRIM", None)
        if prim is None or not hasattr(prim, "name") or prim not in fb:
            continue
        if prim.name.startswith("jax.") and prim.name not in names:
            names.append(prim.name)
    names.sort()
    entries, skipped = [], []
    F = lambda *s: ("f", s)
    I = lambda *s: ("i", s)
    generic = [(lambda g, x: g(x), [F(4, 3)]), (lambda g, x, y: g(x, y), [F(4, 3), F(4, 3)]),
               (lambda g, x: g(x), [I(4, 3)]), (lambda g, x, y: g(x, y), [I(4, 3), I(4, 3)])]
    for name in names:
        res = _resolve(name)
        if res is None:
            skipped.append((name, "unresolved"))
            continue
        holder, attr = res
        cands = [_special(name)] if _special(name) else generic
        chosen = None
        for call, specs in cands:
            f = (lambda *a, _c=call, _h=holder, _a=attr: _c(getattr(_h, _a), *a))   # looked up at call time
            try:
                xs = [jnp.zeros((2,) + tuple(s), jnp.float32 if k == "f" else jnp.int32) + 1 for k, s in specs]
                out = jax.eval_shape(jax.vmap(f), *xs)
                leaves = jax.tree_util.tree_leaves(out)
                if not leaves:
                    continue
                chosen = (f, specs)
                break
            except Exception:
                continue
        if chosen is None:
            skipped.append((name, "no generic call valid in eager JAX"))
        else:
            entries.append((name, chosen[0], chosen[1]))
    return entries, skipped


def substitute_inputs(specs, axes, rng: common.Rng, B: int = 2):
    pool = [0.5, -0.5, 1.5, -1.5, 0.25, 1.0, -1.0, 2.0, -2.25, 0.125, 3.0, -0.75]
    xs = []
    for (kind, shp), ax in zip(specs, axes):
        shp = tuple(shp)
        if ax is not None:
            a = min(ax, len(shp))
            shp = shp[:a] + (B,) + shp[a:]
        n = int(np.prod(shp)) if shp else 1
        if kind == "f":
            vals = [pool[rng.next() % len(pool)] + (rng.next() % 7) / 16.0 for _ in range(n)]
            xs.append(np.asarray(vals, dtype=np.float32).reshape(shp))
        else:
            xs.append(np.asarray([rng.next() % 4 for _ in range(n)], dtype=np.int32).reshape(shp))
    return xs


SUB_TRANSFORMS = {
    "vmap": lambda f, n: (__import__("jax").vmap(f), [0] * n),
    "vmap_in_axes_1": lambda f, n: (__import__("jax").vmap(f, in_axes=(1,) + (0,) * (n - 1)), [1] + [0] * (n - 1)),
    "vmap_in_axes_none_last": lambda f, n: None if n < 2 else (
        __import__("jax").vmap(f, in_axes=(0,) * (n - 1) + (None,)), [0] * (n - 1) + [None]),
}
