"""C01 fixed program suite, part 2: compositions with @onnx_function boundaries (plain, unique=True,
nested; function / Equinox / flax.nnx targets) and TWIN call sites that differ in exactly one of
{nothing, static field, weight, kwarg, dtype, shape}.  Every program is exported with the real
`to_onnx` and run ORT vs eager JAX by harness/props/c01.py::validate_programs.

The decorated targets are defined ONCE per process (the plugin registry is keyed by qualname)."""
from __future__ import annotations

import numpy as np

_FAMILY = None


def function_programs():
    global _FAMILY
    if _FAMILY is not None:
        return _FAMILY
    import jax
    import jax.numpy as jnp
    import equinox as eqx
    from flax import nnx
    from jax2onnx import onnx_function

    f32 = np.float32
    x24 = np.asarray([[1.0, -2.0, 0.5, 3.0], [-0.25, 0.75, -1.5, 2.0]], f32)
    w4 = jnp.asarray([0.5, -1.5, 2.0, 1.25], dtype=jnp.float32)
    w4b = jnp.asarray([0.5, -1.5, 2.0, -0.75], dtype=jnp.float32)

    P = []

    # ---- Equinox module targets: static field / weight twins, unique=True and plain
    def eqx_family(tag, unique):
        deco = onnx_function(unique=True) if unique else onnx_function

        class ScaledPower(eqx.Module):
            w: jax.Array
            power: int = eqx.field(static=True)

            def __call__(self, x):
                return (x * self.w) ** self.power

        ScaledPower.__name__ = ScaledPower.__qualname__ = f"C01ScaledPower_{tag}"
        ScaledPower = deco(ScaledPower)

        class Net(eqx.Module):
            a: ScaledPower
            b: ScaledPower

            def __call__(self, x):
                return self.a(x) + self.b(x)

        for twin, (ia, ib) in {
            "same": ((w4, 2), (w4, 2)),
            "static": ((w4, 2), (w4, 3)),
            "weight": ((w4, 2), (w4b, 2)),
            "static_and_weight": ((w4, 3), (w4b, 2)),
        }.items():
            P.append((f"fn_eqx_{tag}_twin_{twin}", Net(ScaledPower(*ia), ScaledPower(*ib)), [x24]))

        # nested: an outer boundary around two inner boundaries; twin OUTER instances differ only in an
        # inner static field
        class Outer(eqx.Module):
            p: ScaledPower
            q: ScaledPower
            shift: float = eqx.field(static=True)

            def __call__(self, x):
                return self.p(x) - self.q(x) + self.shift

        Outer.__name__ = Outer.__qualname__ = f"C01Outer_{tag}"
        Outer = deco(Outer)

        class Top(eqx.Module):
            u: Outer
            v: Outer

            def __call__(self, x):
                return self.u(x) * 0.5 + self.v(x)

        P.append((f"fn_eqx_{tag}_nested_twin_inner_static",
                  Top(Outer(ScaledPower(w4, 2), ScaledPower(w4, 1), 0.25),
                      Outer(ScaledPower(w4, 2), ScaledPower(w4, 3), 0.25)), [x24]))
        P.append((f"fn_eqx_{tag}_nested_twin_outer_static",
                  Top(Outer(ScaledPower(w4, 2), ScaledPower(w4, 1), 0.25),
                      Outer(ScaledPower(w4, 2), ScaledPower(w4, 1), -1.5)), [x24]))

    eqx_family("unique", True)
    eqx_family("plain", False)

    # ---- flax.nnx module targets: a static (python) attribute / a parameter twin
    def nnx_family(tag, unique):
        deco = onnx_function(unique=True) if unique else onnx_function

        class Leaky(nnx.Module):
            def __init__(self, w, slope):
                self.w = nnx.Param(jnp.asarray(w, dtype=jnp.float32))
                self.slope = slope

            def __call__(self, x):
                y = x * self.w[...]
                return jnp.where(y > 0, y, self.slope * y)

        Leaky.__name__ = Leaky.__qualname__ = f"C01Leaky_{tag}"
        Leaky = deco(Leaky)

        class Pair(nnx.Module):
            def __init__(self, a, b):
                self.a, self.b = a, b

            def __call__(self, x):
                return self.a(x) + 2.0 * self.b(x)

        for twin, (ia, ib) in {
            "same": ((w4, 0.25), (w4, 0.25)),
            "static": ((w4, 0.25), (w4, 2.0)),
            "weight": ((w4, 0.25), (w4b, 0.25)),
        }.items():
            P.append((f"fn_nnx_{tag}_twin_{twin}", Pair(Leaky(*ia), Leaky(*ib)), [x24]))

    nnx_family("unique", True)
    nnx_family("plain", False)

    # ---- free-function targets (module level, see below): kwarg / dtype / shape twins
    _define_functions()
    g = globals()
    for tag in ("unique", "plain"):
        ss, sq, ou = g[f"c01_scale_shift_{tag}"], g[f"c01_square_{tag}"], g[f"c01_outer_{tag}"]
        del ss, sq, ou      # (existence check; the lambdas below look the names up at call time)
        P.append((f"fn_fun_{tag}_twin_same", eval(f"lambda x: c01_scale_shift_{tag}(x, k=2.0) + c01_scale_shift_{tag}(x, k=2.0)", g), [x24]))
        P.append((f"fn_fun_{tag}_twin_kwarg", eval(f"lambda x: c01_scale_shift_{tag}(x, k=2.0) + c01_scale_shift_{tag}(x, k=3.0)", g), [x24]))
        P.append((f"fn_fun_{tag}_twin_kwarg_bool",
                  eval(f"lambda x: c01_scale_shift_{tag}(x, k=2.0, negate=False) * c01_scale_shift_{tag}(x, k=2.0, negate=True)", g), [x24]))
        P.append((f"fn_fun_{tag}_twin_dtype",
                  eval(f"lambda x: c01_square_{tag}(x) + c01_square_{tag}(x.astype('int32')).astype('float32')", g), [x24]))
        P.append((f"fn_fun_{tag}_twin_shape", eval(f"lambda x: c01_square_{tag}(x) + c01_square_{tag}(x[:1])", g), [x24]))
        P.append((f"fn_fun_{tag}_nested_twin_kwarg", eval(f"lambda x: c01_outer_{tag}(x, k=1.0) + c01_outer_{tag}(x, k=-2.5)", g), [x24]))
    # the unique=False ("plain") variants key on id(instance): one twin per aspect is enough there
    keep_plain = {"fn_eqx_plain_twin_static", "fn_eqx_plain_nested_twin_inner_static", "fn_nnx_plain_twin_static",
                  "fn_fun_plain_twin_kwarg", "fn_fun_plain_nested_twin_kwarg", "fn_fun_plain_twin_dtype"}
    P = [p for p in P if "_plain_" not in p[0] or p[0] in keep_plain]
    _FAMILY = P
    return P


_FUN_SRC = """
def c01_scale_shift_{tag}(x, k=2.0, negate=False):
    y = x * k + 1.0
    return -y if negate else y


def c01_square_{tag}(x):
    return x * x + x


def c01_outer_{tag}(x, k=1.0):
    return c01_square_{tag}(x) * k - c01_scale_shift_{tag}(x, k=k)
"""


def _define_functions():
    """Free-function targets must be attributes of an importable module (the activation patches
    `module.<name>`); they are defined here, in this module's globals, once."""
    from jax2onnx import onnx_function
    g = globals()
    if "c01_square_plain" in g:
        return
    for tag, unique in (("unique", True), ("plain", False)):
        exec(_FUN_SRC.format(tag=tag), g)
        for nm in (f"c01_scale_shift_{tag}", f"c01_square_{tag}", f"c01_outer_{tag}"):
            g[nm].__module__ = __name__
            g[nm] = onnx_function(g[nm], unique=True) if unique else onnx_function(g[nm])
