#!/venv/bin/python
"""Run /repo's pinned test suite (guard off) and compare with /root/.vp/BASELINE.json.

usage: baseline.py [junit-out]      exit 0 iff every stable_pass test passes.
"""
import json
import os
import subprocess
import sys
import xml.etree.ElementTree as ET

out = sys.argv[1] if len(sys.argv) > 1 else "/tmp/j2o_baseline_junit.xml"
repo = os.environ.get("J2O_REPO", "/repo")
env = dict(os.environ)
env.pop("JAX2ONNX_VERIF", None)
subprocess.run(
    ["/venv/bin/python", "-m", "pytest", "-ra", "-q", "-p", "no:cacheprovider", "--timeout=900",
     "--continue-on-collection-errors", f"--junitxml={out}"]
    + (["-n", os.environ["BASELINE_XDIST"]] if os.environ.get("BASELINE_XDIST") else []),
    cwd=repo, env=env, stdout=subprocess.DEVNULL, stderr=subprocess.DEVNULL)
base = json.load(open("/root/.vp/BASELINE.json"))
passed, failed = set(), set()
for tc in ET.parse(out).getroot().iter("testcase"):
    name = f"{tc.get('classname')}::{tc.get('name')}"
    bad = any(ch.tag in ("failure", "error", "skipped") for ch in tc)
    (failed if bad else passed).add(name)
missing = [t for t in base["stable_pass"] if t not in passed]
newly = sorted(passed - set(base["stable_pass"]))
print(f"passed={len(passed)} failed={len(failed)} stable_pass={len(base['stable_pass'])} "
      f"stable_pass_not_passing={len(missing)} newly_passing={len(newly)}")
for t in missing[:20]:
    print("  NOT PASSING:", t)
sys.exit(1 if missing else 0)
