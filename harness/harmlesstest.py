#!/venv/bin/python
"""Run property checks against a behaviour-preserving refactoring of /repo: every check must stay green.

usage: harmlesstest.py <dir with patch.diff> C02,C17 [--tier quick]
Writes the outcome into <dir>/meta.json under "confirmed_by_lead".
"""
import argparse, json, os, subprocess, sys, time
from pathlib import Path

VERIF = Path(__file__).resolve().parents[1]


def sh(cmd, cwd=None, env=None, timeout=7200):
    r = subprocess.run(cmd, cwd=cwd, env=env, shell=isinstance(cmd, str), capture_output=True, text=True, timeout=timeout)
    return r.returncode, (r.stdout or "") + (r.stderr or "")


def main() -> int:
    ap = argparse.ArgumentParser()
    ap.add_argument("dir"); ap.add_argument("props"); ap.add_argument("--tier", default="quick")
    a = ap.parse_args()
    d = Path(a.dir).resolve()
    wt = Path(f"/tmp/wt_harmless_{os.getpid()}")
    sh(f"git -C /repo worktree add -f {wt} HEAD")
    out = {}
    try:
        rc, o = sh(f"git -C {wt} apply {d / 'patch.diff'}")
        if rc != 0:
            print("apply failed", o); return 2
        for prop in a.props.split(","):
            t0 = time.time()
            rcc, oc = sh(["/venv/bin/python", str(VERIF / "harness/vcheck.py"), prop, "--tier", a.tier], cwd=VERIF,
                         env=dict(os.environ, J2O_REPO=str(wt)))
            viol = [l for l in oc.splitlines() if l.startswith("VIOLATION")]
            out[prop] = {"exit": rcc, "violation_lines": viol[:4], "wall_s": round(time.time() - t0, 1),
                         "false_alarm": rcc != 0 or bool(viol)}
            if rcc != 0:
                out[prop]["tail"] = oc[-1500:]
            print(prop, out[prop]["exit"], len(viol), out[prop]["wall_s"], flush=True)
    finally:
        sh(f"git -C /repo worktree remove --force {wt}")
        for prop in a.props.split(","):
            code = ("import sys; sys.path.insert(0, %r); import common; common.use_repo(); "
                    "import importlib; m = importlib.import_module('props.%s'); "
                    "getattr(m, 'generate', lambda: None)()" % (str(VERIF / "harness"), prop.lower()))
            sh(["/venv/bin/python", "-c", code], cwd=VERIF, timeout=1200)
    mp = d / "meta.json"
    meta = json.loads(mp.read_text()) if mp.exists() else {}
    meta.setdefault("confirmed_by_lead", {}).update(out)
    mp.write_text(json.dumps(meta, indent=1))
    return 1 if any(v["false_alarm"] for v in out.values()) else 0


if __name__ == "__main__":
    sys.exit(main())
