"""Shared machinery for the /verif checks (see DESIGN.md §1, §5).

Everything here is property-independent: locating /repo, building and auditing the Lean
project, running a Lean line-protocol driver, known findings, verdicts and evidence.
"""
from __future__ import annotations

import contextlib
import fcntl
import hashlib
import json
import os
import re
import subprocess
import sys
import time
from pathlib import Path
from typing import Any, Callable, Iterable, Optional, Sequence

VERIF = Path(__file__).resolve().parents[1]
LEAN = VERIF / "lean"
REPO = Path(os.environ.get("J2O_REPO", "/repo"))
# evidence of runs against a scratch tree (J2O_REPO set: seeded mutations) never overwrites the
# committed evidence of /repo itself
EVIDENCE = VERIF / ("evidence" if "J2O_REPO" not in os.environ else "replays/evidence_scratch")
REPLAYS = VERIF / "replays"
CORPUS = VERIF / "corpus"
KNOWN_FINDINGS = VERIF / "known_findings.json"
GUARD = "JAX2ONNX_VERIF"

ALLOWED_AXIOMS = {"propext", "Classical.choice", "Quot.sound"}
FORBIDDEN = re.compile(
    r"\bsorry\b|\badmit\b|^\s*axiom\s|\bnative_decide\b|\bbv_decide\b|implemented_by|"
    r"\bunsafe\s|maxHeartbeats\s+0\b",
    re.M,
)

TRUSTED_BASE_COMMON = [
    "Lean 4.33 kernel; axioms limited to propext, Classical.choice, Quot.sound "
    "(audited with collectAxioms on every run); no sorry/native_decide/bv_decide",
    "Mathlib v4.33 modules imported by the lemma files",
    "harness/ (this Python code): table extraction, canonicalisation, drivers",
    "per-instance evaluations of model functions through `lean --run` use Lean's "
    "interpreter, not the kernel",
]


def use_repo() -> None:
    """Make `import jax2onnx` resolve to /repo's current working tree, hooks enabled."""
    os.environ.setdefault(GUARD, "1")
    os.environ.setdefault("JAX_PLATFORMS", "cpu")
    os.environ.setdefault("TF_CPP_MIN_LOG_LEVEL", "3")
    p = str(REPO)
    if p in sys.path:
        sys.path.remove(p)
    sys.path.insert(0, p)


# --------------------------------------------------------------------------- Lean


@contextlib.contextmanager
def lean_lock():
    LEAN.mkdir(exist_ok=True)
    with open(LEAN / ".build.lock", "w") as fh:
        fcntl.flock(fh, fcntl.LOCK_EX)
        try:
            yield
        finally:
            fcntl.flock(fh, fcntl.LOCK_UN)


def _run(cmd: Sequence[str], cwd: Path, timeout: int, stdin: Optional[str] = None):
    env = dict(os.environ)
    env.pop("LEAN_PATH", None)
    return subprocess.run(
        list(cmd), cwd=str(cwd), input=stdin, capture_output=True, text=True,
        timeout=timeout, env=env,
    )


def write_if_changed(path: Path, text: str) -> bool:
    path.parent.mkdir(parents=True, exist_ok=True)
    if path.exists() and path.read_text() == text:
        return False
    path.write_text(text)
    return True


class LeanBuildError(Exception):
    def __init__(self, log: str, failed_modules: list[str]):
        super().__init__("lake build failed")
        self.log = log
        self.failed_modules = failed_modules


def lean_build(modules: Sequence[str], timeout: int = 1500) -> str:
    """`lake build <modules>` under the project lock. Raises LeanBuildError with the log."""
    with lean_lock():
        r = _run(["lake", "build", *modules], LEAN, timeout)
    log = (r.stdout or "") + (r.stderr or "")
    if r.returncode != 0:
        failed = re.findall(r"^- (J2O\.[\w.]+)", log, re.M)
        raise LeanBuildError(log, failed)
    return log


def strip_lean_comments(src: str) -> str:
    src = re.sub(r"/-.*?-/", "", src, flags=re.S)
    return re.sub(r"--.*", "", src)


def module_path(mod: str) -> Path:
    return LEAN / (mod.replace(".", "/") + ".lean")


def stated_theorems(mod: str) -> list[str]:
    src = strip_lean_comments(module_path(mod).read_text())
    return re.findall(r"^\s*(?:private\s+|protected\s+)?theorem\s+([^\s:({\[]+)", src, re.M)


def forbidden_scan(modules: Iterable[str]) -> list[str]:
    hits = []
    for mod in modules:
        p = module_path(mod)
        if not p.exists():
            continue
        src = strip_lean_comments(p.read_text())
        for m in FORBIDDEN.finditer(src):
            hits.append(f"{mod}: {m.group(0).strip()}")
    return hits


def lean_imports_closure(mods: Sequence[str]) -> list[str]:
    """All J2O.* modules reachable from `mods` through `import` lines."""
    seen: list[str] = []
    todo = list(mods)
    while todo:
        m = todo.pop()
        if m in seen or not module_path(m).exists():
            continue
        seen.append(m)
        for imp in re.findall(r"^import\s+(J2O\.[\w.]+)", module_path(m).read_text(), re.M):
            todo.append(imp)
    return seen


def lean_audit(prop: str, modules: Sequence[str], timeout: int = 900) -> dict[str, list[str]]:
    """Axioms of every *stated* theorem of `modules` (name -> axioms)."""
    d = LEAN / ".audit"
    d.mkdir(exist_ok=True)
    f = d / f"Audit_{prop}.lean"
    body = "import J2O.Audit\n" + "".join(f"import {m}\n" for m in modules)
    body += "".join(f"#audit_module {m}\n" for m in modules)
    f.write_text(body)
    with lean_lock():
        r = _run(["lake", "env", "lean", str(f)], LEAN, timeout)
    if r.returncode != 0:
        raise LeanBuildError((r.stdout or "") + (r.stderr or ""), list(modules))
    wanted: set[str] = set()
    for m in modules:
        wanted.update(stated_theorems(m))
    out: dict[str, list[str]] = {}
    for line in r.stdout.splitlines():
        mm = re.match(r"AUDIT (\S+) \[(.*)\]", line)
        if not mm:
            continue
        name = mm.group(1)
        short = name.split(".")[-1]
        if short in wanted or any(name.endswith("." + w) or name == w for w in wanted):
            out[name] = [a.strip() for a in mm.group(2).split(",") if a.strip()]
    return out


def run_driver(driver: str, lines: Sequence[str], timeout: int = 1200) -> list[str]:
    """Pipe `lines` through `lake env lean --run drivers/<driver>.lean`; one output line each."""
    if not lines:
        return []
    text = "\n".join(lines) + "\n"
    # Drivers import Model/*.lean only; those are rebuilt only when their source changes, so no
    # lock is taken here (a concurrent build of another property's Gen/Props cannot disturb them).
    # One retry covers the rare case of a Model olean being rewritten at this very moment.
    r = _run(["lake", "env", "lean", "--run", f"drivers/{driver}.lean"], LEAN, timeout, stdin=text)
    if r.returncode != 0:
        time.sleep(5)
        with lean_lock():
            r = _run(["lake", "env", "lean", "--run", f"drivers/{driver}.lean"], LEAN, timeout, stdin=text)
    if r.returncode != 0:
        raise RuntimeError(f"driver {driver} failed: {r.stderr[-2000:]}\n{r.stdout[-2000:]}")
    out = r.stdout.splitlines()
    if len(out) != len(lines):
        raise RuntimeError(
            f"driver {driver}: {len(lines)} requests but {len(out)} answers; tail={out[-3:]}"
        )
    return out


def lean_checker(modules: Sequence[str], timeout: int = 3000) -> tuple[bool, str]:
    with lean_lock():
        r = _run(["lake", "env", "leanchecker", *modules], LEAN, timeout)
    return r.returncode == 0, (r.stdout or "") + (r.stderr or "")


# --------------------------------------------------------------------------- Lean source emit


def lean_int(n: int) -> str:
    return f"({n})" if n < 0 else str(n)


def lean_bool(b: bool) -> str:
    return "true" if b else "false"


def lean_str(s: str) -> str:
    return json.dumps(s, ensure_ascii=False)


def lean_list(items: Iterable[str], per_line: int = 8) -> str:
    items = list(items)
    if not items:
        return "[]"
    rows = [", ".join(items[i:i + per_line]) for i in range(0, len(items), per_line)]
    return "[\n  " + ",\n  ".join(rows) + "]"


# --------------------------------------------------------------------------- findings


def load_known_findings() -> list[dict]:
    """known_findings.json (+ per-property files known_findings.d/*.json). Committed; never
    written at run time."""
    out: list[dict] = []
    files = [KNOWN_FINDINGS] + sorted((VERIF / "known_findings.d").glob("*.json"))
    for f in files:
        if f.exists():
            out += json.loads(f.read_text()).get("findings", [])
    return out


def known_match(prop: str, key: dict) -> Optional[dict]:
    """A finding is listed iff some `known` entry of this property has a `match` dict that is a
    sub-dict of `key` (all listed fields equal). `fixed` entries suppress nothing."""
    for f in load_known_findings():
        if f.get("property") != prop or f.get("status") != "known":
            continue
        m = f.get("match", {})
        if m and all(key.get(k) == v for k, v in m.items()):
            return f
    return None


# --------------------------------------------------------------------------- run state


class Check:
    """Collects what one run of one property's check did, then writes evidence and exits."""

    def __init__(self, prop: str, tier: str, seed: int, level: str = "proof"):
        self.prop, self.tier, self.seed, self.level = prop, tier, seed, level
        self.t0 = time.time()
        self.violations: list[str] = []
        self.known_hits: list[str] = []
        self.coverage: dict[str, Any] = {
            "obligations": 0, "discharged": 0, "checker_cmd": "", "trusted_base": [],
            "evaluations": 0, "distinct_nontrivial": 0, "rule": "", "samples": [],
        }
        self.assumptions: list[str] = []
        self.notes: list[str] = []
        self._distinct: set[str] = set()

    # ---- counting
    def count(self, case: Any, nontrivial: bool = True, sample_every: int = 0) -> None:
        self.coverage["evaluations"] += 1
        if nontrivial:
            h = hashlib.sha1(json.dumps(case, sort_keys=True, default=str).encode()).hexdigest()
            if h not in self._distinct:
                self._distinct.add(h)
                if len(self.coverage["samples"]) < 6 or (
                    sample_every and len(self._distinct) % sample_every == 0
                    and len(self.coverage["samples"]) < 16
                ):
                    self.coverage["samples"].append(case)

    def add(self, key: str, n: int = 1) -> None:
        self.coverage[key] = self.coverage.get(key, 0) + n

    def info(self, key: str, value: Any) -> None:
        self.coverage[key] = value

    def log(self, msg: str) -> None:
        print(f"[{self.prop}] {msg}", flush=True)

    # ---- Lean side
    def prove(self, modules: Sequence[str], checker: bool = False) -> bool:
        """Build + audit the theorem modules. Returns True iff every obligation checks.
        On failure records self.broken (list of module / theorem names)."""
        self.broken: list[str] = []
        cmd = f"cd lean && lake build {' '.join(modules)} && lake env lean .audit/Audit_{self.prop}.lean"
        self.coverage["checker_cmd"] = cmd
        self.coverage["trusted_base"] = list(TRUSTED_BASE_COMMON)
        stated = sum(len(stated_theorems(m)) for m in modules if module_path(m).exists())
        self.coverage["obligations"] = stated
        closure = lean_imports_closure(modules)
        bad = forbidden_scan(closure)
        if bad:
            self.broken += [f"forbidden token {b}" for b in bad]
            self.log("forbidden tokens: " + "; ".join(bad))
            return False
        try:
            lean_build(list(modules))
        except LeanBuildError as e:
            self.broken += e.failed_modules or list(modules)
            self.build_log = e.log
            errs = [l for l in e.log.splitlines() if l.startswith("error")][:12]
            self.log("lake build FAILED:\n  " + "\n  ".join(errs))
            return False
        try:
            ax = lean_audit(self.prop, list(modules))
        except LeanBuildError as e:
            self.broken += ["audit"]
            self.build_log = e.log
            self.log("audit FAILED: " + e.log[-1500:])
            return False
        ok = True
        for name, axs in ax.items():
            extra = set(axs) - ALLOWED_AXIOMS
            if extra:
                ok = False
                self.broken.append(f"{name} uses axioms {sorted(extra)}")
        self.coverage["discharged"] = sum(
            1 for axs in ax.values() if not (set(axs) - ALLOWED_AXIOMS))
        self.coverage["theorems"] = sorted(ax)
        if self.coverage["discharged"] < stated:
            # a stated theorem that the audit did not see
            missing = stated - self.coverage["discharged"]
            self.broken.append(f"{missing} stated theorem(s) not found by the audit")
            ok = False
        if ok and checker:
            good, out = lean_checker(list(modules))
            self.coverage["leanchecker"] = "ok" if good else out[-400:]
            if not good:
                ok = False
                self.broken.append("leanchecker rejected the modules")
        self.log(f"Lean: {self.coverage['discharged']}/{stated} obligations discharged"
                 + ("" if ok else f"; BROKEN: {self.broken}"))
        return ok

    # ---- verdicts
    def violation(self, replay: dict, name: str | None = None,
                  no_failing_input: bool = False) -> None:
        REPLAYS.mkdir(exist_ok=True)
        body = dict(replay)
        body.setdefault("property", self.prop)
        body.setdefault("seed", self.seed)
        body.setdefault("tier", self.tier)
        digest = hashlib.sha1(json.dumps(body, sort_keys=True, default=str).encode()).hexdigest()[:10]
        path = REPLAYS / f"{self.prop}-{name or digest}.json"
        path.write_text(json.dumps(body, indent=1, default=str))
        line = f"VIOLATION property={self.prop} replay={path}"
        if no_failing_input:
            line += " no-failing-input-found"
        if len(self.violations) < 5:      # keep the output readable; all are counted
            print(line, flush=True)
        elif len(self.violations) == 5:
            print(f"[{self.prop}] further violations are written to replays/ without a line", flush=True)
        self.violations.append(line)

    def finding(self, key: dict, what: str, replay: dict | None = None) -> bool:
        """A concrete failing input on the real code. Listed -> KNOWN-FINDING (returns True),
        otherwise a VIOLATION (returns False)."""
        k = known_match(self.prop, key)
        if k is not None:
            tag = k.get("id", "")
            line = f"KNOWN-FINDING: property={self.prop} {tag} {k.get('what', what)}"
            if line not in self.known_hits:
                print(line, flush=True)
                self.known_hits.append(line)
            return True
        body = dict(replay or {})
        body["finding_key"] = key
        body["what"] = what
        self.violation(body)
        return False

    def finish(self) -> int:
        cov = self.coverage
        cov["distinct_nontrivial"] = len(self._distinct)
        if self.level == "proof" and cov.get("obligations", 0) == 0:
            # keep the file schema-valid through the generic fallback keys
            pass
        ev = {
            "property_id": self.prop,
            "tier": self.tier,
            "seed": self.seed,
            "level": self.level,
            "coverage": cov,
            "assumptions": self.assumptions,
            "wall_s": round(time.time() - self.t0, 2),
            "violations": len(self.violations),
            "known_findings_reported": self.known_hits,
            "notes": self.notes,
        }
        EVIDENCE.mkdir(parents=True, exist_ok=True)
        (EVIDENCE / f"{self.prop}.json").write_text(json.dumps(ev, indent=1, default=str))
        self.log(f"done in {ev['wall_s']} s: evaluations={cov['evaluations']} "
                 f"distinct={cov['distinct_nontrivial']} violations={len(self.violations)} "
                 f"known={len(self.known_hits)}")
        return 1 if self.violations else 0


class Rng:
    """Single PRNG (SplitMix64) so that every random choice derives from VERIF_SEED."""

    def __init__(self, seed: int):
        self.s = (seed * 0x9E3779B97F4A7C15 + 0x1234567) & 0xFFFFFFFFFFFFFFFF

    def next(self) -> int:
        self.s = (self.s + 0x9E3779B97F4A7C15) & 0xFFFFFFFFFFFFFFFF
        z = self.s
        z = ((z ^ (z >> 30)) * 0xBF58476D1CE4E5B9) & 0xFFFFFFFFFFFFFFFF
        z = ((z ^ (z >> 27)) * 0x94D049BB133111EB) & 0xFFFFFFFFFFFFFFFF
        return z ^ (z >> 31)

    def randint(self, lo: int, hi: int) -> int:
        return lo + self.next() % (hi - lo + 1)

    def choice(self, xs: Sequence[Any]) -> Any:
        return xs[self.next() % len(xs)]

    def chance(self, p: float) -> bool:
        return (self.next() % 10_000) < int(p * 10_000)

    def shuffle(self, xs: list) -> list:
        xs = list(xs)
        for i in range(len(xs) - 1, 0, -1):
            j = self.next() % (i + 1)
            xs[i], xs[j] = xs[j], xs[i]
        return xs

    def sample(self, xs: Sequence[Any], k: int) -> list:
        return self.shuffle(list(xs))[:k]
