"""Widened f32-detour probe for C09 (imported lazily by harness/props/c09.py after use_repo()).

Vocabulary = EVERY plugin of the live registry whose key names a jax.lax / jax.numpy / jax.nn
function that maps a float64 array (or a pair of them) to a float64 array — enumerated at run time,
nothing is listed by hand. Each op is exported (flag on, float64 specs)
  * directly on a graph input, and
  * on the output of each PRODUCER (outer, matmul, reshape, transpose, concatenate, cumsum, where, …):
    the operand of the lowering is then an intermediate value, possibly one whose IR type has not been
    stamped yet — lowerings that choose the dtype of their helper constants from the operand's IR
    type must still end in float64.
Many ops share one export (one model output per op), so the full cross product ops x producers is
exported in every tier; the tiers differ in the number of input points and plugin testcases.
"""
from __future__ import annotations

import importlib
from typing import Any, Callable, Optional

import numpy as np

X_SHAPE = (3, 4)
DOMAINS = [(0.55, 0.95), (1.1, 1.9), (-0.9, -0.2)]


def registry() -> dict:
    from jax2onnx.plugins import plugin_system as ps
    try:
        ps.import_all_plugins()
    except Exception:
        pass
    return ps.PLUGIN_REGISTRY


def _resolve(key: str) -> Optional[Callable]:
    import jax
    if key.startswith("metadata::") or key.startswith("onnx_fn::"):
        return None
    if key.startswith("jax."):
        parts = key.split(".")
        try:
            obj: Any = importlib.import_module(parts[0])
            for p in parts[1:]:
                obj = getattr(obj, p)
            return obj if callable(obj) else None
        except Exception:
            return None
    if "." in key:
        return None
    fn = getattr(jax.lax, key, None)
    return fn if callable(fn) else None


def _points(lo: float, hi: float, seed: int, n: int = 2):
    rs = np.random.RandomState(4321 + seed)
    return [rs.uniform(lo, hi, size=X_SHAPE) for _ in range(n)]


def second_operand(x):
    """The second operand of a binary op, derived from the (only) model input."""
    return x * 0.75 + 0.125


def enumerate_ops(seed: int = 0) -> dict:
    """{key: {"fn", "arity"}} for every registry key that resolves to a function taking one or two
    float64 arrays of shape (3,4) to ONE float64 array (abstract evaluation under x64: no compilation).
    The probe domain of each op is chosen later from the JAX reference values."""
    import jax
    out: dict[str, dict] = {}
    skipped: dict[str, str] = {}
    with jax.enable_x64(True):
        sds = jax.ShapeDtypeStruct(X_SHAPE, np.float64)
        for key in sorted(registry().keys()):
            fn = _resolve(key)
            if fn is None:
                continue
            for arity in (1, 2):
                try:
                    y = jax.eval_shape(fn, *([sds] * arity))
                except Exception as e:
                    skipped[key] = type(e).__name__
                    continue
                if not hasattr(y, "dtype") or not hasattr(y, "shape"):
                    skipped[key] = "not one array result"
                    break
                if np.dtype(y.dtype) != np.float64 or int(np.prod(y.shape)) == 0:
                    skipped[key] = f"result dtype {y.dtype}"
                    break
                skipped.pop(key, None)
                out[key] = {"fn": fn, "arity": arity}
                break
    return {"ops": out, "skipped": skipped}


def applicable(ops: dict, keys: list, prod: Callable) -> list:
    """The ops that JAX accepts on the producer's output (abstract evaluation only)."""
    import jax
    ok = []
    with jax.enable_x64(True):
        sds = jax.ShapeDtypeStruct(X_SHAPE, np.float64)
        for k in keys:
            o = ops[k]
            try:
                y = jax.eval_shape(lambda x: (o["fn"](prod(x)) if o["arity"] == 1
                                              else o["fn"](prod(x), second_operand(prod(x)))), sds)
                if hasattr(y, "dtype") and np.dtype(y.dtype) == np.float64:
                    ok.append(k)
            except Exception:
                pass
    return ok


QUICK_PRODUCERS = ["direct", "outer", "matmul", "reshape", "transpose", "concatenate", "cumsum", "where", "maxnorm",
                   "slice", "pad", "take", "sort", "dyn_slice"]


def producers() -> dict:
    """x:(3,4) float64 -> float array; each keeps the values inside (a widening of) the domain."""
    import jax.numpy as jnp
    from jax import lax
    return {
        "direct": lambda x: x,
        "outer": lambda x: jnp.outer(x[0], x[:, 0]),
        "matmul": lambda x: jnp.matmul(x, x.T) * 0.25,
        "einsum": lambda x: jnp.einsum("ij,kj->ik", x, x) * 0.25,
        "reshape": lambda x: jnp.reshape(x, (4, 3)),
        "transpose": lambda x: jnp.transpose(x),
        "concatenate": lambda x: jnp.concatenate([x, x * 0.875], axis=0),
        "stack": lambda x: jnp.stack([x, x * 0.875]),
        "cumsum": lambda x: jnp.cumsum(x, axis=1) * 0.25 + x * 0.375,
        "where": lambda x: jnp.where(x > jnp.mean(x), x, x * 0.875),
        "maxnorm": lambda x: x * (0.9375 / jnp.max(jnp.abs(x))) * jnp.sign(x[0, 0]) * jnp.sign(x),
        "slice": lambda x: x[1:, :3],
        "tile": lambda x: jnp.tile(x, (2, 1)),
        "pad": lambda x: jnp.pad(x, ((0, 1), (0, 0)), constant_values=0.75) * jnp.sign(x[0, 0]),
        "take": lambda x: jnp.take(x, jnp.asarray([2, 0, 1]), axis=0),
        "squeeze": lambda x: jnp.squeeze(jnp.expand_dims(x, 0), 0),
        "select": lambda x: jnp.select([x > jnp.mean(x)], [x], x * 0.875),
        "moveaxis": lambda x: jnp.moveaxis(x, 0, 1),
        "dyn_slice": lambda x: lax.dynamic_slice(x, (1, 0), (2, 4)),
        "sort": lambda x: jnp.sort(x, axis=1),
    }


def build_program(op_keys: list, ops: dict, prod: Callable):
    """One callable with one output per op: op(prod(x)) (binary ops get a second operand derived from
    the same intermediate)."""
    def f(x):
        p = prod(x)
        outs = []
        for k in op_keys:
            o = ops[k]
            outs.append(o["fn"](p) if o["arity"] == 1 else o["fn"](p, second_operand(p)))
        return tuple(outs)
    return f


# ----------------------------------------------------------------------------- plugin testcases


def plugin_testcases() -> list[dict]:
    """Every testcase of the registry metadata that is a plain callable over concrete float inputs
    (`input_values`, or `input_shapes` of integers); float inputs are re-spelled as float64."""
    out = []
    for key, plugin in sorted(registry().items(), key=lambda kv: kv[0]):
        md = getattr(plugin, "metadata", None) or {}
        for tc in md.get("testcases", []) or []:
            fn = tc.get("callable")
            if fn is None or not callable(fn) or hasattr(fn, "with_dtype"):
                continue
            if tc.get("input_params") or tc.get("run_only_f32_variant") or tc.get("disable_float64_test"):
                continue
            vals = tc.get("input_values")
            shapes = tc.get("input_shapes")
            dts = tc.get("input_dtypes")
            inputs = None
            if vals is not None:
                try:
                    inputs = [np.asarray(v) for v in vals]
                except Exception:
                    inputs = None
            elif shapes is not None and all(all(isinstance(d, (int, np.integer)) for d in s) for s in shapes):
                rs = np.random.RandomState(99)
                inputs = []
                for i, s in enumerate(shapes):
                    dt = np.dtype(dts[i]) if dts else np.dtype(np.float32)
                    if np.issubdtype(dt, np.floating):
                        inputs.append(rs.uniform(0.55, 0.95, size=tuple(int(d) for d in s)).astype(dt))
                    elif np.issubdtype(dt, np.integer):
                        inputs.append(rs.randint(0, 3, size=tuple(int(d) for d in s)).astype(dt))
                    elif dt == np.bool_:
                        inputs.append(rs.uniform(size=tuple(int(d) for d in s)) > 0.5)
                    else:
                        inputs = None
                        break
            if not inputs:
                continue
            if not any(np.issubdtype(a.dtype, np.floating) for a in inputs):
                continue
            inputs = [a.astype(np.float64) if np.issubdtype(a.dtype, np.floating) else a for a in inputs]
            out.append({"plugin": key, "testcase": str(tc.get("testcase")), "fn": fn, "inputs": inputs})
    return out
