"""C01 exploration (NOT proof): every registered plugin/example testcase, ORT vs eager JAX on an
adversarial input distribution derived from the testcase's own input specs.

Used by harness/props/c01.py.  Runs the cases in worker subprocesses (this file with `--worker`)
so that a crash of ONNX Runtime (e.g. SIGFPE on an integer division) cannot take the check down:
the parent records the case as `crash` and restarts the worker.

Oracle (per output element, float outputs):
    |ort - jax32| <= K_D * d + K_E * eps * |jax64| + K_N * (rms d + eps * rms|jax64|) + K_A * eps
    d = max(|jax32 - jax64|, |jax32(x) - jax32(x (1 +- eps))|)
i.e. a tolerance derived from JAX's own f32-vs-f64 discrepancy on the same input and from the
forward error a one-ulp input perturbation causes (element-wise and norm-wise, because
backward-stable kernels are only norm-wise accurate), never a fixed rtol.  K_A * eps is the
absolute unit round-off at scale 1 (kernels like exp(x)-1 or 1+erf have intermediates of size 1).
Elements where eager JAX f32 overflowed to inf while its f64 evaluation is finite are skipped, and so are
singular points where JAX returns ±inf and ORT NaN.  A deviation of at most BORDERLINE x that tolerance
(finite on both sides) is counted as `borderline` and reported, not raised as a finding (calibrated on the
unchanged tree, DESIGN §7.1).
Integer / bool outputs must be identical, shapes identical.  Elements where eager JAX itself returns
NaN are outside the callable's domain and are skipped (counted).
"""
from __future__ import annotations

import hashlib
import json
import os
import subprocess
import sys
import time
from pathlib import Path
from typing import Any, Optional

HERE = Path(__file__).resolve().parent

K_D, K_E, K_N, K_A = 64.0, 64.0, 64.0, 4.0
BORDERLINE = 16.0     # deviations up to BORDERLINE x the derived tolerance are counted as borderline, not as findings
BORDERLINE_F64 = 1024.0  # float64 variants: the f32-vs-f64 discrepancy scaled by eps64/eps32 is a cruder estimate

HALF_POOL = [0.5, -0.5, 1.5, -1.5, 2.5, -2.5, 3.5, -3.5, 0.0, 1.0, -1.0, 2.0, -2.0, 4.5, -4.5]
MAG_POOL = [0.0, 1.0, -1.0, 1e-3, -1e-3, 1e-6, -1e-6, 20.0, -20.0, 100.0, -100.0, 1e4, -1e4, 0.25, -7.0,
            3.0, 1e-20, 88.0, -88.0, 16.5]
KINDS = ["own", "half", "mag", "neg", "unit", "mag2", "half2"]     # thorough; quick uses the first four


# --------------------------------------------------------------------------------------- rng


class Rng:
    def __init__(self, seed: int):
        self.s = (seed * 0x9E3779B97F4A7C15 + 0x1234567) & 0xFFFFFFFFFFFFFFFF

    def next(self) -> int:
        self.s = (self.s + 0x9E3779B97F4A7C15) & 0xFFFFFFFFFFFFFFFF
        z = self.s
        z = ((z ^ (z >> 30)) * 0xBF58476D1CE4E5B9) & 0xFFFFFFFFFFFFFFFF
        z = ((z ^ (z >> 27)) * 0x94D049BB133111EB) & 0xFFFFFFFFFFFFFFFF
        return z ^ (z >> 31)

    def below(self, n: int) -> int:
        return self.next() % n

    def unit(self) -> float:
        return (self.next() >> 11) / float(1 << 53)


def case_seed(seed: int, cid: str, kind: str) -> int:
    """The adversarial draw is a deterministic function of (testcase id, kind incl. draw index) ONLY —
    independent of VERIF_SEED — so that one complete thorough pass enumerates every outcome any quick run
    can ever see (closed world).  `seed` is accepted for the signature's sake and ignored."""
    h = hashlib.sha256(f"draw-v1|{cid}|{kind}".encode()).hexdigest()
    return int(h[:15], 16)


def base_kind(kind: str) -> str:
    """`mag2` = second draw index of kind `mag`."""
    return kind.rstrip("0123456789")


# --------------------------------------------------------------------------------------- cases


def _setup_paths() -> None:
    repo = os.environ.get("J2O_REPO", "/repo")
    for p in (repo, os.path.join(repo, "tests")):
        if p in sys.path:
            sys.path.remove(p)
    sys.path.insert(0, os.path.join(repo, "tests"))
    sys.path.insert(0, repo)
    os.environ.setdefault("JAX_PLATFORMS", "cpu")
    os.environ.setdefault("TF_CPP_MIN_LOG_LEVEL", "3")


_PARAMS: Optional[list] = None


def load_params() -> list:
    """All testcase parameter sets of tests/t_generator (f32 and f64 variants), in a stable order."""
    global _PARAMS
    if _PARAMS is not None:
        return _PARAMS
    _setup_paths()
    import logging
    logging.disable(logging.CRITICAL)
    import warnings
    warnings.filterwarnings("ignore")
    import t_generator as tg
    md = tg.load_plugin_metadata()
    params: list = []
    for e in md:
        try:
            params += tg.generate_test_params(e)
        except Exception:
            continue
    _PARAMS = params
    return params


def case_id(tp: dict) -> str:
    return f"{tp.get('context', '')}/{tp.get('component', '')}/{tp['testcase']}"


def list_cases() -> list[dict]:
    out = []
    for i, tp in enumerate(load_params()):
        out.append({"index": i, "id": case_id(tp),
                    "f64": bool(tp.get("_enable_double_precision_test_setting", False)),
                    "skip_numeric": bool(tp.get("skip_numeric_validation", False)),
                    "has_values": tp.get("input_values") is not None})
    return out


# --------------------------------------------------------------------------------------- inputs


def _concrete_shape(shape, symmap: dict, symval: int):
    return tuple(symmap.setdefault(d, symval) if isinstance(d, str) else int(d) for d in shape)


def _keep_structure(arr, own):
    """Structure of the testcase's own values that is part of the callable's domain and that an
    element-wise draw would destroy: monotone last axis (bins, knots, sorted tables) and
    triangular / diagonal zero patterns."""
    import numpy as np
    if own is None:
        return arr
    own = np.asarray(own)
    if own.shape != arr.shape or own.ndim == 0:
        return arr
    if own.shape[-1] >= 2 and np.issubdtype(own.dtype, np.number) and not np.iscomplexobj(own):
        d = np.diff(own.astype(np.float64), axis=-1)
        strict = bool((d != 0).all())
        if (d >= 0).all() and (d > 0).any():
            arr = np.sort(arr, axis=-1)
        elif (d <= 0).all() and (d < 0).any():
            arr = np.sort(arr, axis=-1)[..., ::-1].copy()
        else:
            strict = False
        if strict and (np.diff(arr.astype(np.float64), axis=-1) == 0).any():
            return own.astype(arr.dtype)      # strictly monotone tables (knots, bin edges) stay strictly monotone
    if own.ndim >= 2 and own.shape[-1] == own.shape[-2] and own.shape[-1] >= 2 and (own == 0).any():
        if (np.triu(own) == own).all():
            arr = np.triu(arr)
        elif (np.tril(own) == own).all():
            arr = np.tril(arr)
    return arr


def _cyclic(pool, n, rng: Rng):
    """n values that cover the pool as completely as n allows: a seeded permutation of the pool, repeated,
    then shuffled in place by blocks (so that coverage does not depend on luck)."""
    perm = list(pool)
    for i in range(len(perm) - 1, 0, -1):
        j = rng.below(i + 1)
        perm[i], perm[j] = perm[j], perm[i]
    vals = [perm[i % len(perm)] for i in range(n)]
    for i in range(n - 1, 0, -1):       # positions are shuffled too (value multiset kept)
        j = rng.below(i + 1)
        vals[i], vals[j] = vals[j], vals[i]
    return vals


def _fill_float(shape, dtype, kind: str, rng: Rng, own=None):
    import numpy as np
    kind = base_kind(kind)
    return _keep_structure(_fill_float0(shape, dtype, kind, rng, own), None if kind == "own" else own)


def _fill_float0(shape, dtype, kind: str, rng: Rng, own=None):
    import numpy as np
    n = 1
    for d in shape:
        n *= d
    if kind == "own" and own is not None:
        return np.asarray(own).astype(dtype)
    if kind == "half":
        vals = _cyclic(HALF_POOL, n, rng)
    elif kind == "mag":
        vals = _cyclic(MAG_POOL, n, rng)
    elif kind == "neg":       # negative-dominated, zeros, a few positives; exactly representable
        vals = [(-(rng.below(64)) / 8.0) if rng.below(8) else (rng.below(16) / 4.0) for _ in range(n)]
    elif kind == "unit":      # inside [-1, 1] incl. the boundaries
        pool = [-1.0, 1.0, 0.0, -0.5, 0.5, 0.999, -0.999, 0.125, -0.75]
        vals = [pool[rng.below(len(pool))] if rng.below(3) == 0 else (rng.unit() * 2 - 1) for _ in range(n)]
    else:                      # "own" without own values: the project's benign N(0, 0.25^2)-like draw
        vals = [(rng.unit() + rng.unit() + rng.unit() + rng.unit() - 2.0) * 0.433 for _ in range(n)]
    return np.asarray(vals, dtype=np.float64).reshape(shape).astype(dtype)


def _fill_int(shape, dtype, kind: str, rng: Rng, own=None):
    import numpy as np
    kind = base_kind(kind)
    n = 1
    for d in shape:
        n *= d
    if own is not None:
        own = np.asarray(own)
        if kind == "own" or own.size == 0:
            return own.astype(dtype)
        # admissible integers = the values the testcase itself uses (keeps indices in range);
        # boundary = its min / max.  Structure (sortedness, uniqueness) is preserved for `neg`/`unit`
        # by permuting instead of resampling.
        flat = own.reshape(-1)
        lo, hi = int(flat.min()), int(flat.max())
        if kind == "half":
            vals = [int(flat[rng.below(len(flat))]) for _ in range(n)]
        elif kind == "mag":
            vals = [(lo if rng.below(2) else hi) if rng.below(2) else int(flat[rng.below(len(flat))])
                    for _ in range(n)]
        else:
            return own.astype(dtype)
        return _keep_structure(np.asarray(vals, dtype=np.int64).reshape(own.shape).astype(dtype), own)
    # no values given: the project draws integers in [0, 5)
    if kind == "own":
        vals = [rng.below(5) for _ in range(n)]
    elif kind == "mag":
        vals = [0 if rng.below(2) else 4 for _ in range(n)]
    else:
        vals = [[0, 4, 1, 2, 3][rng.below(5)] for _ in range(n)]
    return np.asarray(vals, dtype=np.int64).reshape(shape).astype(dtype)


def _fill_bool(shape, kind: str, rng: Rng, own=None):
    import numpy as np
    kind = base_kind(kind)
    n = 1
    for d in shape:
        n *= d
    if kind == "own" and own is not None:
        return np.asarray(own).astype(bool)
    if kind == "mag":
        return np.ones(shape, dtype=bool)
    if kind == "neg":
        return np.zeros(shape, dtype=bool)
    return np.asarray([bool(rng.below(2)) for _ in range(n)], dtype=bool).reshape(shape)


# (component, input index) -> "sorted": inputs that must be ascending although the testcase only gives shapes
DOMAIN = {("searchsorted", 0): "sorted", ("digitize", 1): "sorted", ("interp", 1): "sorted"}
# components whose callable is only defined for positive arguments (special functions): draws are folded
# to |x| + 2^-10; components with data-dependent trip counts only get bounded-magnitude draws;
# components whose outputs are an unordered set (roots) are compared after sorting
POSITIVE = {"igamma", "igammac", "igamma_grad_a", "random_gamma_grad", "betainc", "digamma", "polygamma", "zeta",
            "bessel_i0e", "bessel_i1e"}
BOUNDED_KINDS = {"while_loop": ["own"],        # termination depends on the value (e.g. `while v < 5: v += 2x`)
                 "fori_loop": ["own", "half", "unit"],
                 "arange": ["own", "half", "unit"], "linspace": ["own", "half", "unit"],   # output size = f(values)
                 "Transformer": ["own"],       # float-typed token ids: must index the vocabulary
                 "cholesky_update": ["own"]}   # the operand must be a valid Cholesky factor (positive diagonal)
# linear-algebra components: a draw on which eager JAX itself produces a non-finite element (singular /
# not positive definite input) is outside the callable's domain as a whole — one bad pivot contaminates
# every element — and is not judged
LINALG_PREFIXES = ("linalg_", "cholesky", "lu", "qr", "eig", "svd", "triangular_solve", "tridiagonal", "schur",
                   "hessenberg", "householder", "ormqr", "polyfit")
UNORDERED_OUTPUT = {"roots", "eig"}            # eigenvalues / roots are a set: compared after sorting
# (testcase name, draw kind or "*") -> why this draw is not judged (documented in notes/C01.md)
ORACLE_EXEMPT = {
    ("log_of_reduce_sum_exp_axis1", "mag"): "eager JAX overflows (exp(1e4) = inf in f32 and f64); the exported "
                                            "ReduceLogSumExp is the numerically stable evaluation of the same formula",
}
EXEMPT_CONTEXT = {"primitives.random": "sampling primitives: the result is a function of the PRNG implementation "
                                       "(threefry vs ONNX Random*), not of the inputs; only the testcase's own draw is judged"}


def build_inputs(tp: dict, kind: str, seed: int, f64: bool, symval: int = 2):
    """(to_onnx input specs, concrete numpy inputs, description)."""
    import numpy as np
    import jax
    import jax.numpy as jnp
    rng = Rng(case_seed(seed, case_id(tp), kind))
    values = tp.get("input_values")
    shapes = tp.get("input_shapes")
    dtypes = tp.get("input_dtypes")
    specs: list = []
    xs: list = []

    def runtime_dtype(dt):
        dt = np.dtype(dt)
        if not f64:
            if dt == np.float64:
                return np.dtype(np.float32)
            if dt == np.int64:
                return np.dtype(np.int32)
            if dt == np.uint64:
                return np.dtype(np.uint32)
        elif np.issubdtype(dt, np.floating):
            return np.dtype(np.float64)
        return dt

    def fill(shape, dt, own):
        dt = np.dtype(dt)
        if dt == np.bool_:
            return _fill_bool(shape, kind, rng, own)
        if np.issubdtype(dt, np.integer):
            return _fill_int(shape, dt, kind, rng, own)
        if np.issubdtype(dt, np.floating) or dt.name == "bfloat16":
            return _fill_float(shape, dt, kind, rng, own)
        if np.issubdtype(dt, np.complexfloating):
            re = _fill_float(shape, np.float64, kind, rng, None if own is None else np.real(own))
            im = _fill_float(shape, np.float64, kind, rng, None if own is None else np.imag(own))
            return (re + 1j * im).astype(dt)
        if own is not None:
            return np.asarray(own)
        raise ValueError(f"unsupported input dtype {dt}")

    if shapes is not None:
        symmap: dict = {}
        if dtypes is None:
            dtypes = [np.float64 if f64 else np.float32] * len(shapes)
        for i, (shp, dt) in enumerate(zip(shapes, dtypes)):
            shp = tuple(shp) if isinstance(shp, (list, tuple)) else (shp,)
            dt = np.dtype(dt)
            if f64 and np.issubdtype(dt, np.floating):
                dt = np.dtype(np.float64)
            if tp.get("input_dtypes"):
                specs.append(jax.ShapeDtypeStruct(shp, dt))
            else:
                specs.append(shp)
            own = None
            if values is not None and i < len(values):
                own = np.asarray(values[i])
            arr = fill(_concrete_shape(shp, symmap, symval), dt, own)
            if own is None and DOMAIN.get((tp.get("component"), i)) == "sorted" and arr.ndim >= 1:
                arr = np.sort(arr, axis=-1)
            xs.append(arr)
    elif values is not None:
        for v in values:
            a = np.asarray(v)
            dt = runtime_dtype(a.dtype)
            spec_dt = np.dtype(np.float64) if (f64 and np.issubdtype(a.dtype, np.floating)) else a.dtype
            specs.append(jax.ShapeDtypeStruct(a.shape, spec_dt))
            xs.append(fill(a.shape, dt, a.astype(dt)))
    if tp.get("component") in POSITIVE and kind != "own":
        xs = [np.asarray(np.abs(x) + np.asarray(2.0 ** -10, dtype=x.dtype), dtype=x.dtype)
              if np.issubdtype(x.dtype, np.floating) else x for x in xs]
    xs = [np.asarray(x) for x in xs]
    return specs, xs


# --------------------------------------------------------------------------------------- oracle


def _flat_outputs(res):
    import jax
    import numpy as np
    host = jax.device_get(res)
    flat, _ = jax.tree_util.tree_flatten(host)
    return [np.asarray(v) for v in flat]


def _is_float(a) -> bool:
    import numpy as np
    return np.issubdtype(a.dtype, np.floating) or a.dtype.name in ("bfloat16", "float16")


def compare(ort_out, j_main, j_ref, f64: bool, j_pert=None, declared=None, unordered=False) -> dict:
    """j_main: eager JAX in the variant's precision; j_ref: eager JAX in the other precision
    (f64 for an f32 variant, f32 for an f64 variant) or None; j_pert: eager JAX (variant precision)
    on the inputs perturbed by one unit round-off (the forward error a backward-stable evaluation
    carries), or None."""
    import numpy as np
    if len(ort_out) != len(j_main):
        return {"status": "mismatch", "why": f"output count ORT {len(ort_out)} vs JAX {len(j_main)}"}
    eps = float(np.finfo(np.float64 if f64 else np.float32).eps)
    scale = (float(np.finfo(np.float64).eps) / float(np.finfo(np.float32).eps)) if f64 else 1.0
    skipped_nan = 0
    worst = 0.0
    used_declared = False
    borderline = 0.0

    def _sorted(a):
        a = np.asarray(a)
        if a.ndim == 0:
            return a
        if np.iscomplexobj(a):
            idx = np.lexsort((np.imag(a), np.real(a)), axis=-1)
            return np.take_along_axis(a, idx, axis=-1)
        return np.sort(a, axis=-1)

    for k, (o, e) in enumerate(zip(ort_out, j_main)):
        o, e = np.asarray(o), np.asarray(e)
        if np.issubdtype(e.dtype, np.complexfloating) and not np.issubdtype(o.dtype, np.complexfloating):
            if o.ndim == e.ndim + 1 and o.shape[-1] == 2:
                o = o[..., 0] + 1j * o[..., 1]
        if o.shape != e.shape:
            return {"status": "mismatch", "why": f"output {k}: shape ORT {o.shape} vs JAX {e.shape}", "output": k}
        if unordered:
            o, e = _sorted(o), _sorted(e)
        if np.issubdtype(e.dtype, np.complexfloating) or np.issubdtype(o.dtype, np.complexfloating):
            parts = [(np.real(o), np.real(e)), (np.imag(o), np.imag(e))]
            ref = None if j_ref is None else np.asarray(j_ref[k])
            refs = [None, None] if ref is None else [np.real(ref), np.imag(ref)]
            pt = None if j_pert is None else np.asarray(j_pert[k])
            perts = [None, None] if pt is None else [np.real(pt), np.imag(pt)]
        elif _is_float(e) or _is_float(o):
            if not (_is_float(e) and _is_float(o)):
                return {"status": "mismatch", "why": f"output {k}: dtype kind ORT {o.dtype} vs JAX {e.dtype}", "output": k}
            parts = [(o, e)]
            refs = [None if j_ref is None else np.asarray(j_ref[k])]
            perts = [None if j_pert is None else np.asarray(j_pert[k])]
        else:
            if (e.dtype == np.bool_) != (o.dtype == np.bool_):
                return {"status": "mismatch", "why": f"output {k}: dtype kind ORT {o.dtype} vs JAX {e.dtype}", "output": k}
            if e.dtype == np.bool_:
                same = np.array_equal(o, e)
            else:
                same = np.array_equal(o.astype(object), e.astype(object)) if o.size < 4096 else \
                    (np.array_equal(o.astype(np.int64), e.astype(np.int64)) and
                     (o.dtype.kind == e.dtype.kind or bool((o.astype(np.int64) >= 0).all())))
            if not same:
                idx = np.argwhere(np.asarray(o.astype(object) != e.astype(object)))[:1]
                at = tuple(int(i) for i in idx[0]) if len(idx) else ()
                return {"status": "mismatch", "why": f"output {k}: integer/bool values differ", "output": k,
                        "at": list(at), "ort": repr(o[at].tolist() if o.ndim else o.tolist()),
                        "jax": repr(e[at].tolist() if e.ndim else e.tolist())}
            continue
        for (oo, ee), rr, pp in zip(parts, refs, perts):
            oo = np.asarray(oo, dtype=np.float64)
            ee = np.asarray(ee, dtype=np.float64)
            if rr is not None and np.asarray(rr).shape == ee.shape:
                rr = np.asarray(rr, dtype=np.float64)
                d = np.abs(ee - rr)
                d = np.where(np.isfinite(d), d, 0.0)
                refmag = np.where(np.isfinite(rr), np.abs(rr), 0.0)
            else:
                d = np.zeros_like(ee)
                refmag = np.where(np.isfinite(ee), np.abs(ee), 0.0)
            d = d * scale
            if pp is not None and np.asarray(pp).shape == ee.shape:
                dp = np.abs(ee - np.asarray(pp, dtype=np.float64))
                d = np.maximum(d, np.where(np.isfinite(dp), dp, 0.0))
            rms_d = float(np.sqrt(np.mean(d ** 2))) if d.size else 0.0
            rms_r = float(np.sqrt(np.mean(refmag ** 2))) if d.size else 0.0
            tol = K_D * d + K_E * eps * refmag + K_N * (rms_d + eps * rms_r) + K_A * eps
            if declared is not None and not d.any():
                # JAX's own evaluations carry no information (the callable computes in one fixed precision
                # and does not react to a 1-ulp input perturbation): fall back to the tolerance the project
                # declares for this testcase
                tol = np.maximum(tol, declared[1] + declared[0] * np.abs(ee))
                used_declared = True
            nan_e = np.isnan(ee)
            skipped_nan += int(nan_e.sum())
            inf_e = np.isinf(ee)
            if rr is not None and np.asarray(rr).shape == ee.shape:
                overflowed = inf_e & np.isfinite(np.asarray(rr, dtype=np.float64))
                skipped_nan += int(overflowed.sum())       # JAX's own f32 evaluation overflowed
                inf_e = inf_e & ~overflowed
                nan_e = nan_e | overflowed
            if rr is not None and np.asarray(rr).shape == ee.shape:
                with np.errstate(all="ignore"):
                    rrf = np.asarray(rr, dtype=np.float64)
                    noinfo = np.isfinite(ee) & np.isfinite(rrf) & (np.abs(ee - rrf) >= 0.5 * np.maximum(np.abs(ee), np.abs(rrf))) \
                        & (np.maximum(np.abs(ee), np.abs(rrf)) > 0)
                skipped_nan += int(noinfo.sum())   # JAX's own f32 / f64 evaluations disagree by >= 50 %: nothing to compare with
                nan_e = nan_e | noinfo
            singular = inf_e & np.isnan(oo)      # a pole / boundary: JAX says ±inf, ORT says NaN — both "undefined"
            skipped_nan += int(singular.sum())
            inf_e = inf_e & ~singular
            nan_e = nan_e | singular
            fin = ~(nan_e | inf_e)
            bad = np.zeros(ee.shape, dtype=bool)
            with np.errstate(all="ignore"):
                bad |= fin & ~(np.abs(oo - ee) <= tol)          # also catches ORT NaN/inf
                # JAX overflowed to inf: ORT must agree or be at the overflow boundary
                fmax = float(np.finfo(np.float64 if f64 else np.float32).max)
                bad |= inf_e & ~((oo == ee) | (np.sign(oo) == np.sign(ee)) & (np.abs(oo) >= fmax / 4))
            if bad.any():
                with np.errstate(all="ignore"):
                    excess = np.where(bad, np.abs(oo - ee) / np.maximum(tol, 1e-300), 0.0)
                    excess = np.where(np.isfinite(excess), excess, 1e300)
                if float(excess.max()) <= (BORDERLINE_F64 if f64 else BORDERLINE):
                    # within BORDERLINE x the derived tolerance and finite on both sides: numerical noise of a
                    # different but equally valid algorithm cannot be excluded -> counted, not a finding
                    borderline = max(borderline, float(excess.max()))
                    bad = np.zeros(ee.shape, dtype=bool)
            if bad.any():
                at = tuple(int(i) for i in np.argwhere(bad)[0])
                with np.errstate(all="ignore"):
                    excess = np.where(bad, np.abs(oo - ee) / np.maximum(tol, 1e-300), 0.0)
                return {"status": "mismatch", "why": f"output {k}: float values differ beyond JAX's own f32/f64 discrepancy",
                        "output": k, "at": list(at), "ort": float(oo[at]), "jax": float(ee[at]),
                        "jax_ref": None if rr is None else float(np.asarray(rr)[at]),
                        "tol": float(tol[at]), "n_bad": int(bad.sum()), "n": int(bad.size),
                        "max_excess": float(np.nanmax(np.where(np.isfinite(excess), excess, 1e300)))}
            with np.errstate(all="ignore"):
                r = np.where(fin, np.abs(oo - ee) / np.maximum(tol, 1e-300), 0.0)
                if r.size:
                    worst = max(worst, float(np.nanmax(r)))
    return {"status": "ok", "skipped_nan_elements": skipped_nan, "worst_ratio": round(max(worst, borderline), 4),
            "borderline": borderline > 0, "declared_tolerance_fallback": used_declared}


# --------------------------------------------------------------------------------------- one case


class _X64:
    def __init__(self, on: bool):
        self.on = on

    def __enter__(self):
        import jax
        self.prev = bool(jax.config.jax_enable_x64)
        if self.prev != self.on:
            jax.config.update("jax_enable_x64", self.on)

    def __exit__(self, *a):
        import jax
        if self.prev != self.on:
            jax.config.update("jax_enable_x64", self.prev)


def _instantiate(obj, f64: bool):
    if not hasattr(obj, "instantiate"):
        return obj
    with _X64(f64):
        return obj.instantiate()


def export_case(tp: dict, specs, f64: bool):
    from jax2onnx.user_interface import to_onnx
    fn = _instantiate(tp["callable"], f64)
    kwargs = dict(
        fn=fn, inputs=specs, input_params=tp.get("input_params", {}), model_name=tp["testcase"],
        opset=tp.get("opset_version", 23), enable_double_precision=f64,
        inputs_as_nchw=tp.get("inputs_as_nchw"), outputs_as_nchw=tp.get("outputs_as_nchw"),
        input_names=tp.get("input_names"), output_names=tp.get("output_names"),
        normalization_mode=tp.get("normalization_mode", "auto"),
    )
    return fn, to_onnx(**kwargs)


def ort_session(model):
    import onnxruntime as ort
    so = ort.SessionOptions()
    so.graph_optimization_level = ort.GraphOptimizationLevel.ORT_DISABLE_ALL
    so.enable_mem_pattern = False
    so.intra_op_num_threads = 1
    so.inter_op_num_threads = 1
    so.log_severity_level = 4
    return ort.InferenceSession(model.SerializeToString(), so, providers=["CPUExecutionProvider"])


def ort_feed(sess, xs, params, nchw_in):
    import numpy as np
    xs = list(xs)
    if nchw_in:
        for i in nchw_in:
            if 0 <= i < len(xs) and xs[i].ndim == 4:
                xs[i] = np.transpose(xs[i], [0, 3, 1, 2])
    it = iter(xs)
    feed = {}
    tmap = {"tensor(float)": np.float32, "tensor(double)": np.float64, "tensor(int32)": np.int32,
            "tensor(int64)": np.int64, "tensor(bool)": np.bool_, "tensor(uint8)": np.uint8,
            "tensor(int8)": np.int8, "tensor(uint32)": np.uint32, "tensor(uint64)": np.uint64,
            "tensor(int16)": np.int16, "tensor(uint16)": np.uint16, "tensor(float16)": np.float16}
    for meta in sess.get_inputs():
        if meta.name in (params or {}):
            v = np.asarray(params[meta.name])
            dt = tmap.get(meta.type)
            feed[meta.name] = v.astype(dt) if dt is not None else v
        else:
            v = next(it)
            dt = tmap.get(meta.type)
            if np.issubdtype(v.dtype, np.complexfloating) and dt in (np.float32, np.float64):
                v = np.stack([np.real(v), np.imag(v)], axis=-1).astype(dt)   # the exporter's complex layout
            # only value-preserving adaptations (the interface dtype is C05/C09's subject)
            if dt is not None and v.dtype != dt and np.issubdtype(v.dtype, np.integer) and np.issubdtype(dt, np.integer):
                v = v.astype(dt)
            feed[meta.name] = v
    return feed


def _cast_leaves(fn, dtype):
    """For callables that are pytrees (equinox / flax modules): the same callable with its floating array
    leaves cast to `dtype`, so that a float64 evaluation really computes in float64."""
    import jax
    import jax.numpy as jnp
    import numpy as np
    try:
        leaves = jax.tree_util.tree_leaves(fn)
    except Exception:
        return fn
    if not any(hasattr(l, "dtype") and hasattr(l, "shape") for l in leaves) or leaves == [fn]:
        return fn

    def cast(a):
        if hasattr(a, "dtype") and hasattr(a, "astype") and jnp.issubdtype(a.dtype, jnp.floating):
            return jnp.asarray(a).astype(dtype)
        return a
    try:
        return jax.tree_util.tree_map(cast, fn)
    except Exception:
        return fn


def jax_eval(fn, xs, params, f64: bool, cast_callable: bool = False):
    import jax
    import jax.numpy as jnp
    import numpy as np
    with _X64(f64):
        if cast_callable:
            fn = _cast_leaves(fn, jnp.float64 if f64 else jnp.float32)
        args = []
        for x in xs:
            if f64 and np.issubdtype(x.dtype, np.floating):
                x = x.astype(np.float64)
            elif (not f64) and x.dtype == np.float64:
                x = x.astype(np.float32)
            args.append(jnp.asarray(x))
        kw = {k: (v if isinstance(v, (bool, int, float, str)) and not isinstance(v, np.generic) else jnp.asarray(v))
              for k, v in (params or {}).items()}
        with jax.default_matmul_precision("float32"):
            return _flat_outputs(fn(*args, **kw))


def run_case(index: int, seed: int, kinds: list[str], symval: int = 2) -> dict:
    import numpy as np
    tp = load_params()[index]
    cid = case_id(tp)
    f64 = bool(tp.get("_enable_double_precision_test_setting", False))
    res: dict[str, Any] = {"index": index, "id": cid, "f64": f64, "draws": []}
    if tp.get("skip_numeric_validation", False):
        res["status"] = "skipped_by_metadata"
        return res
    t0 = time.time()
    try:
        specs, xs0 = build_inputs(tp, "own", seed, f64, symval)
    except Exception as e:
        res["status"] = "unsupported_inputs"
        res["error"] = f"{type(e).__name__}: {e}"[:300]
        return res
    try:
        fn, model = export_case(tp, specs, f64)
    except Exception as e:
        res["status"] = "export_error"
        res["error"] = f"{type(e).__name__}: {e}"[:400]
        return res
    res["export_s"] = round(time.time() - t0, 2)
    res["ops"] = sorted({n.op_type for n in model.graph.node})[:40]
    try:
        sess = ort_session(model)
    except Exception as e:
        res["status"] = "ort_load_error"
        res["error"] = str(e)[:400]
        return res
    params = tp.get("input_params", {})
    nchw_out = tp.get("outputs_as_nchw")
    worst = "ok"
    comp = tp.get("component")
    if comp in BOUNDED_KINDS:
        kinds = [k for k in kinds if base_kind(k) in BOUNDED_KINDS[comp]]
    if tp.get("context") in EXEMPT_CONTEXT:
        kinds = [k for k in kinds if k == "own"]
    base_name = tp["testcase"][:-4] if tp["testcase"].endswith("_f64") else tp["testcase"]
    kinds = [k for k in kinds if (base_name, base_kind(k)) not in ORACLE_EXEMPT and (base_name, "*") not in ORACLE_EXEMPT]
    if f64:
        declared = (tp.get("rtol_f64", tp.get("rtol", 1e-7)), tp.get("atol_f64", tp.get("atol", 1e-7)))
    else:
        declared = (tp.get("rtol_f32", tp.get("rtol", 1e-5)), tp.get("atol_f32", tp.get("atol", 1e-5)))
    for kind in kinds:
        d: dict[str, Any] = {"kind": kind}
        try:
            _, xs = build_inputs(tp, kind, seed, f64, symval)
        except Exception as e:
            d["status"] = "unsupported_inputs"
            d["error"] = str(e)[:200]
            res["draws"].append(d)
            continue
        d["inputs_digest"] = hashlib.sha1(b"".join(np.ascontiguousarray(x).tobytes() for x in xs)).hexdigest()[:12]
        try:
            j_main = jax_eval(fn, xs, params, f64)
        except Exception as e:
            d["status"] = "jax_error"          # the callable itself rejects the input: out of its domain
            d["error"] = f"{type(e).__name__}: {e}"[:200]
            res["draws"].append(d)
            continue
        if str(comp or "").startswith(LINALG_PREFIXES) and any(
                (np.issubdtype(np.asarray(v).dtype, np.floating) or np.issubdtype(np.asarray(v).dtype, np.complexfloating))
                and not np.isfinite(np.asarray(v)).all() for v in j_main):
            d["status"] = "jax_nonfinite_linalg"      # singular input: out of the callable's domain
            res["draws"].append(d)
            continue
        try:
            j_ref = jax_eval(fn, xs, params, not f64, cast_callable=True)
        except Exception as e:
            try:
                j_ref = jax_eval(fn, xs, params, not f64)
            except Exception as e2:
                j_ref = None
                d["no_ref"] = f"{type(e2).__name__}"[:80]
        j_pert = None
        try:
            prng = Rng(case_seed(seed, cid, kind + "|pert"))
            ueps = float(np.finfo(np.float64 if f64 else np.float32).eps)
            xp = []
            for x in xs:
                if np.issubdtype(x.dtype, np.floating) or np.issubdtype(x.dtype, np.complexfloating):
                    sg = np.asarray([1.0 if prng.below(2) else -1.0 for _ in range(x.size)]).reshape(x.shape)
                    xp.append((x * (1.0 + ueps * sg)).astype(x.dtype))
                else:
                    xp.append(x)
            j_pert = jax_eval(fn, xp, params, f64)
        except Exception:
            j_pert = None
        try:
            out = sess.run(None, ort_feed(sess, xs, params, tp.get("inputs_as_nchw")))
        except Exception as e:
            d["status"] = "ort_run_error"
            d["error"] = str(e)[:300]
            res["draws"].append(d)
            worst = "ort_run_error" if worst == "ok" else worst
            continue
        if nchw_out:
            out = [np.transpose(o, [0, 2, 3, 1]) if (i in nchw_out and np.asarray(o).ndim == 4) else o
                   for i, o in enumerate(out)]
        try:
            c = compare(out, j_main, j_ref, f64, j_pert, declared=declared, unordered=comp in UNORDERED_OUTPUT)
        except Exception as e:
            c = {"status": "compare_error", "error": f"{type(e).__name__}: {e}"[:200]}
        d.update(c)
        if c["status"] == "mismatch":
            worst = "mismatch"
            d["inputs"] = [x.reshape(-1)[:12].tolist() if x.dtype.kind != "c" else
                           [complex(v).__repr__() for v in x.reshape(-1)[:6]] for x in xs]
            d["input_shapes"] = [list(x.shape) for x in xs]
            d["input_dtypes"] = [str(x.dtype) for x in xs]
        res["draws"].append(d)
    res["status"] = worst
    res["wall_s"] = round(time.time() - t0, 2)
    return res


# --------------------------------------------------------------------------------------- worker


def worker_main() -> None:
    _setup_paths()
    import warnings
    warnings.filterwarnings("ignore")
    load_params()
    real_out = os.fdopen(os.dup(1), "w")
    devnull = os.open(os.devnull, os.O_WRONLY)
    os.dup2(devnull, 1)            # keep library chatter out of the protocol
    os.dup2(devnull, 2)
    real_out.write("READY\n")
    real_out.flush()
    served = 0
    for line in sys.stdin:
        line = line.strip()
        if not line:
            continue
        req = json.loads(line)
        if req.get("op") == "quit":
            break
        served += 1
        try:
            r = run_case(req["index"], req["seed"], req["kinds"], req.get("symval", 2))
        except BaseException as e:  # noqa
            r = {"index": req["index"], "status": "harness_error", "error": f"{type(e).__name__}: {e}"[:300]}
        last = served >= 150       # bound the memory of one worker (jax / onnx caches grow)
        if last:
            r["_last"] = True
        real_out.write(json.dumps(r, default=str) + "\n")
        real_out.flush()
        if last:
            break


class Worker:
    def __init__(self):
        env = dict(os.environ)
        self.p = subprocess.Popen([sys.executable, str(Path(__file__).resolve()), "--worker"],
                                  stdin=subprocess.PIPE, stdout=subprocess.PIPE, text=True, env=env,
                                  cwd=str(HERE))
        self.ready = False
        self.job = None
        self.t_job = 0.0

    def alive(self) -> bool:
        return self.p.poll() is None

    def kill(self):
        try:
            self.p.kill()
        except Exception:
            pass


def run_pool(jobs: list[dict], nworkers: int, per_case_timeout: float = 240.0, log=None,
             deadline: Optional[float] = None) -> list[dict]:
    """jobs: [{"index", "seed", "kinds", "symval"}].  Returns results in job order; a case whose
    worker dies is reported as status `crash`, one that exceeds the timeout as `timeout`; cases not
    started before `deadline` are reported as `not_run_deadline`."""
    import selectors
    results: dict[int, dict] = {}
    pending = list(enumerate(jobs))[::-1]
    workers: list[Worker] = [Worker() for _ in range(min(nworkers, max(1, len(jobs))))]
    sel = selectors.DefaultSelector()
    for w in workers:
        sel.register(w.p.stdout, selectors.EVENT_READ, w)

    def assign(w: Worker):
        if deadline is not None and time.time() > deadline:
            while pending:
                j, job = pending.pop()
                results[j] = {"index": job["index"], "status": "not_run_deadline"}
            return
        if pending:
            j, job = pending.pop()
            w.job = (j, job)
            w.t_job = time.time()
            try:
                w.p.stdin.write(json.dumps(job) + "\n")
                w.p.stdin.flush()
            except Exception:
                pass
        else:
            w.job = None

    def replace(w: Worker, status: str):
        sel.unregister(w.p.stdout)
        w.kill()
        if w.job is not None:
            j, job = w.job
            results[j] = {"index": job["index"], "status": status}
        workers.remove(w)
        if pending and (deadline is None or time.time() < deadline):
            nw = Worker()
            workers.append(nw)
            sel.register(nw.p.stdout, selectors.EVENT_READ, nw)

    while len(results) < len(jobs) and workers:
        events = sel.select(timeout=1.0)
        for key, _ in events:
            w: Worker = key.data
            line = w.p.stdout.readline()
            if not line:
                replace(w, "crash")
                continue
            line = line.strip()
            if line == "READY":
                w.ready = True
                assign(w)
                continue
            try:
                r = json.loads(line)
            except Exception:
                continue
            if w.job is not None:
                results[w.job[0]] = r
            if r.pop("_last", False):        # the worker retires itself: start a fresh one
                w.job = None
                replace(w, "retired")
                continue
            assign(w)
        now = time.time()
        for w in list(workers):
            if w.job is not None and now - w.t_job > per_case_timeout:
                replace(w, "timeout")
            elif not w.alive() and w.job is None and not pending:
                pass
        if deadline is not None and now > deadline and pending:
            while pending:
                j, job = pending.pop()
                results[j] = {"index": job["index"], "status": "not_run_deadline"}
        if all(w.job is None for w in workers if w.ready) and not pending and all(w.ready for w in workers):
            break
    for w in workers:
        try:
            w.p.stdin.write('{"op":"quit"}\n')
            w.p.stdin.flush()
        except Exception:
            pass
        w.kill()
    for j, job in enumerate(jobs):
        results.setdefault(j, {"index": job["index"], "status": "not_run"})
    return [results[j] for j in range(len(jobs))]


if __name__ == "__main__":
    if "--worker" in sys.argv:
        worker_main()
    elif "--list" in sys.argv:
        print(json.dumps(list_cases()))
    else:
        # ad-hoc: run given case indices in-process
        _setup_paths()
        for a in sys.argv[1:]:
            print(json.dumps(run_case(int(a), int(os.environ.get("VERIF_SEED", "0")), KINDS), indent=1, default=str))
