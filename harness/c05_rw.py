"""C05 — programs whose OUTPUTS are produced by nodes the optimizer rewrites, and the optimizer probe.

* `live_elementwise()`   the operator sets of the live optimizer module (every set of strings whose name says
                         ELEMENTWISE / ELEMWISE / UNARY...OPS), split into unary / binary; nothing is hard-coded.
* `op_table()`           for every such ONNX operator a JAX spelling that the LIVE converter lowers to a node of that
                         type (probed once per run by exporting `f(x) = op(x)`); operators no spelling reaches are
                         reported in the evidence (`unreached_ops`).
* `apply_chain`          the `chain` leaf of harness/props/c05.py: an elementwise chain (optionally between explicit
                         transposes there and back, a reshape pair, or followed by a cast pair).
* `gen_program/gen_config/directed` pattern-directed generators: layout flags on inputs and/or outputs around chains of
                         every operator, at every chain position, with pairwise different N, H, W, C.
* `OptimizerProbe`       snapshots `graph.outputs` (identity, declared dtype, declared dims) before and after the real
                         optimizer and, when the pass table is reachable, around every single pass.
"""
from __future__ import annotations

import dataclasses
from typing import Any, Optional

import numpy as np

PERMS = {"nchw2nhwc": ((0, 2, 3, 1), (0, 3, 1, 2)), "swap_hw": ((0, 2, 1, 3), (0, 2, 1, 3)),
         "nhwc2nchw": ((0, 3, 1, 2), (0, 2, 3, 1)), "rev": ((3, 2, 1, 0), (3, 2, 1, 0))}
FORMS = ["plain", "plain", "explicit", "reshape_pair", "cast_pair"]


# ----------------------------------------------------------------------------- live operator sets


def live_elementwise() -> dict:
    """Operator names the live optimizer treats as elementwise (union over its module-level sets)."""
    import jax2onnx.converter.ir_optimizations as opt
    sets = {}
    for nm, val in vars(opt).items():
        if isinstance(val, (set, frozenset)) and val and all(isinstance(x, str) for x in val):
            up = nm.upper()
            if "ELEMENTWISE" in up or "ELEMWISE" in up or "UNARY" in up:
                sets[nm] = sorted(val)
    ops = sorted({o for v in sets.values() for o in v if o[:1].isupper()})
    return {"sets": sets, "ops": ops}


def _spellings() -> dict:
    """ONNX operator -> candidate JAX spellings (callables of one array; `@in` variants take (x, x0))."""
    import jax
    import jax.numpy as jnp
    try:
        from flax import nnx
    except Exception:       # flax is optional for the converter
        nnx = None
    nn = jax.nn

    def _b(f):              # scalar side operand
        return f

    def _not(x):
        return jnp.logical_not(x) if x.dtype == jnp.bool_ else jnp.logical_not(x > 0)

    c: dict[str, list] = {
        "Abs": [jnp.abs], "Neg": [jnp.negative], "Exp": [jnp.exp], "Log": [jnp.log], "Sqrt": [jnp.sqrt],
        "Tanh": [jnp.tanh], "Sigmoid": [lambda x: nn.sigmoid(x)], "Not": [_not],
        # (looked up at call time: the converter patches these module attributes while it traces)
        "Relu": ([lambda x: nnx.relu(x)] if nnx else []) + [lambda x: nn.relu(x)],
        "Elu": ([lambda x: nnx.elu(x)] if nnx else []) + [lambda x: nn.elu(x)],
        "Gelu": ([lambda x: nnx.gelu(x, approximate=False), lambda x: nnx.gelu(x)] if nnx else []) + [lambda x: nn.gelu(x)],
        "LeakyRelu": ([lambda x: nnx.leaky_relu(x)] if nnx else []) + [lambda x: nn.leaky_relu(x)],
        "Swish": ([lambda x: nnx.silu(x)] if nnx else []) + [lambda x: nn.silu(x)],
        "Identity": [lambda x: jax.lax.stop_gradient(x)],
        "Cast": [lambda x: x.astype(jnp.int32) if x.dtype != jnp.int32 else x.astype(jnp.float32)],
        "Add": [_b(lambda x: x + 1.5)], "Mul": [_b(lambda x: x * 2.0)], "Sub": [_b(lambda x: x - 0.5)],
        "Div": [_b(lambda x: x / 3.0)], "Max": [_b(lambda x: jnp.maximum(x, 0.1))],
        "Min": [_b(lambda x: jnp.minimum(x, 0.2))], "Clip": [_b(lambda x: jnp.clip(x, -0.5, 0.5))],
    }
    return c


_BIN_NAMES = ("Add", "Mul", "Sub", "Div", "Max", "Min")


def _bin_in(base: str, x, x0):
    """Binary operator whose second operand is the chain's own input (a DAG, not a path)."""
    import jax.numpy as jnp
    return {"Add": lambda: x + x0, "Mul": lambda: x * x0, "Sub": lambda: x - x0,
            "Div": lambda: x / (x0 * x0 + 1.0), "Max": lambda: jnp.maximum(x, x0),
            "Min": lambda: jnp.minimum(x, x0)}[base]()


_TABLE: Optional[dict] = None


def op_table() -> dict:
    """{op: callable} for the live elementwise operators that a JAX spelling reaches through the LIVE converter."""
    global _TABLE
    if _TABLE is not None:
        return _TABLE
    import jax
    import jax.numpy as jnp
    from jax2onnx import to_onnx
    live = live_elementwise()
    cands = _spellings()
    table, unreached = {}, []
    for op in live["ops"]:
        hit = None
        for f in cands.get(op, []):
            spec = jax.ShapeDtypeStruct((2, 3), jnp.bool_) if op == "Not" else (2, 3)
            try:
                m = to_onnx(f, [spec])
            except Exception:
                continue
            if any(n.op_type == op for n in m.graph.node):
                hit = f
                break
        if hit is None:
            unreached.append(op)
        else:
            table[op] = hit
    _TABLE = {"fn": table, "unreached": unreached, "live": live}
    return _TABLE


# ----------------------------------------------------------------------------- the `chain` leaf


def _apply_op(op: str, x, x0):
    tab = op_table()["fn"]
    if op.endswith("@in"):
        base = op[:-3]
        if x0 is None or base not in _BIN_NAMES or getattr(x0, "shape", None) != getattr(x, "shape", None):
            return tab[base](x)
        return _bin_in(base, x, x0)
    return tab[op](x)


def apply_chain(leaf: dict, x):
    """`leaf` = {"op":"chain","arg":i,"ops":[..],"form":..,"perm":..}."""
    import jax.numpy as jnp
    form = leaf.get("form", "plain")
    shape0 = x.shape
    if form == "explicit":
        fwd, inv = PERMS[leaf.get("perm", "nchw2nhwc")]
        x = jnp.transpose(x, fwd)
    elif form == "reshape_pair":
        x = x.reshape((shape0[0], -1, shape0[-1])) if len(shape0) >= 3 else x.reshape((-1,))
    x0 = x
    for op in leaf["ops"]:
        x = _apply_op(op, x, x0)
    if form == "explicit":
        x = jnp.transpose(x, inv)
    elif form == "reshape_pair":
        x = x.reshape(shape0)
    elif form == "cast_pair":
        dt = x.dtype
        mid = jnp.int32 if dt == jnp.bool_ else jnp.float64 if jnp.issubdtype(dt, jnp.floating) else jnp.int64
        x = x.astype(mid).astype(dt)
    return x


# ----------------------------------------------------------------------------- generators

IMG_KINDS = ["img", "imgs", "imgb", "chw", "img7"]


def _ops_for(rng, kind: str, n: int) -> list:
    tab = op_table()
    names = sorted(tab["fn"])
    unary = [o for o in names if o not in _BIN_NAMES and o != "Clip"]
    ops = []
    for k in range(n):
        r = rng.randint(0, 99)
        if kind == "imgb" and k == 0 and "Not" in names:
            ops.append("Not")
        elif r < 60:
            ops.append(rng.choice([o for o in unary if o != "Not" or kind == "imgb"]))
        elif r < 85:
            ops.append(rng.choice([o for o in names if o in _BIN_NAMES or o == "Clip"] or unary))
        else:
            ops.append(rng.choice([o for o in names if o in _BIN_NAMES] or unary) + "@in")
    return ops


_TO_FLOAT = ("Exp", "Log", "Sqrt", "Tanh", "Sigmoid", "Gelu", "Elu", "Relu", "LeakyRelu", "Swish", "Add", "Sub", "Mul", "Div")


def culprit_int_minmax(kind: str, ops: list) -> Optional[str]:
    """First Min/Max/Clip with a Python-float side operand applied to an integer-typed value (JAX promotes to
    float; known finding F-C05-int-minmax-*: the converter keeps the integer type)."""
    st = {"imgb": "b", "bool": "b", "int": "i"}.get(kind, "f")
    for op in ops:
        base = op[:-3] if op.endswith("@in") else op
        if base in ("Min", "Max", "Clip") and not op.endswith("@in") and st == "i":
            return base
        if base == "Cast":
            st = "f" if st == "i" else "i"
        elif base == "Not":
            st = "b"
        elif base in _TO_FLOAT:
            st = "f"
    return None


def sanitize(kind: str, ops: list) -> list:
    """Keep the family on the interface question (which value is declared how after the rewrites) and the value oracle
    meaningful.  Mixed element types are other properties' territory (C09) and hit known dtype defects, so a chain stays
    type-consistent: on a boolean value only Not / Cast / Identity, on an integer value only Abs / Neg / Cast / Identity,
    no Not on floats; no float->int Cast after an operator that can produce NaN (casting NaN is unspecified)."""
    st = {"imgb": "b", "bool": "b", "int": "i"}.get(kind, "f")
    out, nan = [], False
    for op in ops:
        base = op[:-3] if op.endswith("@in") else op
        if st == "b" and base not in ("Not", "Cast", "Identity"):
            op = base = "Not"
        elif st == "i" and base not in ("Abs", "Neg", "Cast", "Identity"):
            op = base = "Abs"
        elif st == "f" and base == "Not":
            op = base = "Neg"
        if st == "f" and base == "Cast" and nan:
            op = base = "Abs"
        if base in ("Log", "Sqrt", "Div"):
            nan = True
        if base == "Cast":
            st = "f" if st == "i" else "i"
            nan = False
        out.append(op)
    return out


def gen_program(rng) -> dict:
    """1-2 image-like inputs with pairwise different extents; 1-3 result leaves, each an elementwise chain over one
    input (or the input itself / a duplicate), in one of the FORMS."""
    n_in = 1 if rng.chance(0.7) else 2
    kinds = [rng.choice(IMG_KINDS) for _ in range(n_in)]
    leaves = []
    for _ in range(rng.randint(1, 3) if rng.chance(0.4) else 1):
        r = rng.randint(0, 99)
        i = rng.randint(0, n_in - 1)
        if r < 8:
            leaves.append({"op": "input", "arg": i})
        elif r < 16 and leaves:
            leaves.append({"op": "dup", "of": rng.randint(0, len(leaves) - 1)})
        else:
            form = rng.choice(FORMS)
            leaf = {"op": "chain", "arg": i, "ops": sanitize(kinds[i], _ops_for(rng, kinds[i], rng.randint(1, 4))), "form": form}
            if form == "explicit":
                leaf["perm"] = rng.choice(sorted(PERMS))
            leaves.append(leaf)
    tree = "single" if len(leaves) == 1 and rng.chance(0.6) else rng.choice(["tuple", "list", "dict"])
    if tree == "single" and leaves[0]["op"] == "dup":
        leaves[0] = {"op": "input", "arg": 0}
    used = [any(l.get("arg") == i for l in leaves) for i in range(n_in)]
    return {"kinds": kinds, "used": used, "leaves": leaves, "tree": tree}


def gen_config(rng, prog: dict, out_ranks: list) -> dict:
    cfg: dict = {"double": rng.chance(0.2)}
    both = rng.chance(0.5)
    nin = [i for i, k in enumerate(prog["kinds"]) if both or rng.chance(0.4)]
    nout = [j for j, r in enumerate(out_ranks) if r == 4 and (both or rng.chance(0.4))]
    if nin:
        cfg["inputs_as_nchw"] = nin
    if nout:
        cfg["outputs_as_nchw"] = nout
    distinct_leaves = not any(l["op"] in ("dup", "input") for l in prog["leaves"])
    if rng.chance(0.3) and distinct_leaves:
        cfg["output_names"] = [f"res_{j}" for j in range(len(out_ranks))]
    if rng.chance(0.2):
        cfg["input_names"] = [f"arg_{chr(97 + i)}" for i in range(len(prog["kinds"]))]
    return cfg


def directed() -> list:
    """Seed-independent: every live elementwise operator as the LAST node of a chain of length 2 and 3 between the
    layout flags / explicit transposes, on a tensor whose four extents differ pairwise."""
    tab = op_table()
    names = sorted(tab["fn"])
    first = "Tanh" if "Tanh" in names else names[0]
    out = []
    P = lambda kinds, leaves, tree="single": {"kinds": kinds, "used": [True] * len(kinds), "leaves": leaves, "tree": tree}
    for k, op in enumerate(names):
        kind = "imgb" if op == "Not" else ("imgs" if k % 2 else "img")
        head = ["Not"] if op == "Not" else [first]
        out.append((P([kind], [{"op": "chain", "arg": 0, "ops": sanitize(kind, head + [op]), "form": "plain"}]),
                    {"inputs_as_nchw": [0], "outputs_as_nchw": [0]}))
        mid = names[(k + 5) % len(names)] if op != "Not" else "Not"
        out.append((P(["chw"], [{"op": "chain", "arg": 0, "ops": sanitize("chw", head + [mid, op]),
                                 "form": "explicit", "perm": "nchw2nhwc"}]), {}))
    # forests, aliases and duplicates around the flags
    c2 = {"op": "chain", "arg": 0, "ops": [first, "Abs" if "Abs" in names else first], "form": "plain"}
    c3 = {"op": "chain", "arg": 0, "ops": ["Neg" if "Neg" in names else first, "Exp" if "Exp" in names else first,
                                          "Add@in"], "form": "plain"}
    out += [
        # known finding F-C05-int-minmax-*: an integer value against a Python float
        (P(["int"], [{"op": "chain", "arg": 0, "ops": ["Min"], "form": "plain"}]), {}),
        (P(["img"], [c2, c3], "tuple"), {"inputs_as_nchw": [0], "outputs_as_nchw": [0, 1]}),
        (P(["img"], [c2, c3], "tuple"), {"inputs_as_nchw": [0], "outputs_as_nchw": [1], "output_names": ["res_0", "res_1"]}),
        (P(["imgs"], [{"op": "input", "arg": 0}], "single"), {"inputs_as_nchw": [0], "outputs_as_nchw": [0]}),
        (P(["imgs"], [{"op": "input", "arg": 0}, c2], "tuple"), {"inputs_as_nchw": [0], "outputs_as_nchw": [0, 1]}),
        (P(["img"], [c2, {"op": "dup", "of": 0}], "tuple"), {"inputs_as_nchw": [0], "outputs_as_nchw": [0]}),
        (P(["img"], [c2, {"op": "dup", "of": 0}], "tuple"), {"inputs_as_nchw": [0], "outputs_as_nchw": [0, 1]}),
        (P(["img7"], [dict(c3, form="reshape_pair")], "single"), {"outputs_as_nchw": [0]}),
        (P(["img7"], [dict(c2, form="reshape_pair")], "single"), {"inputs_as_nchw": [0]}),
        (P(["imgb"], [{"op": "chain", "arg": 0, "ops": ["Not", "Not"], "form": "cast_pair"}], "single"),
         {"inputs_as_nchw": [0], "outputs_as_nchw": [0]}),
        (P(["img"], [dict(c2, form="cast_pair")], "single"), {"inputs_as_nchw": [0], "outputs_as_nchw": [0], "double": True}),
        (P(["chw"], [dict(c2, form="explicit", perm="rev")], "single"), {"output_names": ["res_0"]}),
        (P(["chw", "img"], [dict(c2, form="explicit", perm="swap_hw"), dict(c3, arg=1)], "tuple"),
         {"inputs_as_nchw": [1], "outputs_as_nchw": [1], "input_names": ["arg_a", "arg_b"], "output_names": ["res_0", "res_1"]}),
    ]
    return out


# ----------------------------------------------------------------------------- optimizer probe


def _dims_of(v) -> Optional[list]:
    sh = getattr(v, "shape", None)
    if sh is None:
        return None
    out = []
    for d in sh.dims if hasattr(sh, "dims") else list(sh):
        if isinstance(d, (int, np.integer)):
            out.append(int(d))
        else:
            val = getattr(d, "value", d)
            out.append(None if val is None else str(val))
    return out


def snapshot(graph) -> list:
    snap = []
    for v in graph.outputs:
        dt = getattr(v, "dtype", None)
        snap.append({"id": id(v), "name": v.name, "dtype": int(dt.value) if dt is not None else 0, "dims": _dims_of(v)})
    return snap


class OptimizerProbe:
    """While active, every run of the real optimizer records (stage, outputs before, outputs after); with the pass
    table reachable also one record per pass on the top graph.  Only module attributes are wrapped; restored on exit."""

    def __init__(self):
        self.records: list = []
        self.mode = "none"
        self._undo: list = []
        self._keep: list = []     # keeps snapshotted values alive so that id() stays unique within one export

    def _wrap_whole(self, fn):
        def wrapped(model, *a, **k):
            self._keep.append(list(model.graph.outputs))
            before = snapshot(model.graph)
            try:
                return fn(model, *a, **k)
            finally:
                self._keep.append(list(model.graph.outputs))
                self.records.append(("optimize_graph", before, snapshot(model.graph)))
        return wrapped

    def _wrap_pass(self, name, fn, is_model):
        def wrapped(obj, *a, **k):
            graph = obj.graph if is_model else obj
            top = self._top is not None and graph is self._top
            if top:
                self._keep.append(list(graph.outputs))
                before = snapshot(graph)
            try:
                return fn(obj, *a, **k)
            finally:
                if top:
                    self._keep.append(list(graph.outputs))
                    self.records.append((name, before, snapshot(graph)))
        return wrapped

    def __enter__(self):
        import jax2onnx.converter.conversion_api as api
        import jax2onnx.converter.ir_optimizations as opt
        self._top = None
        target = None
        for mod in (api, opt):
            if callable(getattr(mod, "optimize_graph", None)):
                target = target or mod
        if target is None:
            return self
        self.mode = "whole"
        orig_api = getattr(api, "optimize_graph", None)
        orig_opt = getattr(opt, "optimize_graph", None)
        base = orig_opt or orig_api

        def whole(model, *a, **k):
            self._top = model.graph
            try:
                return self._wrap_whole(base)(model, *a, **k)
            finally:
                self._top = None
        if orig_api is not None:
            api.optimize_graph = whole
            self._undo.append((api, "optimize_graph", orig_api))
        if orig_opt is not None:
            opt.optimize_graph = whole
            self._undo.append((opt, "optimize_graph", orig_opt))
        passes = getattr(opt, "_OPTIMIZER_PASSES", None)
        try:
            if isinstance(passes, tuple) and passes and all(dataclasses.is_dataclass(p) for p in passes):
                new = []
                for p in passes:
                    kw = {}
                    if getattr(p, "model_runner", None) is not None:
                        kw["model_runner"] = self._wrap_pass(p.name, p.model_runner, True)
                    if getattr(p, "graph_runner", None) is not None:
                        kw["graph_runner"] = self._wrap_pass(p.name, p.graph_runner, False)
                    new.append(dataclasses.replace(p, **kw))
                opt._OPTIMIZER_PASSES = tuple(new)
                self._undo.append((opt, "_OPTIMIZER_PASSES", passes))
                self.mode = "per-pass"
        except Exception:
            pass
        return self

    def __exit__(self, *exc):
        for mod, nm, val in reversed(self._undo):
            setattr(mod, nm, val)
        self._undo.clear()
        return False

    def take(self) -> list:
        r, self.records = self.records, []
        self._keep.clear()
        return r


def history_of(before: list, after: list) -> Optional[dict]:
    """The change of the output list over one stage as model steps: `rauw old new` for every output whose value
    changed, `setDecl v d` for every output whose declaration changed in place.  None = nothing changed."""
    if len(before) != len(after):
        return {"length_changed": [len(before), len(after)]}
    ids: dict = {}

    def nid(x):
        return ids.setdefault(x, len(ids))
    steps, decl = [], {}
    for b in before:
        decl[nid(b["id"])] = [b["dtype"], _sd(b["dims"])]
    for b, a in zip(before, after):
        if a["id"] != b["id"]:
            decl.setdefault(nid(a["id"]), [a["dtype"], _sd(a["dims"])])
            st = {"k": "rauw", "old": nid(b["id"]), "new": nid(a["id"])}
            if st not in steps:
                steps.append(st)
        elif [a["dtype"], _sd(a["dims"])] != [b["dtype"], _sd(b["dims"])]:
            steps.append({"k": "setDecl", "v": nid(b["id"]), "dtype": a["dtype"], "dims": _sd(a["dims"])})
    if not steps:
        return None
    return {"outs": [nid(b["id"]) for b in before], "decl": [[k, v[0], v[1]] for k, v in decl.items()], "steps": steps,
            "after_outs": [nid(a["id"]) for a in after],
            "after_iface": [[a["dtype"], _sd(a["dims"])] for a in after]}


def _sd(dims) -> list:
    return ["?"] if dims is None else ["" if d is None else str(d) for d in dims]
