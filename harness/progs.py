"""Program × configuration generator producing REAL exports of /repo's `to_onnx` (shared by the checks
of C03, C11 and C08).

Programs
  * tree programs: a JSON-able expression tree interpreted into a JAX function
    (`build_tree`): shape-preserving unary ops composed with lax.fori_loop / while_loop / scan /
    cond at arbitrary nesting, closures over outer values, calls of module-level `@onnx_function`s
    (which themselves contain loops / conds / nested calls);
  * named flat programs (reductions, matmul, reshape/transpose, concat, where, softmax, silu, …);
  * plugin testcases enumerated through /repo/tests/t_generator.py (≈ 3 100 parameter sets).
Configurations: opset 21..max, enable_double_precision, symbolic batch dimension,
inputs_as_nchw / outputs_as_nchw (rank-4 programs), return mode proto / ir / file.

Every program and configuration is a plain JSON description, so a replay file can rebuild it.
Exports are cached per process.  An export that raises is recorded as `error` (loud failure is
C16's subject, not a finding here).
"""
from __future__ import annotations

import json
import logging
import os
import shutil
import tempfile
import time
import warnings
from dataclasses import dataclass, field
from typing import Any, Callable, Optional

warnings.filterwarnings("ignore")

import numpy as np

import common

common.use_repo()
logging.disable(logging.CRITICAL)

import jax  # noqa: E402
import jax.numpy as jnp  # noqa: E402
from jax import lax  # noqa: E402
import onnx  # noqa: E402

from jax2onnx import onnx_function, to_onnx  # noqa: E402

BASELINE_OPSET = 21


def max_opset() -> int:
    return int(onnx.defs.onnx_opset_version())


# ----------------------------------------------------------------------------- @onnx_function s
# (module level: a decorated function must be reachable as a module attribute)


@onnx_function
def fn_leaf(x):
    return jnp.tanh(x) * 3.0


@onnx_function
def fn_two(x):
    return fn_leaf(x) + fn_leaf(x * 2.0)


@onnx_function
def fn_loop(a):
    return lax.fori_loop(0, 3, lambda i, c: c * 1.1 + 1.0, a)


@onnx_function
def fn_cond(a):
    return lax.cond(a.sum() > 0, lambda z: z + 1.0, lambda z: z * 2.0, a)


@onnx_function
def fn_while_scan(a):
    def body(s):
        i, v = s
        c, ys = lax.scan(lambda c, q: (c + q, c * q), v, jnp.stack([v, v + 1.0]))
        return i + 1, c + ys.sum(0)
    return lax.while_loop(lambda s: s[0] < 2, body, (0, a))[1]


@onnx_function
def fn_deep3(a):
    return fn_two(a) * 2.0


@onnx_function
def fn_deep4(a):
    return fn_deep3(a) + fn_loop(a)


@onnx_function
def fn_binary(a, b):
    return jnp.sin(a) * b + a


# different targets that SHARE a display name (type= / name= override) but differ in signature: every call
# site must still resolve to a definition of its own arity


@onnx_function(type="Block")
def fn_blk_gate(x):
    return jnp.sin(x)


@onnx_function(type="Block")
def fn_blk_mix(x, y):
    return x * y + 2.0


@onnx_function(type="Block")
def fn_blk_three(x, y, z):
    # (multi-output @onnx_function targets are refused by the exporter, so the third variant differs in arity)
    return jnp.where(x > 0, y, z)


@onnx_function(name="Shared")
def fn_named_a(x):
    return jnp.tanh(x) + 0.5


@onnx_function(name="Shared")
def fn_named_b(x, y, z):
    return x + y * z


@onnx_function(type="UBlock", unique=True)
def fn_ublk_a(x):
    return jnp.cos(x)


@onnx_function(type="UBlock", unique=True)
def fn_ublk_b(x, y):
    return x - y


@onnx_function
def fn_outer_blk(x):
    # nested use: the 1-input "Block" is instantiated inside another function body
    return fn_blk_gate(x) + 1.0


@onnx_function
def fn_outer_blk2(x):
    return fn_blk_mix(fn_blk_three(x, x + 1.0, x * 2.0), x)


FUNCS: dict[str, Callable] = {
    "leaf": fn_leaf, "two": fn_two, "loop": fn_loop, "cond": fn_cond, "while_scan": fn_while_scan,
    "deep3": fn_deep3, "deep4": fn_deep4,
}

# ----------------------------------------------------------------------------- tree programs

UNARY: dict[str, Callable] = {
    "sin": jnp.sin, "tanh": jnp.tanh, "neg": lambda x: -x, "mul2": lambda x: x * 2.0,
    "add1": lambda x: x + 1.0, "sq": lambda x: x * x, "relu": jax.nn.relu,
    "gauss": lambda x: jnp.exp(-(x * x)), "abs": jnp.abs, "silu": jax.nn.silu,
    "xsig": lambda x: x * jax.nn.sigmoid(x), "softmax": lambda x: jax.nn.softmax(x, axis=-1),
    "meanc": lambda x: x - x.mean(axis=-1, keepdims=True),
    "maxc": lambda x: x - x.max(axis=-1, keepdims=True),
    "sumb": lambda x: x + x.sum(axis=-1, keepdims=True) * 0.1,
    "clip": lambda x: jnp.clip(x, -1.0, 1.0), "where": lambda x: jnp.where(x > 0, x, x * 0.1),
    "tt": lambda x: jnp.swapaxes(jnp.swapaxes(x, -1, -2) * 2.0, -1, -2),
    "resh": lambda x: (x.reshape((-1,)) + 1.0).reshape(x.shape),
    "cast": lambda x: x.astype(jnp.int32).astype(x.dtype) + x,
    "sqrt": lambda x: jnp.sqrt(jnp.abs(x) + 1.0), "log1p": lambda x: jnp.log1p(jnp.abs(x)),
}


def build_tree(tree, outer: Optional[list] = None) -> Callable:
    """Interpret an expression tree into a function array -> array (shape preserving).
    `outer` = stack of traced values of enclosing scopes a `clos` leaf may capture."""
    kind = tree[0]
    if kind == "seq":
        parts = [t for t in tree[1]]

        def f(x, _outer=outer):
            for t in parts:
                x = build_tree(t, _outer)(x)
            return x
        return f
    if kind == "un":
        return UNARY[tree[1]]
    if kind == "clos":                    # capture a value of an enclosing scope
        depth = int(tree[1])

        def f(x, _outer=outer):
            if not _outer:
                return x * 0.5
            return x + _outer[max(0, len(_outer) - 1 - depth)] * 0.25
        return f
    if kind == "fn":
        return FUNCS[tree[1]]
    if kind == "fn2":                     # binary function applied to (x, captured/outer value)
        def f(x, _outer=outer):
            other = _outer[-1] if _outer else x * 0.5
            return fn_binary(x, other)
        return f
    if kind == "fori":
        n, body = int(tree[1]), tree[2]

        def f(x, _outer=outer):
            st = (_outer or []) + [x]
            return lax.fori_loop(0, n, lambda i, c: build_tree(body, st)(c), x)
        return f
    if kind == "fori_i":                  # body uses the induction variable
        n, body = int(tree[1]), tree[2]

        def f(x, _outer=outer):
            st = (_outer or []) + [x]
            return lax.fori_loop(0, n, lambda i, c: build_tree(body, st)(c) + i.astype(c.dtype), x)
        return f
    if kind == "fori_lo":                 # non-zero lower bound; the body uses the induction variable
        lo, hi, body = int(tree[1]), int(tree[2]), tree[3]

        def f(x, _outer=outer):
            st = (_outer or []) + [x]
            return lax.fori_loop(lo, hi, lambda i, c: build_tree(body, st)(c) + i.astype(c.dtype) * 0.5, x)
        return f
    if kind == "while":
        n, body = int(tree[1]), tree[2]

        def f(x, _outer=outer):
            st = (_outer or []) + [x]
            return lax.while_loop(lambda s: s[0] < n,
                                  lambda s: (s[0] + 1, build_tree(body, st)(s[1])), (0, x))[1]
        return f
    if kind == "scan":
        n, body = int(tree[1]), tree[2]

        def f(x, _outer=outer):
            st = (_outer or []) + [x]
            xs = jnp.stack([x + float(k) for k in range(n)])
            c, ys = lax.scan(lambda c, t: (build_tree(body, st)(c) + t, c * t), x, xs)
            return c + ys.sum(0)
        return f
    if kind == "cond":
        tb, eb = tree[1], tree[2]

        def f(x, _outer=outer):
            st = (_outer or []) + [x]
            return lax.cond(x.sum() > 0, build_tree(tb, st), build_tree(eb, st), x)
        return f
    if kind == "switch":
        branches = tree[1]

        def f(x, _outer=outer):
            st = (_outer or []) + [x]
            idx = jnp.clip(x.sum().astype(jnp.int32), 0, len(branches) - 1)
            return lax.switch(idx, [build_tree(b, st) for b in branches], x)
        return f
    raise ValueError(f"unknown tree node {kind}")


def tree_depth(tree) -> int:
    k = tree[0]
    if k == "seq":
        return max([tree_depth(t) for t in tree[1]] + [0])
    if k in ("fori", "fori_i", "while", "scan"):
        return 1 + tree_depth(tree[2])
    if k == "fori_lo":
        return 1 + tree_depth(tree[3])
    if k == "cond":
        return 1 + max(tree_depth(tree[1]), tree_depth(tree[2]))
    if k == "switch":
        return 1 + max(tree_depth(b) for b in tree[1])
    return 0


def tree_kinds(tree, acc: Optional[set] = None) -> set:
    acc = set() if acc is None else acc
    k = tree[0]
    acc.add(k if k not in ("un",) else "un")
    if k == "seq":
        for t in tree[1]:
            tree_kinds(t, acc)
    elif k in ("fori", "fori_i", "while", "scan"):
        tree_kinds(tree[2], acc)
    elif k == "fori_lo":
        tree_kinds(tree[3], acc)
    elif k == "cond":
        tree_kinds(tree[1], acc)
        tree_kinds(tree[2], acc)
    elif k == "switch":
        for b in tree[1]:
            tree_kinds(b, acc)
    return acc


def random_tree(rng: common.Rng, depth: int, in_cf: bool = False, allow_fn: bool = True) -> list:
    """Random expression tree with control-flow nesting up to `depth`."""
    n_items = rng.randint(1, 3)
    items = []
    for _ in range(n_items):
        r = rng.randint(0, 99)
        if depth > 0 and r < 45:
            k = rng.choice(["fori", "fori_i", "fori_lo", "while", "scan", "cond", "cond", "while", "scan"])
            if k == "fori_lo":
                lo = rng.choice([-3, -1, 1, 2, 5])
                items.append([k, lo, lo + rng.randint(1, 3), random_tree(rng, depth - 1, True, allow_fn)])
            elif k in ("fori", "fori_i", "while", "scan"):
                items.append([k, rng.randint(1, 3), random_tree(rng, depth - 1, True, allow_fn)])
            else:
                items.append(["cond", random_tree(rng, depth - 1, True, allow_fn),
                              random_tree(rng, depth - 1, True, allow_fn)])
        elif r < 55 and in_cf:
            items.append(["clos", rng.randint(0, 2)])
        elif r < 65 and allow_fn and not in_cf:
            # function calls inside control-flow bodies are refused by the exporter
            # ("Function registry missing"), so they are generated at top level only
            items.append(["fn", rng.choice(sorted(FUNCS))])
        else:
            items.append(["un", rng.choice(sorted(UNARY))])
    return ["seq", items]


# ----------------------------------------------------------------------------- named programs


def _p_reduce(x):
    return (jnp.sum(x, axis=-1), jnp.mean(x, axis=0), jnp.max(x, axis=-1, keepdims=True),
            jnp.min(x), jnp.prod(x, axis=-1))


def _p_matmul(x, w):
    return jnp.tanh(x @ w) @ w.T


def _p_layout(x):
    y = jnp.transpose(x, (0, 2, 1))
    y = jax.nn.relu(y)
    y = jnp.transpose(y, (0, 2, 1))
    return y.reshape((x.shape[0], -1)), jnp.concatenate([x, x * 2.0], axis=1)


def _p_int(x):
    y = x.astype(jnp.int32)
    return (y * 2 + 1, jnp.cumsum(y, axis=-1), (y > 0) & (y < 3))


def _p_two_out_loop(x):
    def body(i, s):
        a, b = s
        return a + b, b * 0.5
    a, b = lax.fori_loop(0, 3, body, (x, x + 1.0))
    return a, b, a.sum()


def _p_scan_out(xs):
    return lax.scan(lambda c, x: (c + x, c * x), jnp.zeros(xs.shape[1:], xs.dtype), xs)


def _p_while_closure(x):
    y = x * 2.0
    return lax.while_loop(lambda s: s[0] < 3, lambda s: (s[0] + 1, s[1] + y), (0, x))[1]


def _p_cond_closure2(x):
    y = x * 2.0

    def t(a):
        z = a + 1.0
        return lax.cond(a.sum() > 1, lambda b: b + y + z, lambda b: b - y, a)
    return lax.cond(x.sum() > 0, t, lambda a: a - y, x)


def _p_fn_mix(x):
    return fn_deep4(x) + fn_leaf(x) + fn_cond(x) + fn_while_scan(x)


def _p_fn_binary(x, y):
    return fn_binary(x, y) + fn_binary(y, x)


def _p_nhwc(x):
    y = jax.nn.relu(x) * 2.0
    return lax.fori_loop(0, 2, lambda i, c: c * 0.5 + 1.0, y)


def _p_broadcast(x, b):
    return (x + b) * (x - b[None, :][0]), jnp.broadcast_to(b, x.shape) + 1.0


def _p_dynslice(x):
    return lax.dynamic_slice(x, (0, 1), (x.shape[0], 2)), x[:, ::2], jnp.flip(x, axis=1)


def _p_softmax_ln(x):
    m = x.mean(axis=-1, keepdims=True)
    v = ((x - m) ** 2).mean(axis=-1, keepdims=True)
    return jax.nn.softmax((x - m) / jnp.sqrt(v + 1e-5), axis=-1), jax.nn.gelu(x), jax.nn.silu(x)


def _p_const_fold(x):
    c = jnp.arange(3, dtype=x.dtype) * 0.5 + 1.0
    return x * c + jnp.ones_like(x), jnp.zeros((2, 2), x.dtype)


def _p_same_flat(x):
    return fn_blk_mix(fn_blk_gate(x), x)


def _p_same_flat_rev(x):
    return fn_blk_gate(fn_blk_mix(x, x * 0.5))


def _p_same_nested(x):
    return fn_blk_mix(fn_outer_blk(x), x)


def _p_same_three(x):
    a = fn_blk_three(x, x + 1.0, x * 2.0)
    return fn_blk_mix(fn_blk_gate(a), x) + fn_outer_blk2(x)


def _p_same_named(x):
    return fn_named_b(fn_named_a(x), x, fn_named_a(x * 2.0))


def _p_same_unique(x):
    return fn_ublk_b(fn_ublk_a(x), fn_ublk_a(x + 1.0)) + fn_blk_gate(x)


def _p_same_in_loop_fn(x):
    return fn_loop(fn_blk_gate(x)) + fn_blk_mix(x, fn_cond(x))


def _p_fori_offset_index(x):
    # prefix doubling that starts at index 1 (non-zero lower bound, body indexes with i)
    return lax.fori_loop(1, 3, lambda i, s: s.at[i].set(s[i - 1] * 2.0), x)


def _p_fori_negative(x):
    return lax.fori_loop(-2, 2, lambda i, s: s * 0.5 + i.astype(s.dtype), x)


NAMED: dict[str, tuple[Callable, list]] = {
    # name: (fn, input shapes with "B" as the batch symbol)
    "reduce": (_p_reduce, [("B", 3)]),
    "matmul": (_p_matmul, [("B", 3), (3, 4)]),
    "layout": (_p_layout, [("B", 3, 4)]),
    "int_ops": (_p_int, [("B", 3)]),
    "two_out_loop": (_p_two_out_loop, [("B", 3)]),
    "scan_out": (_p_scan_out, [(4, "B", 3)]),
    "while_closure": (_p_while_closure, [("B", 3)]),
    "cond_closure2": (_p_cond_closure2, [("B", 3)]),
    "fn_mix": (_p_fn_mix, [("B", 3)]),
    "fn_binary": (_p_fn_binary, [("B", 3), ("B", 3)]),
    "nhwc": (_p_nhwc, [("B", 4, 4, 3)]),
    "broadcast": (_p_broadcast, [("B", 3), (3,)]),
    "dynslice": (_p_dynslice, [("B", 4)]),
    "softmax_ln": (_p_softmax_ln, [("B", 3)]),
    "const_fold": (_p_const_fold, [("B", 3)]),
    "same_flat": (_p_same_flat, [("B", 3)]),
    "same_flat_rev": (_p_same_flat_rev, [("B", 3)]),
    "same_nested": (_p_same_nested, [("B", 3)]),
    "same_three": (_p_same_three, [("B", 3)]),
    "same_named": (_p_same_named, [("B", 3)]),
    "same_unique": (_p_same_unique, [("B", 3)]),
    "same_in_loop_fn": (_p_same_in_loop_fn, [("B", 3)]),
    "fori_offset_index": (_p_fori_offset_index, [(3,)]),
    "fori_negative": (_p_fori_negative, [("B", 3)]),
}

# ---- programs that need the runtime size of a symbolic dim AFTER a control-flow op whose results no
#      longer carry it (kind "dimuse": cf × reduction × use)

DIMUSE_CF = ["cond", "while", "fori", "scan", "while_closure", "cond_closure"]
DIMUSE_RED = ["sum", "max", "mean"]
DIMUSE_USE = ["zeros", "arange", "broadcast", "reshape", "ones1d"]


def build_dimuse(cf: str, red: str, use: str) -> tuple[Callable, list]:
    redf = {"sum": lambda a: a.sum(axis=0), "max": lambda a: a.max(axis=0), "mean": lambda a: a.mean(axis=0)}[red]

    def after(dimsrc, s):
        n = dimsrc.shape[0]
        if use == "zeros":
            return jnp.zeros((n, 2), s.dtype)
        if use == "arange":
            return jnp.arange(n).astype(s.dtype)
        if use == "broadcast":
            return jnp.broadcast_to(s, (n, s.shape[-1]))
        if use == "reshape":
            return jnp.ones((n, 2), s.dtype).reshape((n * 2,))
        return jnp.ones((n,), s.dtype) * 3.0

    if cf == "cond":
        def f(x):
            s = lax.cond(x.sum() > 0, lambda a: redf(a), lambda a: redf(a * 2.0), x)
            return s, after(x, s)
        return f, [("B", 4)]
    if cf == "cond_closure":
        def f(x, w):
            s = lax.cond(x.sum() > 0, lambda a: a + redf(w), lambda a: a - redf(w), x.sum(axis=0))
            return s, after(w, s)
        return f, [("B", 4), ("T", 4)]
    if cf == "while":
        def f(x):
            s = lax.while_loop(lambda c: c[0] < 3, lambda c: (c[0] + 1, c[1] + redf(x)), (0, redf(x)))[1]
            return s, after(x, s)
        return f, [("B", 4)]
    if cf == "while_closure":
        def f(x, w):
            y = lax.while_loop(lambda c: c.sum() < 100.0, lambda c: c + redf(w) + 1.0, x)
            return y, after(w, redf(y))
        return f, [("B", 4), ("T", 4)]
    if cf == "fori":
        def f(x):
            s = lax.fori_loop(0, 3, lambda i, c: c * 0.5 + 1.0, redf(x))
            return s, after(x, s)
        return f, [("B", 4)]
    if cf == "scan":
        def f(x):
            c, ys = lax.scan(lambda c, t: (c + t, c * t), redf(x), jnp.stack([redf(x), redf(x) + 1.0]))
            return c, after(x, c)
        return f, [("B", 4)]
    raise ValueError(cf)

# ---- opset-gated components (kind "gated"): component × control-flow wrapper × element type; exported with a
#      normalization_mode.  Shape (2, 6); every component preserves shape and dtype.

GATED_DTYPES = {"f32": jnp.float32, "f16": jnp.float16, "bf16": jnp.bfloat16}
GATED_WRAPS = ["top", "scan", "fori", "cond", "while", "scan_cond"]
_GATED_CACHE: dict = {}


def _gated_component(comp: str, dtype) -> Callable:
    key = (comp, str(dtype))
    if key in _GATED_CACHE:
        return _GATED_CACHE[key]
    from flax import linen, nnx

    def keep(f):
        return lambda x: f(x).astype(x.dtype)

    if comp == "rms_nnx":
        m = nnx.RMSNorm(6, rngs=nnx.Rngs(0))
        f = keep(lambda x: m(x))
    elif comp == "ln_nnx":
        m = nnx.LayerNorm(6, rngs=nnx.Rngs(0))
        f = keep(lambda x: m(x))
    elif comp == "rms_linen":
        half = dtype != jnp.float32
        m = linen.RMSNorm(dtype=dtype, param_dtype=dtype, force_float32_reductions=not half) if half \
            else linen.RMSNorm()
        v = m.init(jax.random.PRNGKey(0), jnp.ones((2, 6), dtype))
        f = keep(lambda x: m.apply(v, x))
    elif comp == "ln_linen":
        half = dtype != jnp.float32
        m = linen.LayerNorm(dtype=dtype, param_dtype=dtype, force_float32_reductions=not half) if half \
            else linen.LayerNorm()
        v = m.init(jax.random.PRNGKey(0), jnp.ones((2, 6), dtype))
        f = keep(lambda x: m.apply(v, x))
    elif comp == "silu":
        f = keep(jax.nn.silu)
    elif comp == "xsig":
        f = keep(lambda x: x * jax.nn.sigmoid(x))
    elif comp == "gelu":
        f = keep(lambda x: jax.nn.gelu(x, approximate=False))
    elif comp == "softmax":
        f = keep(lambda x: jax.nn.softmax(x, axis=-1))
    elif comp == "meanvar":
        f = keep(lambda x: (x - x.mean(axis=-1, keepdims=True)) * jnp.sqrt(x.var(axis=-1, keepdims=True) + 1.0))
    elif comp == "attention":
        def att(x):
            q = x.reshape((1, 2, 2, 3))
            return nnx.dot_product_attention(q, q, q).reshape(x.shape)
        f = keep(att)
    elif comp == "dus":
        f = keep(lambda x: lax.dynamic_update_slice(x, jnp.ones((2, 2), x.dtype), (0, 1)))
    elif comp == "iota":
        f = keep(lambda x: x + lax.iota(x.dtype, 6))
    elif comp == "arange":
        f = keep(lambda x: x + jnp.arange(6, dtype=x.dtype))
    elif comp == "arange_dyn":
        f = keep(lambda x: x + jnp.arange(x.shape[-1], dtype=x.dtype) * 0.5)
    elif comp == "cumsum":
        f = keep(lambda x: jnp.cumsum(x, axis=-1))
    elif comp == "logsumexp":
        f = keep(lambda x: x - jax.nn.logsumexp(x, axis=-1, keepdims=True))
    else:
        raise ValueError(comp)
    _GATED_CACHE[key] = f
    return f


GATED_COMPS = ["rms_nnx", "ln_nnx", "rms_linen", "ln_linen", "silu", "xsig", "gelu", "softmax", "meanvar",
               "attention", "dus", "iota", "arange", "arange_dyn", "cumsum", "logsumexp"]


def build_gated(comp: str, wrap: str, dtype_name: str) -> tuple[Callable, list]:
    dtype = GATED_DTYPES[dtype_name]
    c = _gated_component(comp, dtype)
    if wrap == "top":
        f = c
    elif wrap == "scan":
        def f(x):
            return lax.scan(lambda s, _: ((c(s) * 0.5 + 0.25).astype(s.dtype), s), x, None, length=2)[1]
    elif wrap == "fori":
        def f(x):
            return lax.fori_loop(0, 2, lambda i, s: c(s), x)
    elif wrap == "cond":
        def f(x):
            return lax.cond(x.sum() > 0, c, lambda a: (a * 0.5).astype(a.dtype), x)
    elif wrap == "while":
        def f(x):
            return lax.while_loop(lambda s: s[0] < 2, lambda s: (s[0] + 1, c(s[1])), (0, x))[1]
    elif wrap == "scan_cond":
        def f(x):
            def body(s, _):
                s2 = lax.cond(s.sum() > 0, c, lambda a: (a * 0.5).astype(a.dtype), s)
                return s2, s2
            return lax.scan(body, x, None, length=2)[1]
    else:
        raise ValueError(wrap)
    return f, [jax.ShapeDtypeStruct((2, 6), dtype)]


# ---- layout chains (kind "layout"): a NON-symmetric transpose pair (NHWC<->NCHW) or a reshape pair around a
#      chain of 1..3 operators drawn from the optimizer's LIVE op sets (so that new members are exercised)

JAX_OF_ONNX: dict[str, Callable] = {
    "Exp": lambda x: jnp.exp(x * 0.1), "Log": lambda x: jnp.log(jnp.abs(x) + 1.0),
    "Sqrt": lambda x: jnp.sqrt(jnp.abs(x) + 1.0), "Abs": jnp.abs, "Neg": lambda x: -x,
    "Elu": jax.nn.elu, "Gelu": lambda x: jax.nn.gelu(x, approximate=False), "Relu": jax.nn.relu,
    "Sigmoid": jax.nn.sigmoid, "Swish": jax.nn.silu, "Tanh": jnp.tanh,
    "LeakyRelu": lambda x: jax.nn.leaky_relu(x, 0.1), "Identity": lambda x: x,
    "Cast": lambda x: x.astype(jnp.int32).astype(x.dtype),
    "Not": lambda x: jnp.where(~(x > 0), x, x * 0.5),
    "Max": lambda x: jnp.maximum(x, 0.5), "Min": lambda x: jnp.minimum(x, 0.5),
    "Clip": lambda x: jnp.clip(x, -0.5, 0.5), "Add": lambda x: x + 1.5, "Mul": lambda x: x * 1.5,
    "Sub": lambda x: x - 0.25, "Div": lambda x: x / 3.0,
}


def live_layout_ops() -> tuple[list[str], list[str]]:
    """(operators of the optimizer's live op sets that have a JAX counterpart here, those without)"""
    import jax2onnx.converter.ir_optimizations as opt
    live = set()
    for nm in ("ALLOWED_ELEMWISE", "ELEMENTWISE_UNARY_OPS", "UNARY_DATAFLOW_OPS", "ELEMENTWISE_BINARY_OPS"):
        live |= set(getattr(opt, nm, set()))
    return sorted(live & set(JAX_OF_ONNX)), sorted(live - set(JAX_OF_ONNX))


def build_layout(pair: str, ops: list, sym: bool) -> tuple[Callable, list]:
    fs = [JAX_OF_ONNX[o] for o in ops]

    def chain(t):
        for f in fs:
            t = f(t)
        return t

    if pair == "transpose":
        def f(x):
            t = jnp.transpose(x, (0, 3, 1, 2))
            return jnp.transpose(chain(t), (0, 2, 3, 1))
    elif pair == "transpose_out":          # the value after the pair is used again
        def f(x):
            t = jnp.transpose(x, (0, 3, 1, 2))
            y = jnp.transpose(chain(t), (0, 2, 3, 1))
            return y, y + x
    elif pair == "reshape":
        def f(x):
            t = x.reshape((x.shape[0], -1))
            return chain(t).reshape(x.shape)
    elif pair == "reshape_out":
        def f(x):
            t = x.reshape((x.shape[0] * 3, -1))
            y = chain(t).reshape(x.shape)
            return y * 2.0, y
    else:
        raise ValueError(pair)
    return f, [("B" if sym else 2, 3, 4, 5)]


LAYOUT_PAIRS = ["transpose", "transpose_out", "reshape", "reshape_out"]


def random_layout(rng: common.Rng) -> dict:
    ops, _ = live_layout_ops()
    chain = [rng.choice(ops) for _ in range(rng.randint(1, 3))]
    pair = rng.choice(LAYOUT_PAIRS)
    sym = rng.chance(0.4)
    return {"kind": "layout", "name": f"layout_{pair}_{'_'.join(chain)}{'_B' if sym else ''}", "pair": pair,
            "ops": chain, "sym": sym}


# fixed nested tree programs that are always part of the core set
FIXED_TREES: dict[str, list] = {
    "fori_in_fori": ["seq", [["fori", 2, ["seq", [["fori", 3, ["seq", [["un", "sin"], ["un", "mul2"]]]],
                                                 ["un", "add1"]]]]]],
    "while_in_while": ["seq", [["while", 3, ["seq", [["while", 2, ["seq", [["un", "mul2"]]]], ["un", "add1"]]]]]],
    "scan_in_scan": ["seq", [["scan", 2, ["seq", [["scan", 2, ["seq", [["un", "tanh"]]]]]]]]],
    "cond_in_loop": ["seq", [["fori", 3, ["seq", [["cond", ["seq", [["un", "add1"]]], ["seq", [["un", "mul2"], ["un", "add1"]]]]]]]]],
    "loop_in_cond": ["seq", [["cond", ["seq", [["fori", 3, ["seq", [["un", "mul2"]]]]]], ["seq", [["un", "neg"]]]]]],
    "scan_while_cond": ["seq", [["cond", ["seq", [["while", 2, ["seq", [["scan", 2, ["seq", [["un", "sin"]]]], ["un", "add1"]]]]]],
                                 ["seq", [["un", "neg"]]]]]],
    "closure_chain": ["seq", [["un", "mul2"], ["while", 2, ["seq", [["clos", 0], ["cond", ["seq", [["clos", 0], ["clos", 1]]],
                                                                                ["seq", [["clos", 1], ["un", "neg"]]]]]]]]],
    "depth4": ["seq", [["while", 2, ["seq", [["cond", ["seq", [["scan", 2, ["seq", [["while", 2, ["seq", [["un", "sin"], ["clos", 2]]]]]]]]],
                                                     ["seq", [["un", "add1"]]]]]]]]],
    "fn_then_loops": ["seq", [["fn", "deep4"], ["fori", 2, ["seq", [["un", "tanh"]]]], ["fn", "cond"], ["fn", "while_scan"]]],
    "fn2_top": ["seq", [["fn2"], ["un", "add1"], ["fn", "two"]]],
    "fori_offset": ["seq", [["fori_lo", 2, 5, ["seq", [["un", "add1"]]]]]],
    "fori_offset_neg_nested": ["seq", [["fori_lo", -2, 1, ["seq", [["fori_lo", 1, 3, ["seq", [["un", "mul2"]]]],
                                                            ["cond", ["seq", [["un", "add1"]]], ["seq", [["un", "neg"]]]]]]]]],
    "switch3": ["seq", [["switch", [["seq", [["un", "add1"]]], ["seq", [["un", "mul2"]]], ["seq", [["un", "sin"]]]]]]],
    "silu_swish": ["seq", [["un", "xsig"], ["un", "silu"], ["fori", 2, ["seq", [["un", "xsig"]]]]]],
    "reduce_in_loop": ["seq", [["while", 2, ["seq", [["un", "meanc"], ["un", "maxc"], ["un", "sumb"], ["un", "softmax"]]]]]],
}


# ----------------------------------------------------------------------------- descriptions


@dataclass
class Export:
    desc: dict
    cfg: dict
    proto: Optional[onnx.ModelProto] = None
    ir_model: Any = None
    error: Optional[str] = None
    seconds: float = 0.0
    extra: dict = field(default_factory=dict)

    @property
    def ok(self) -> bool:
        return self.proto is not None

    def key(self) -> dict:
        return {"program": self.desc, "config": self.cfg}


# further program kinds registered by other generator modules (kind -> builder(desc) -> (fn, shapes));
# e.g. harness/c03_cover.py registers "cover"
EXTRA_KINDS: dict[str, Callable] = {}


def prog_fn_and_shapes(desc: dict) -> tuple[Callable, list]:
    k = desc["kind"]
    if k in EXTRA_KINDS:
        fn, shapes = EXTRA_KINDS[k](desc)
        return fn, [tuple(s) if not isinstance(s, jax.ShapeDtypeStruct) else s for s in shapes]
    if k == "tree":
        return build_tree(desc["tree"]), [tuple(desc.get("shape", ("B", 3)))]
    if k == "named":
        fn, shapes = NAMED[desc["name"]]
        return fn, [tuple(s) for s in shapes]
    if k == "layout":
        fn, shapes = build_layout(desc["pair"], list(desc["ops"]), bool(desc.get("sym")))
        return fn, [tuple(s) for s in shapes]
    if k == "gated":
        return build_gated(desc["comp"], desc["wrap"], desc.get("dtype", "f32"))
    if k == "dimuse":
        fn, shapes = build_dimuse(desc["cf"], desc["red"], desc["use"])
        return fn, [tuple(s) for s in shapes]
    raise ValueError(k)


def default_cfg() -> dict:
    return {"opset": 23, "dp": False, "symbolic": True, "in_nchw": None, "out_nchw": None,
            "mode": "proto"}


_CACHE: dict[str, Export] = {}
_TMP: Optional[str] = None


def _tmpdir() -> str:
    global _TMP
    if _TMP is None:
        _TMP = tempfile.mkdtemp(prefix="j2o_progs_")
    return _TMP


def clear_cache() -> None:
    """Drop cached exports (the thorough tiers work chunk by chunk to bound memory)."""
    _CACHE.clear()


def chunks(plan: list, n: int):
    for i in range(0, len(plan), n):
        yield plan[i:i + n]


def export_in_chunks(plan: list, max_models: int = 300, max_bytes: int = 600_000_000,
                     deadline: Optional[float] = None, after=None):
    """Export `plan` = [(desc, cfg)…] lazily and yield lists of Export objects (failed ones included),
    closing a chunk after `max_models` models or `max_bytes` of serialized protos, so that the caller
    can check and drop them before the next chunk is produced (bounded memory).  Stops at `deadline`
    (time.time() value).  `after(ex)` is called right after each export."""
    i = 0
    while i < len(plan):
        if deadline is not None and time.time() > deadline:
            return
        out: list = []
        size = 0
        while i < len(plan) and len(out) < max_models and size < max_bytes:
            if deadline is not None and time.time() > deadline:
                break
            d, cfg = plan[i]
            i += 1
            ex = export(d, cfg)
            if after is not None:
                after(ex)
            if ex.ok:
                try:
                    size += ex.proto.ByteSize()
                except Exception:
                    pass
            out.append(ex)
        yield out
        clear_cache()


def cleanup() -> None:
    global _TMP
    _CACHE.clear()
    if _TMP is not None:
        shutil.rmtree(_TMP, ignore_errors=True)
        _TMP = None


def _specs(shapes: list, cfg: dict) -> list:
    out = []
    dt = jnp.float64 if cfg.get("dp") else jnp.float32
    for s in shapes:
        if isinstance(s, jax.ShapeDtypeStruct):
            out.append(s)
            continue
        s2 = tuple((d if cfg.get("symbolic", True) else (2 if d == "B" else 5)) if d in ("B", "T") else d
                   for d in s)
        out.append(jax.ShapeDtypeStruct(s2, dt))
    return out


def _finish(result, cfg: dict, path: Optional[str]) -> tuple[onnx.ModelProto, Any]:
    import onnx_ir as ir
    if cfg.get("mode") == "ir":
        return ir.to_proto(result), result
    if cfg.get("mode") == "file":
        return onnx.load_model(path), None
    return result, None


def export(desc: dict, cfg: Optional[dict] = None, use_cache: bool = True) -> Export:
    cfg = dict(default_cfg(), **(cfg or {}))
    key = json.dumps([desc, cfg], sort_keys=True)
    if use_cache and key in _CACHE:
        return _CACHE[key]
    ex = Export(desc=desc, cfg=cfg)
    t0 = time.time()
    try:
        if desc["kind"] == "plugin":
            proto, irm = _export_plugin(desc, cfg)
        else:
            fn, shapes = prog_fn_and_shapes(desc)
            kw: dict = dict(opset=int(cfg["opset"]), enable_double_precision=bool(cfg["dp"]),
                            return_mode=cfg["mode"])
            path = None
            if cfg["mode"] == "file":
                path = os.path.join(_tmpdir(), f"m{len(_CACHE)}.onnx")
                kw["output_path"] = path
            if cfg.get("in_nchw") is not None:
                kw["inputs_as_nchw"] = list(cfg["in_nchw"])
            if cfg.get("out_nchw") is not None:
                kw["outputs_as_nchw"] = list(cfg["out_nchw"])
            if cfg.get("norm_mode"):
                kw["normalization_mode"] = cfg["norm_mode"]
            if cfg.get("in_names"):
                kw["input_names"] = [f"user_in_{i}" for i in range(len(shapes))]
            res = to_onnx(fn, _specs(shapes, cfg), **kw)
            proto, irm = _finish(res, cfg, path)
        ex.proto, ex.ir_model = proto, irm
    except Exception as e:  # loud failure: not this property's subject
        ex.error = f"{type(e).__name__}: {str(e)[:300]}"
    ex.seconds = time.time() - t0
    if use_cache:
        _CACHE[key] = ex
    return ex


# ----------------------------------------------------------------------------- plugin testcases

_PLUGIN_PARAMS: Optional[list] = None


def plugin_params() -> list[dict]:
    """All parameter sets of the generated plugin tests (callable, shapes/dtypes, flags)."""
    global _PLUGIN_PARAMS
    if _PLUGIN_PARAMS is None:
        import sys
        if str(common.REPO) not in sys.path:
            sys.path.insert(0, str(common.REPO))
        from tests import t_generator as tg
        out = []
        for entry in tg.load_plugin_metadata():
            try:
                out += tg.generate_test_params(entry)
            except Exception:
                continue
        _PLUGIN_PARAMS = out
    return _PLUGIN_PARAMS


def plugin_desc(tp: dict) -> dict:
    return {"kind": "plugin", "context": tp.get("context", ""), "component": tp.get("component", ""),
            "testcase": tp["testcase"],
            "dp": bool(tp.get("_enable_double_precision_test_setting", False))}


def find_plugin(desc: dict) -> dict:
    for tp in plugin_params():
        if (tp["testcase"] == desc["testcase"] and tp.get("context", "") == desc.get("context", "")
                and tp.get("component", "") == desc.get("component", "")
                and bool(tp.get("_enable_double_precision_test_setting", False)) == bool(desc.get("dp"))):
            return tp
    raise KeyError(desc)


def _instantiate(obj, dp: bool):
    if not hasattr(obj, "instantiate"):
        return obj
    prev = bool(jax.config.read("jax_enable_x64")) if hasattr(jax.config, "read") else \
        bool(jax.config.jax_enable_x64)
    if prev != dp:
        jax.config.update("jax_enable_x64", dp)
    try:
        return obj.instantiate()
    finally:
        if prev != dp:
            jax.config.update("jax_enable_x64", prev)


def plugin_input_specs(tp: dict) -> list:
    """Same input-spec construction as tests/t_generator.make_test_function."""
    dp = bool(tp.get("_enable_double_precision_test_setting", False))
    shapes, dtypes, values = tp.get("input_shapes"), tp.get("input_dtypes"), tp.get("input_values")
    specs: list = []
    if shapes is not None:
        if dtypes:
            for s, dt in zip(shapes, dtypes):
                s = tuple(s) if isinstance(s, (list, tuple)) else (s,)
                if dp and np.issubdtype(dt, np.floating):
                    dt = jnp.float64
                specs.append(jax.ShapeDtypeStruct(s, dt))
        else:
            for s in shapes:
                specs.append(tuple(s) if isinstance(s, (list, tuple)) else (s,))
    elif values is not None:
        for v in values:
            a = np.array(v)
            if dp and np.issubdtype(a.dtype, np.floating):
                specs.append(jax.ShapeDtypeStruct(a.shape, jnp.float64))
            else:
                specs.append(jax.ShapeDtypeStruct(a.shape, a.dtype))
    return specs


def _export_plugin(desc: dict, cfg: dict):
    tp = find_plugin(desc)
    dp = bool(tp.get("_enable_double_precision_test_setting", False))
    fn = _instantiate(tp["callable"], dp)
    kw: dict = dict(
        fn=fn, inputs=plugin_input_specs(tp), input_params=tp.get("input_params", {}),
        model_name=tp["testcase"],
        opset=int(cfg["opset"]) if cfg.get("opset") else int(tp.get("opset_version", 23)),
        enable_double_precision=dp, return_mode=cfg.get("mode", "proto"),
        inputs_as_nchw=tp.get("inputs_as_nchw"), outputs_as_nchw=tp.get("outputs_as_nchw"),
        input_names=tp.get("input_names"), output_names=tp.get("output_names"),
        normalization_mode=tp.get("normalization_mode", "auto"))
    path = None
    if cfg.get("mode") == "file":
        path = os.path.join(_tmpdir(), f"p{len(_CACHE)}.onnx")
        kw["output_path"] = path
    res = to_onnx(**kw)
    return _finish(res, cfg, path)


def plugin_cfg(tp: dict, opset: Optional[int] = None, mode: str = "proto") -> dict:
    return {"opset": int(opset) if opset else int(tp.get("opset_version", 23)),
            "dp": bool(tp.get("_enable_double_precision_test_setting", False)),
            "symbolic": True, "in_nchw": None, "out_nchw": None, "mode": mode}


# ----------------------------------------------------------------------------- program sets


def core_programs(rng: common.Rng, n_random: int = 12, max_depth: int = 3, n_dimuse: int = 6) -> list[dict]:
    progs: list[dict] = []
    for name, tree in FIXED_TREES.items():
        progs.append({"kind": "tree", "name": name, "tree": tree, "shape": ["B", 3]})
    for name in NAMED:
        progs.append({"kind": "named", "name": name})
    for k in range(n_random):
        d = 1 + (k % max_depth)
        progs.append({"kind": "tree", "name": f"rand{k}", "tree": random_tree(rng, d), "shape": ["B", 3]})
    combos = [(c, r, u) for c in DIMUSE_CF for r in DIMUSE_RED for u in DIMUSE_USE]
    fixed = [("cond", "sum", "zeros"), ("while_closure", "sum", "zeros"), ("cond_closure", "max", "arange"),
             ("scan", "mean", "broadcast"), ("fori", "sum", "reshape"), ("while", "max", "ones1d")]
    extra = [c for c in rng.sample(combos, n_dimuse) if c not in fixed]
    for c, r, u in fixed + extra:
        progs.append({"kind": "dimuse", "name": f"dimuse_{c}_{r}_{u}", "cf": c, "red": r, "use": u})
    # rank-4 variants for the layout flags
    progs.append({"kind": "tree", "name": "nhwc_tree", "shape": ["B", 4, 4, 3],
                  "tree": ["seq", [["un", "relu"], ["fori", 2, ["seq", [["un", "mul2"], ["un", "add1"]]]],
                                   ["cond", ["seq", [["un", "add1"]]], ["seq", [["un", "neg"]]]]]]})
    return progs


def is_rank4(desc: dict) -> bool:
    if desc["kind"] == "tree":
        return len(desc.get("shape", [])) == 4
    if desc["kind"] == "named":
        return desc["name"] == "nhwc"
    if desc["kind"] == "cover":
        return True
    return False


def random_cfg(rng: common.Rng, desc: dict, opsets: Optional[list[int]] = None) -> dict:
    cfg = default_cfg()
    cfg["opset"] = rng.choice(opsets or list(range(BASELINE_OPSET, max_opset() + 1)))
    cfg["dp"] = rng.chance(0.3)
    cfg["symbolic"] = rng.chance(0.6)
    cfg["mode"] = rng.choice(["proto", "proto", "ir", "file"])
    if rng.chance(0.25):
        cfg["in_names"] = True
    if is_rank4(desc):
        cfg["in_nchw"] = rng.choice([None, [0]])
        cfg["out_nchw"] = rng.choice([None, [0]])
    return cfg


def gated_desc(comp: str, wrap: str, dtype: str = "f32") -> dict:
    return {"kind": "gated", "name": f"{comp}@{wrap}:{dtype}", "comp": comp, "wrap": wrap, "dtype": dtype}


def describe(desc: dict) -> str:
    if desc["kind"] == "plugin":
        return f"plugin:{desc['context']}/{desc['testcase']}"
    return f"{desc['kind']}:{desc.get('name', '?')}"


def feeds_for(proto: onnx.ModelProto, rng: np.random.Generator, binding: Optional[dict] = None,
              default_dim: int = 2) -> dict[str, np.ndarray]:
    """Random inputs for a model; symbolic dims bound through `binding` (symbol -> int)."""
    from onnx import helper
    binding = binding or {}
    feeds = {}
    inits = {t.name for t in proto.graph.initializer}
    for vi in proto.graph.input:
        if vi.name in inits:
            continue
        tt = vi.type.tensor_type
        shape = []
        for d in tt.shape.dim:
            if d.HasField("dim_value"):
                shape.append(int(d.dim_value))
            elif d.HasField("dim_param"):
                shape.append(int(binding.get(d.dim_param, default_dim)))
            else:
                shape.append(default_dim)
        npdt = helper.tensor_dtype_to_np_dtype(tt.elem_type)
        if np.issubdtype(npdt, np.floating):
            arr = (rng.standard_normal(shape) * 0.5).astype(npdt)
        elif npdt == np.bool_:
            arr = rng.random(shape) > 0.5
        elif np.issubdtype(npdt, np.integer):
            arr = rng.integers(0, 3, size=shape).astype(npdt)
        else:
            arr = np.zeros(shape, dtype=npdt)
        feeds[vi.name] = arr
    return feeds
