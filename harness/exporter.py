"""Run the real `to_onnx` while observing the optimizer stage (no edits to /repo: the harness wraps
`conversion_api.optimize_graph` at run time and restores it)."""
from __future__ import annotations

import contextlib
from typing import Any, Callable, Optional

import onnx


@contextlib.contextmanager
def optimizer_hook(wrapper: Callable[[Callable, Any], Any]):
    """Replace conversion_api.optimize_graph by `lambda model: wrapper(real, model)`."""
    import jax2onnx.converter.conversion_api as capi
    real = capi.optimize_graph
    capi.optimize_graph = lambda model: wrapper(real, model)
    try:
        yield
    finally:
        capi.optimize_graph = real


def export_stages(fn, specs, **kw) -> dict[str, Any]:
    """Export once; return {'pre': ModelProto before the optimizer, 'post': right after it,
    'final': what to_onnx returned}."""
    import onnx_ir as ir
    from jax2onnx import to_onnx
    out: dict[str, Any] = {}

    def wrap(real, model):
        out["pre"] = ir.to_proto(model)
        res = real(model)
        out["post"] = ir.to_proto(model)
        return res

    with optimizer_hook(wrap):
        out["final"] = to_onnx(fn, specs, **kw)
    return out


def export_unoptimized(fn, specs, **kw) -> onnx.ModelProto:
    from jax2onnx import to_onnx
    with optimizer_hook(lambda real, model: model):
        return to_onnx(fn, specs, **kw)
