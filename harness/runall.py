#!/venv/bin/python
"""Run the quick (or thorough) command of every check listed (default: all with META ready) once,
sequentially, and print a status table.  usage: runall.py [--tier quick] [--seed N] [C01 C02 …]"""
import argparse, json, subprocess, sys, time, os
from pathlib import Path
HERE = Path(__file__).resolve().parent
ap = argparse.ArgumentParser()
ap.add_argument("props", nargs="*")
ap.add_argument("--tier", default="quick")
ap.add_argument("--seed", default="0")
a = ap.parse_args()
props = a.props or [f"C{i:02d}" for i in range(1, 20) if (HERE / "props" / f"c{i:02d}.py").exists()]
rows = []
for p in props:
    t0 = time.time()
    env = dict(os.environ, VERIF_SEED=a.seed)
    r = subprocess.run(["/venv/bin/python", str(HERE / "vcheck.py"), p, "--tier", a.tier], cwd=HERE.parent,
                       capture_output=True, text=True, env=env)
    out = r.stdout + r.stderr
    viol = [l for l in out.splitlines() if l.startswith("VIOLATION")]
    known = [l for l in out.splitlines() if l.startswith("KNOWN-FINDING")]
    ev = HERE.parent / "evidence" / f"{p}.json"
    lvl = obl = ""
    if ev.exists():
        e = json.loads(ev.read_text()); lvl = e.get("level"); c = e.get("coverage", {})
        obl = f"{c.get('discharged')}/{c.get('obligations')}"
    rows.append((p, r.returncode, len(viol), len(known), round(time.time() - t0), lvl, obl))
    print(rows[-1], flush=True)
    if r.returncode not in (0,):
        print("\n".join(out.splitlines()[-8:]))
print("\nprop exit viol known wall level obligations")
for r in rows: print(*r)
