"""C03 (round 2) — systematic program × configuration generator: a PAIRWISE COVERING ARRAY over

  construct ∈ flat, while, fori, scan, cond, nest2 (cond in fori), nest3 (scan in cond in while),
              fn_plain, fn_unique, fn_nested, fn_same (two targets sharing a display name),
              fn_in_loop (function called inside a loop body), loop_in_fn (loops inside a function body)
  dim       ∈ static | sym (symbolic batch carried through the construct)
              | sym_after (the construct works on a value that LOST the symbolic dim, closes over a
                value that has it where the construct has a body, and the dim's runtime extent is
                needed AFTER the construct)
  opset     ∈ 21 | 23 | newest the installed onnx defines
  dp        ∈ False | True                     (enable_double_precision)
  layout    ∈ none | in | out | both           (inputs_as_nchw / outputs_as_nchw; every program is rank 4 → rank 4)
  mode      ∈ proto | ir | file                (return mode)
  names     ∈ False | True                     (user supplied input_names)

Every unordered pair of values of two different factors occurs in at least one row (checked by
`uncovered_pairs`, reported in the evidence).  The row ORDER and the tie-breaking of the greedy
construction are seeded, so different seeds give different arrays with the same guarantee.
Programs are plain JSON descriptions `{"kind": "cover", "construct": …, "dim": …}` (replayable).
"""
from __future__ import annotations

import itertools

import common
import progs

import jax.numpy as jnp  # noqa: E402
from jax import lax  # noqa: E402

CONSTRUCTS = ["flat", "while", "fori", "scan", "cond", "nest2", "nest3", "fn_plain", "fn_unique", "fn_nested",
              "fn_same", "fn_in_loop", "loop_in_fn"]
DIMS = ["static", "sym", "sym_after"]
LAYOUTS = ["none", "in", "out", "both"]
MODES = ["proto", "ir", "file"]


def factors() -> dict[str, list]:
    return {"construct": list(CONSTRUCTS), "dim": list(DIMS),
            "opset": sorted({progs.BASELINE_OPSET, 23, progs.max_opset()}), "dp": [False, True],
            "layout": list(LAYOUTS), "mode": list(MODES), "names": [False, True]}


# ----------------------------------------------------------------------------- programs


def _construct(kind: str, r, w):
    """Shape-preserving construct applied to `r`; `w` (or None) is a value of the enclosing scope that still has
    the symbolic dim – bodies close over it."""
    if kind in ("fori", "nest2", "fn_in_loop"):
        w = None        # a fori_loop body closing over a traced outer value is refused by the exporter (loud)

    def extra(c):
        return w.sum(axis=0) * 0.125 if w is not None else 0.25

    def op(c):
        return jnp.tanh(c) * 0.5 + extra(c)

    if kind == "flat":
        return op(r)
    if kind == "while":
        return lax.while_loop(lambda s: s[0] < 2, lambda s: (s[0] + 1, op(s[1])), (0, r))[1]
    if kind == "fori":
        return lax.fori_loop(0, 2, lambda i, c: op(c) + i.astype(c.dtype), r)
    if kind == "scan":
        c, ys = lax.scan(lambda c, t: (op(c) + t, c * t), r, jnp.stack([r, r + 1.0]))
        return c + ys.sum(0)
    if kind == "cond":
        return lax.cond(r.sum() > 0, lambda a: op(a), lambda a: a - extra(a), r)
    if kind == "nest2":
        return lax.fori_loop(0, 2, lambda i, c: lax.cond(c.sum() > 0, lambda a: op(a), lambda a: a * 0.5, c), r)
    if kind == "nest3":
        def inner(a):
            c, ys = lax.scan(lambda c, t: (op(c) + t, c - t), a, jnp.stack([a, a * 0.5]))
            return c + ys.sum(0)
        return lax.while_loop(lambda s: s[0] < 2,
                              lambda s: (s[0] + 1, lax.cond(s[1].sum() > 0, inner, lambda a: a + 1.0, s[1])),
                              (0, r))[1]
    if kind == "fn_plain":
        return progs.fn_leaf(r) + extra(r)
    if kind == "fn_unique":
        return progs.fn_ublk_b(progs.fn_ublk_a(r), progs.fn_ublk_a(r + 1.0)) + extra(r)
    if kind == "fn_nested":
        return progs.fn_deep3(r) + extra(r)
    if kind == "fn_same":
        return progs.fn_blk_mix(progs.fn_blk_gate(r), r) + progs.fn_blk_three(r, r + 1.0, extra(r) + r)
    if kind == "fn_in_loop":
        return lax.fori_loop(0, 2, lambda i, c: progs.fn_leaf(c) + extra(c), r)
    if kind == "loop_in_fn":
        return progs.fn_loop(r) + progs.fn_while_scan(r) + extra(r)
    raise ValueError(kind)


def build(desc: dict):
    kind, dim = desc["construct"], desc["dim"]

    if dim == "sym_after":
        def f(x):
            r = x.sum(axis=0)                       # the symbolic dim is gone
            y = _construct(kind, r, x)              # bodies close over x (which has it)
            return jnp.broadcast_to(y, x.shape) + 0.5, jnp.zeros((x.shape[0], 2), x.dtype) + y.sum()
    else:
        def f(x):
            return _construct(kind, x, None)
    return f, [("B", 4, 4, 3)]


progs.EXTRA_KINDS["cover"] = build


def desc_of(row: dict) -> dict:
    return {"kind": "cover", "name": f"cover_{row['construct']}_{row['dim']}", "construct": row["construct"],
            "dim": row["dim"]}


def cfg_of(row: dict) -> dict:
    cfg = progs.default_cfg()
    cfg["opset"] = int(row["opset"])
    cfg["dp"] = bool(row["dp"])
    cfg["symbolic"] = row["dim"] != "static"
    cfg["mode"] = row["mode"]
    cfg["in_nchw"] = [0] if row["layout"] in ("in", "both") else None
    cfg["out_nchw"] = [0] if row["layout"] in ("out", "both") else None
    if row["names"]:
        cfg["in_names"] = True
    return cfg


# ----------------------------------------------------------------------------- the covering array


def all_pairs(fs: dict[str, list]) -> set:
    out = set()
    for a, b in itertools.combinations(sorted(fs), 2):
        for va in fs[a]:
            for vb in fs[b]:
                out.add(((a, va), (b, vb)))
    return out


def pairs_of(row: dict) -> set:
    return {((a, row[a]), (b, row[b])) for a, b in itertools.combinations(sorted(row), 2)}


def covering_array(rng: common.Rng, fs: dict[str, list] | None = None, candidates: int = 24) -> list[dict]:
    """Greedy pairwise construction: every new row is the best of `candidates` seeded completions of a row that
    starts from a still uncovered pair."""
    fs = fs or factors()
    todo = all_pairs(fs)
    names = sorted(fs)
    rows: list[dict] = []
    while todo:
        seed_pair = sorted(todo, key=repr)[rng.randint(0, len(todo) - 1)]
        best, best_gain = None, -1
        for _ in range(candidates):
            row = {k: rng.choice(fs[k]) for k in names}
            for (k, v) in seed_pair:
                row[k] = v
            gain = len(pairs_of(row) & todo)
            if gain > best_gain:
                best, best_gain = row, gain
        rows.append(best)
        todo -= pairs_of(best)
    return rows


def uncovered_pairs(rows: list[dict], fs: dict[str, list] | None = None) -> list:
    todo = all_pairs(fs or factors())
    for r in rows:
        todo -= pairs_of(r)
    return sorted(todo, key=repr)


def plan(rng: common.Rng, arrays: int = 1) -> tuple[list, dict]:
    """[(desc, cfg)…] for `arrays` independent covering arrays + a summary for the evidence."""
    fs = factors()
    out, seen, n_rows = [], set(), 0
    missing = 0
    row_of: dict = {}
    for _ in range(arrays):
        rows = covering_array(rng, fs)
        missing += len(uncovered_pairs(rows, fs))
        n_rows += len(rows)
        for r in rows:
            key = repr(sorted(r.items()))
            if key in seen:
                continue
            seen.add(key)
            out.append((desc_of(r), cfg_of(r)))
            row_of[plan_key(*out[-1])] = r
    info = {"factors": {k: len(v) for k, v in fs.items()}, "pairs": len(all_pairs(fs)), "rows": n_rows,
            "distinct_rows": len(out), "uncovered_pairs": missing,
            "full_product": int(__import__("math").prod(len(v) for v in fs.values()))}
    info["_rows"] = row_of
    return out, info


def plan_key(desc: dict, cfg: dict) -> str:
    import json
    return json.dumps([desc, dict(progs.default_cfg(), **cfg)], sort_keys=True)
