"""Program family for the C09 check (imported lazily by harness/props/c09.py after use_repo()).

A case = (placement, constant kind, op, value index). `build(case)` must be called under the
x64 mode the program is meant for (constants such as jnp arrays / module parameters take their
dtype from it). `@onnx_function` targets are defined at MODULE level on purpose (a decorated
callable that is not a module attribute breaks patching — known C13 defect).
"""
from __future__ import annotations

import math

import equinox as eqx
import jax
import jax.numpy as jnp
import numpy as np
from flax import nnx
from jax import lax

from jax2onnx import onnx_function

PROBE = [0.1, 1.0 / 3.0, math.pi, 1e-3]

CONST_KINDS = ["pyfloat", "pyint", "np16", "np32", "np64", "arr32", "arr64", "jnparr"]
PLACEMENTS = ["top", "jit", "fori", "while", "scan", "scan_xs", "cond", "fn", "fn_cls", "fn_in_fn",
              "fori_in_fn", "fn_in_fori", "cond_in_scan", "nnx_mod", "eqx_mod", "fn_kw2", "fn_cls_kw2"]
# `fn_kw2` / `fn_cls_kw2`: ONE @onnx_function (free function / class) called at TWO sites with a static
# float keyword whose two values differ below float32 resolution; each site is a model output.
KW_PAIRS = [(1.0e-3, 1.0e-3 + 1.0e-11), (0.1, 0.1 * (1.0 + 3.0e-9)), (math.pi, math.pi + 1.0e-9),
            (1.0 / 3.0, 1.0 / 3.0 + 2.0e-10)]
KW_OPS = ["mul", "div", "rdiv", "tanh", "exp", "pow"]      # the keyword enters at first order
OPS = ["add", "mul", "div", "sub", "rsub", "rdiv", "maximum", "minimum", "where", "pow", "sqrt", "exp",
       "tanh", "mean", "dot", "linspace", "arange", "clip", "arctan2", "hamming"]
BODY_PLACEMENTS = [p for p in PLACEMENTS if p not in ("top", "jit", "nnx_mod", "eqx_mod", "fn_kw2", "fn_cls_kw2")]


def make_const(kind: str, vi: int):
    v = PROBE[vi % 4]
    arr = np.array([PROBE[(vi + i) % 4] for i in range(4)], dtype=np.float64)
    if kind == "pyfloat":
        return v
    if kind == "pyint":
        return 3
    if kind == "np16":
        return np.float16(v)
    if kind == "np32":
        return np.float32(v)
    if kind == "np64":
        return np.float64(v)
    if kind == "arr32":
        return arr.astype(np.float32)
    if kind == "arr64":
        return arr
    if kind == "jnparr":
        return jnp.asarray(arr)          # float32 or float64 depending on the x64 mode at build time
    raise ValueError(kind)


def _scalar(c):
    return c if np.ndim(c) == 0 else c[0]


def apply_op(op: str, x, c):
    if op == "add":
        return x + c
    if op == "mul":
        return x * c
    if op == "div":
        return x / c
    if op == "sub":
        return x - c
    if op == "rsub":
        return c - x
    if op == "rdiv":
        return c / x
    if op == "maximum":
        return jnp.maximum(x, c)
    if op == "minimum":
        return jnp.minimum(x, c)
    if op == "where":
        return jnp.where(x > 1.0, x * c, c)
    if op == "pow":
        return x ** c
    if op == "sqrt":
        return jnp.sqrt(x + c)
    if op == "exp":
        return jnp.exp(-x * c)
    if op == "tanh":
        return jnp.tanh(x * c)
    if op == "mean":
        return x - jnp.mean(x * c, axis=-1, keepdims=True)
    if op == "dot":
        m = jnp.outer(c, c) if np.ndim(c) == 1 else jnp.full((4, 4), c)
        return jnp.dot(x, m)
    if op == "linspace":
        return x * jnp.linspace(_scalar(c), _scalar(c) + 0.6, 4)
    if op == "arange":
        return x * (jnp.arange(4) * _scalar(c) + _scalar(c))
    if op == "clip":
        return jnp.clip(x, _scalar(c), _scalar(c) + 1.0)
    if op == "arctan2":
        return jnp.arctan2(x, c)
    if op == "hamming":
        return x * jnp.hamming(4) + c
    raise ValueError(op)


# ----- module-level @onnx_function targets; what they apply is set by `build` before tracing
_CUR: dict = {"op": "add", "c": 0.1}


def _cur(x):
    return apply_op(_CUR["op"], x, _CUR["c"])


@onnx_function
def fn_free(x):
    return _cur(x)


@onnx_function
def fn_outer(x):
    return fn_free(x) * 0.5 + x * 0.25


@onnx_function
def fn_with_loop(x):
    return lax.fori_loop(0, 3, lambda i, s: _cur(s) * 0.5 + s * 0.25, x)


@onnx_function
def fn_kw(x, dt=1.0):
    return apply_op(_CUR["op"], x, dt)


@onnx_function
class FnKwBlock(nnx.Module):
    def __init__(self, op):
        self.op = op

    def __call__(self, x, dt=1.0):
        return apply_op(self.op, x, dt)


@onnx_function
class FnBlock(nnx.Module):
    def __init__(self, op, c):
        self.op = op
        self.c = nnx.Param(c) if hasattr(c, "shape") and np.ndim(c) > 0 else c

    def __call__(self, x):
        c = self.c.value if isinstance(self.c, nnx.Param) else self.c
        return apply_op(self.op, x, c)


class PlainBlock(nnx.Module):
    def __init__(self, op, c):
        self.op = op
        self.c = nnx.Param(jnp.asarray(c)) if np.ndim(c) > 0 else c

    def __call__(self, x):
        c = self.c.value if isinstance(self.c, nnx.Param) else self.c
        return apply_op(self.op, x, c)


class EqxBlock(eqx.Module):
    c: jax.Array
    op: str = eqx.field(static=True)

    def __call__(self, x):
        return apply_op(self.op, x, self.c)


def build(case: dict):
    """Return the callable f(x) for x of shape (3, 4). Call under the intended x64 mode."""
    placement, kind, op, vi = case["placement"], case["kind"], case["op"], case["vi"]
    c = make_const(kind, vi)
    c2 = make_const(kind, vi + 1)
    _CUR["op"], _CUR["c"] = op, c

    def step(s):
        return apply_op(op, s, c) * 0.5 + s * 0.25

    if placement == "top":
        return lambda x: apply_op(op, x, c)
    if placement == "jit":
        inner = jax.jit(lambda v: apply_op(op, v, c))
        return lambda x: inner(x) * 0.5
    if placement == "fori":
        return lambda x: lax.fori_loop(0, 3, lambda i, s: step(s), x)
    if placement == "while":
        return lambda x: lax.while_loop(lambda s: s[0] < 3, lambda s: (s[0] + 1, step(s[1])), (0, x))[1]
    if placement == "scan":
        return lambda x: lax.scan(lambda s, _: (step(s), jnp.sum(s)), x, None, length=3)
    if placement == "scan_xs":
        return lambda x: lax.scan(lambda s, row: (step(s), apply_op(op, row, c)), x, x)
    if placement == "cond":
        return lambda x: lax.cond(x[0, 0] > 1.0, lambda v: apply_op(op, v, c), lambda v: apply_op(op, v, c2), x)
    if placement == "fn":
        return lambda x: fn_free(x)
    if placement == "fn_cls":
        blk = FnBlock(op, c)
        return lambda x: blk(x)
    if placement == "fn_in_fn":
        return lambda x: fn_outer(x)
    if placement == "fori_in_fn":
        return lambda x: fn_with_loop(x)
    if placement == "fn_in_fori":
        return lambda x: lax.fori_loop(0, 2, lambda i, s: fn_free(s) * 0.5 + s * 0.25, x)
    if placement == "cond_in_scan":
        def body(s, _):
            s2 = lax.cond(s[0, 0] > 1.0, lambda v: apply_op(op, v, c), lambda v: apply_op(op, v, c2), s)
            return s2 * 0.5 + s * 0.25, jnp.sum(s2)
        return lambda x: lax.scan(body, x, None, length=2)
    if placement == "fn_kw2":
        a, b = KW_PAIRS[vi % len(KW_PAIRS)]
        return lambda x: (fn_kw(x, dt=a), fn_kw(x, dt=b))
    if placement == "fn_cls_kw2":
        a, b = KW_PAIRS[vi % len(KW_PAIRS)]
        kwblk = FnKwBlock(op)
        return lambda x: (kwblk(x, dt=a), kwblk(x, dt=b))
    if placement == "nnx_mod":
        blk2 = PlainBlock(op, c)
        return lambda x: blk2(x)
    if placement == "eqx_mod":
        blk3 = EqxBlock(jnp.asarray(c), op)
        return lambda x: blk3(x)
    raise ValueError(placement)
