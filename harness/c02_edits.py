"""C02 — correspondence of the graph-edit model (lean/J2O/Model/GraphEdit.lean) with onnx_ir.

`Props/C02Edits.lean` proves when `replace_all_uses_with(old, new, replace_graph_outputs=True)` and
`graph.remove(nodes)` preserve the graph outputs.  Here random small SSA graphs (unary/binary nodes, an
If node whose two branches read captured outer values) are edited by the REAL onnx_ir functions and by
the Lean model; the resulting structures (node order, operands incl. captures, graph outputs) must be
identical.  This is what ties the model's `replaceUses` / `remove` / "captures are operands" reading to the
library the passes call.
"""
from __future__ import annotations

import json
from typing import Any

import numpy as np
import onnx
from onnx import TensorProto, helper

import common

OPS1 = ["Relu", "Neg", "Abs"]
OPS2 = ["Add", "Mul"]
F_IF = 9


def _vi(name):
    return helper.make_tensor_value_info(name, TensorProto.FLOAT, [2])


def gen_case(rng) -> dict[str, Any]:
    """nodes as [f, ins, out] over ids; ids 0..1 are graph inputs, id 2 the If condition input."""
    n_nodes = rng.randint(2, 6)
    nodes = []
    defined = [0, 1]
    nxt = 3
    for _ in range(n_nodes):
        k = rng.randint(0, 9)
        if k < 5:
            f = rng.randint(0, len(OPS1) - 1)
            ins = [rng.choice(defined)]
        elif k < 8:
            f = 3 + rng.randint(0, len(OPS2) - 1)
            ins = [rng.choice(defined), rng.choice(defined)]
        else:
            f = F_IF
            caps = [rng.choice(defined)] + ([rng.choice(defined)] if rng.chance(0.5) else [])
            ins = [2] + caps
        nodes.append([f, ins, nxt])
        defined.append(nxt)
        nxt += 1
    produced = [n[2] for n in nodes]
    outs = rng.sample(produced, rng.randint(1, min(2, len(produced))))
    if produced[-1] not in outs and rng.chance(0.6):
        outs.append(produced[-1])
    # edits: replace uses of a produced value by an earlier value, then remove some unread nodes (or,
    # deliberately, a still-read one: the structural outcome must agree even then)
    ops = []
    old = rng.choice(produced)
    earlier = [d for d in defined if d < old and d != 2]
    new = rng.choice(earlier)
    ops.append(["replace", old, new])
    if rng.chance(0.7):
        ops.append(["remove", [old]])
    elif rng.chance(0.3):
        ops.append(["remove", [rng.choice(produced)]])
    return {"nodes": nodes, "outs": outs, "ops": ops}


def build_model(case: dict[str, Any]) -> onnx.ModelProto:
    nodes = []
    for f, ins, out in case["nodes"]:
        if f == F_IF:
            caps = ins[1:]

            def body(tag):
                bn = [helper.make_node("Identity", [f"v{caps[0]}"], [f"{tag}{out}_a"])]
                last = f"{tag}{out}_a"
                if len(caps) > 1:
                    bn.append(helper.make_node("Add", [last, f"v{caps[1]}"], [f"{tag}{out}_b"]))
                    last = f"{tag}{out}_b"
                return helper.make_graph(bn, f"{tag}{out}", [], [_vi(last)])
            nodes.append(helper.make_node("If", ["v2"], [f"v{out}"], name=f"n{out}", then_branch=body("t"),
                                          else_branch=body("e")))
        elif f < 3:
            nodes.append(helper.make_node(OPS1[f], [f"v{ins[0]}"], [f"v{out}"], name=f"n{out}"))
        else:
            nodes.append(helper.make_node(OPS2[f - 3], [f"v{ins[0]}", f"v{ins[1]}"], [f"v{out}"], name=f"n{out}"))
    g = helper.make_graph(nodes, "g", [_vi("v0"), _vi("v1"), helper.make_tensor_value_info("v2", TensorProto.BOOL, [])],
                          [_vi(f"v{o}") for o in case["outs"]])
    return helper.make_model(g, opset_imports=[helper.make_opsetid("", 21)], ir_version=10)


def real_edit(case: dict[str, Any]) -> str:
    import onnx_ir as ir
    irm = ir.from_proto(build_model(case))
    g = irm.graph
    by_name = {}
    for v in g.inputs:
        by_name[v.name] = v
    for n in g:
        for o in n.outputs:
            by_name[o.name] = o
    for op in case["ops"]:
        if op[0] == "replace":
            ir.convenience.replace_all_uses_with(by_name[f"v{op[1]}"], by_name[f"v{op[2]}"], replace_graph_outputs=True)
        else:
            dead = [n for n in g if n.outputs[0].name in {f"v{d}" for d in op[1]}]
            if dead:
                g.remove(dead)

    def vid(v):
        return int(v.name[1:])

    parts = []
    for n in g:
        ins = [vid(v) for v in n.inputs if v is not None]
        if n.op_type == "If":
            f = F_IF
            caps = []
            # both branches read the same captures in the same order; take the then-branch
            body = n.attributes["then_branch"].as_graph()
            for bn in body:
                for v in bn.inputs:
                    if v is not None and v.name.startswith("v") and v.name[1:].isdigit():
                        caps.append(vid(v))
            ins = ins + caps
        elif n.op_type in OPS1:
            f = OPS1.index(n.op_type)
        else:
            f = 3 + OPS2.index(n.op_type)
        parts.append(f"{f}:{json.dumps(ins).replace(' ', '').replace(',', ', ')}>{vid(n.outputs[0])}")
    outs = json.dumps([vid(v) for v in g.outputs]).replace(" ", "").replace(",", ", ")
    return f"nodes={';'.join(parts)} outs={outs}"


def check(chk, rng, n_cases: int = 250) -> dict[str, Any]:
    cases = [gen_case(rng) for _ in range(n_cases)]
    # a fixed corpus: the bypass of a Transpose pair, a removed node that is still an output, an If capture
    cases += [
        {"nodes": [[0, [0], 3], [0, [3], 4], [1, [4], 5]], "outs": [5], "ops": [["replace", 4, 0], ["remove", [3, 4]]]},
        {"nodes": [[0, [0], 3], [1, [3], 4]], "outs": [3, 4], "ops": [["remove", [3]]]},
        {"nodes": [[0, [0], 3], [F_IF, [2, 3], 4]], "outs": [4], "ops": [["replace", 3, 0], ["remove", [3]]]},
        {"nodes": [[0, [0], 3], [F_IF, [2, 3, 1], 4], [3, [4, 3], 5]], "outs": [5, 3], "ops": [["replace", 3, 1]]},
    ]
    real = []
    kept = []
    for c in cases:
        try:
            real.append(real_edit(c))
            kept.append(c)
        except Exception as e:  # noqa: BLE001   (e.g. onnx_ir refuses to remove a node that is still used)
            real.append(f"raises:{type(e).__name__}")
            kept.append(c)
    answers = common.run_driver("C02G", [json.dumps(dict(c, g="edit")) for c in kept])
    agree = raised = 0
    bad = []
    with_if = sum(1 for c in kept if any(n[0] == F_IF for n in c["nodes"]))
    for c, r, a in zip(kept, real, answers):
        if a.startswith("error"):
            raise RuntimeError(f"C02G edit: {a} on {c}")
        if r.startswith("raises:"):
            raised += 1       # the library refuses the edit: nothing to compare
            continue
        if r == a:
            agree += 1
        else:
            bad.append({"case": c, "onnx_ir": r, "model": a})
        chk.count({"edit_case": c["ops"], "n": len(c["nodes"])}, nontrivial=True)
    for b in bad[:3]:
        chk.violation({"correspondence": "Model/GraphEdit.lean vs onnx_ir replace_all_uses_with / graph.remove",
                       **b, "how": "harness/c02_edits.py::real_edit(case) vs the C02G driver on the same case"},
                      name="graph-edit-correspondence", no_failing_input=True)
    return {"cases": len(kept), "agree": agree, "library_refused": raised, "disagree": len(bad), "cases_with_If_capture": with_if}
