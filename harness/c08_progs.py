"""C08 — programs in which ONE `@onnx_function` is called at several call sites of the same model.

The function bodies are polymorphic in element type and shape, so every component of the exporter's
function-instance key (operand element type, extent, rank, symbolic vs concrete extent, static keyword
argument, captured constant) can differ between two call sites while everything else is equal.  For
each component there are programs whose call sites differ ONLY in that component: an instance key that
forgets the component makes the two call sites share one body, whose annotations are then false at
the second call site (observed per call site by harness/c08_fninline.py).

Descriptions are plain JSON: {"kind": "fncalls", "name": …, "fn": <FN key>, "sites": [[operand…]…],
"kw": [kwargs per site] | None, "join": bool}; an operand is [shape, dtype name].
"""
from __future__ import annotations

from typing import Callable, Optional

import common

common.use_repo()

import jax  # noqa: E402
import jax.numpy as jnp  # noqa: E402
from jax import lax  # noqa: E402

from jax2onnx import onnx_function  # noqa: E402


# ----------------------------------------------------------------------------- polymorphic functions
# (module level: a decorated function must be reachable as a module attribute)


@onnx_function
def c08_mirror(x):
    return x + jnp.flip(x, axis=0) * x


@onnx_function
def c08_bin(a, b):
    return a * b + a


@onnx_function
def c08_unary_chain(x):
    return jnp.abs(-x) * x


@onnx_function
def c08_reduce(x):
    return x.sum(axis=-1, keepdims=True) + x


@onnx_function
def c08_layout(x):
    return jnp.swapaxes(x, 0, -1) * jnp.swapaxes(x, 0, -1)


@onnx_function
def c08_flat(x):
    return x.reshape((-1,)) * x.reshape((-1,))


@onnx_function
def c08_loop(x):
    return lax.fori_loop(0, 3, lambda i, c: c + c * c, x)


@onnx_function
def c08_inner(x):
    return x * x + x


@onnx_function
def c08_outer(x):
    return c08_inner(x) - jnp.flip(c08_inner(x), axis=0)


@onnx_function
def c08_axis(x, axis=0):
    return jnp.concatenate([x, x], axis=axis)


@onnx_function
def c08_where(x):
    return jnp.where(x > x.min(), x, -x)


@onnx_function
def c08_cond(x):
    return lax.cond(x.sum() > 0, lambda z: z + z, lambda z: z * z, x)


# key -> NAME of the module attribute: the exporter patches module attributes while it traces, so a call site
# must look the function up through the module at call time (a reference taken earlier bypasses the patch and
# the call is traced inline instead of becoming an ONNX function)
FN: dict[str, str] = {
    "mirror": "c08_mirror", "bin": "c08_bin", "unary_chain": "c08_unary_chain", "reduce": "c08_reduce",
    "layout": "c08_layout", "flat": "c08_flat", "loop": "c08_loop", "outer": "c08_outer", "axis": "c08_axis",
    "where": "c08_where", "cond": "c08_cond",
}
ARITY = {"bin": 2}

# float16 operands are left out on purpose: the exporter's float16 defect class (outputs declared tensor(float),
# known findings F-C08-float16-softmax / notes/C11.md) would show at every such call site
DTYPES = {"f32": jnp.float32, "i32": jnp.int32, "i8": jnp.int8, "u8": jnp.uint8}

# call-site variations: (label, operand of site 1, operand of site 2) — they differ in ONE component
VARIATIONS = [
    ("dtype_f32_i32", [[4, 3], "f32"], [[4, 3], "i32"]),
    ("dtype_i32_f32", [[4, 3], "i32"], [[4, 3], "f32"]),
    ("dtype_i8_u8", [[2, 5], "i8"], [[2, 5], "u8"]),
    ("dtype_i32_i8", [[3, 2], "i32"], [[3, 2], "i8"]),
    ("extent", [[4, 3], "f32"], [[4, 5], "f32"]),
    ("extent_lead", [[2, 3], "f32"], [[6, 3], "f32"]),
    ("perm_extent", [[2, 3], "f32"], [[3, 2], "f32"]),
    ("rank", [[4, 3], "f32"], [[2, 4, 3], "f32"]),
    ("symbolic", [["B", 3], "f32"], [[4, 3], "f32"]),
    ("symbolic_dtype", [["B", 3], "f32"], [["B", 3], "i32"]),
    ("same", [[4, 3], "f32"], [[4, 3], "f32"]),
]


def all_descs() -> list[dict]:
    out = []
    for fk in FN:
        if fk == "axis":
            continue
        for label, a, b in VARIATIONS:
            n = ARITY.get(fk, 1)
            out.append({"kind": "fncalls", "name": f"fncalls_{fk}_{label}", "fn": fk,
                        "sites": [[a] * n, [b] * n], "kw": None, "join": False})
    # static keyword argument (part of the instance key through the captured parameters)
    out.append({"kind": "fncalls", "name": "fncalls_axis_kw", "fn": "axis",
                "sites": [[[[4, 3], "f32"]], [[[4, 3], "f32"]]], "kw": [{"axis": 0}, {"axis": 1}], "join": False})
    out.append({"kind": "fncalls", "name": "fncalls_axis_kw_dtype", "fn": "axis",
                "sites": [[[[4, 3], "f32"]], [[[4, 3], "i32"]]], "kw": [{"axis": 1}, {"axis": 1}], "join": False})
    # three call sites, the middle one differing; and a call site fed by another call's result
    out.append({"kind": "fncalls", "name": "fncalls_mirror_three", "fn": "mirror",
                "sites": [[[[4, 3], "f32"]], [[[4, 3], "i32"]], [[[4, 3], "f32"]]], "kw": None, "join": False})
    out.append({"kind": "fncalls", "name": "fncalls_mirror_chain", "fn": "mirror",
                "sites": [[[[4, 3], "f32"]], [[[4, 3], "i32"]]], "kw": None, "join": True})
    return out


def plan(rng: common.Rng, thorough: bool) -> list[dict]:
    """Every variation for a rotating subset of the functions (quick) / for all of them (thorough); the
    element-type and extent variations of two fixed functions are always part of the plan."""
    descs = all_descs()
    if thorough:
        return descs
    always = [d for d in descs if d["fn"] in ("mirror", "axis")
              or d["name"] in ("fncalls_bin_dtype_f32_i32", "fncalls_outer_dtype_f32_i32", "fncalls_loop_dtype_f32_i32",
                               "fncalls_reduce_extent", "fncalls_layout_perm_extent")]
    rest = [d for d in descs if d not in always]
    return always + rng.sample(rest, min(14, len(rest)))


def build(desc: dict) -> tuple[Callable, list]:
    fname = FN[desc["fn"]]

    def f(*a, **k):
        return globals()[fname](*a, **k)

    sites = desc["sites"]
    kws = desc.get("kw") or [{} for _ in sites]
    counts = [len(s) for s in sites]
    specs = []
    for s in sites:
        for shape, dt in s:
            specs.append(jax.ShapeDtypeStruct(tuple(shape), DTYPES[dt]))
    join = bool(desc.get("join"))

    def prog(*args):
        outs = []
        k = 0
        for n, kw in zip(counts, kws):
            r = f(*args[k:k + n], **kw)
            k += n
            outs.append(r)
        if join:                       # the first call's result feeds one more call of the same function
            outs.append(f(*([outs[0]] * counts[0]), **kws[0]))
        return tuple(outs)

    return prog, specs


def export(desc: dict, cfg: Optional[dict] = None):
    """-> progs.Export (same record type as the shared generator, so the check treats both alike)"""
    import time
    import progs
    from jax2onnx import to_onnx
    cfg = dict(progs.default_cfg(), **(cfg or {}))
    ex = progs.Export(desc=desc, cfg=cfg)
    t0 = time.time()
    try:
        fn, specs = build(desc)
        shapes = []
        for s in specs:
            shp = tuple((d if cfg.get("symbolic", True) else 2) if isinstance(d, str) else d for d in s.shape)
            shapes.append(jax.ShapeDtypeStruct(shp, s.dtype))
        ex.proto = to_onnx(fn, shapes, opset=int(cfg["opset"]), enable_double_precision=bool(cfg["dp"]),
                           return_mode="proto")
    except Exception as e:          # loud failure: not this property's subject
        ex.error = f"{type(e).__name__}: {str(e)[:300]}"
    ex.seconds = time.time() - t0
    return ex
