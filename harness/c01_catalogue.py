"""C01 catalogue: one-primitive programs whose lowering contains value-dependent discrete
choices, their export with the real `to_onnx`, and the translation of the exported graph into a
Lean term over the operator vocabulary of lean/J2O/Model/C01.lean.

Used by harness/props/c01.py (generate / validate).  Nothing here knows what the recipe *should*
be: the graph is translated as it is; operators or constants outside the vocabulary become
`Op.unknown`, so the corresponding theorem fails closed.
"""
from __future__ import annotations

from dataclasses import dataclass, field
from fractions import Fraction
from typing import Any, Callable, Optional

import numpy as np

DT_OF_ONNX = {1: "f32", 11: "f64", 9: "bool", 3: "i8", 5: "i16", 6: "i32", 7: "i64",
              2: "u8", 4: "u16", 12: "u32", 13: "u64"}
DT_OF_NP = {"float32": "f32", "float64": "f64", "bool": "bool", "int8": "i8", "int16": "i16",
            "int32": "i32", "int64": "i64", "uint8": "u8", "uint16": "u16", "uint32": "u32",
            "uint64": "u64"}

OPS = {
    "Identity": "identity", "Neg": "neg", "Abs": "abs", "Sign": "sign", "Not": "not",
    "BitwiseNot": "bitNot", "Floor": "floor", "Ceil": "ceil", "Round": "round", "Cast": "cast",
    "Add": "add", "Sub": "sub", "Mul": "mul", "Div": "div", "Pow": "pow", "Max": "max", "Min": "min",
    "And": "and", "Or": "or", "Xor": "xor", "BitwiseAnd": "bitAnd", "BitwiseOr": "bitOr",
    "BitwiseXor": "bitXor", "Equal": "eq", "Less": "lt", "LessOrEqual": "le", "Greater": "gt",
    "GreaterOrEqual": "ge", "Where": "where_", "Clip": "clip",
}
ARITY = {"identity": 1, "neg": 1, "abs": 1, "sign": 1, "not": 1, "bitNot": 1, "floor": 1, "ceil": 1,
         "round": 1, "cast": 1, "where_": 3, "clip": 3}


@dataclass
class Entry:
    name: str                       # Lean identifier suffix / driver name
    key: str                        # semantic key of jaxSem
    t: str                          # dtype given to jaxSem
    fn: Callable
    in_dts: list                    # numpy dtypes of the inputs
    kind: str = "scalar"            # scalar | arg | cum | onehot
    bits: bool = False              # belongs to the exhaustive fixed-width group (Gen/C01Bits)
    mode: str = "ideal"             # evaluation mode the Lean theorem / the ORT comparison uses
    extra: dict = field(default_factory=dict)


def entries() -> list[Entry]:
    import jax
    import jax.numpy as jnp
    from jax import lax
    i32, i8, u8, f32, b = np.int32, np.int8, np.uint8, np.float32, np.bool_
    E = Entry
    out: list[Entry] = [
        # ---- integer arithmetic with sign-dependent choices (ℤ, no-overflow reading)
        E("div_i32", "div", "i32", lambda x, y: lax.div(x, y), [i32, i32]),
        E("rem_i32", "rem", "i32", lambda x, y: lax.rem(x, y), [i32, i32]),
        E("floor_divide_i32", "floor_divide", "i32", lambda x, y: jnp.floor_divide(x, y), [i32, i32]),
        E("mod_i32", "mod", "i32", lambda x, y: jnp.mod(x, y), [i32, i32]),
        E("fmod_i32", "rem", "i32", lambda x, y: jnp.fmod(x, y), [i32, i32]),
        E("sign_i32", "sign", "i32", lambda x: lax.sign(x), [i32]),
        E("jnp_sign_i32", "sign", "i32", lambda x: jnp.sign(x), [i32]),
        E("abs_i32", "abs", "i32", lambda x: lax.abs(x), [i32]),
        E("neg_i32", "neg", "i32", lambda x: lax.neg(x), [i32]),
        E("max_i32", "max", "i32", lambda x, y: lax.max(x, y), [i32, i32]),
        E("min_i32", "min", "i32", lambda x, y: lax.min(x, y), [i32, i32]),
        E("clamp_i32", "clamp", "i32", lambda lo, x, hi: lax.clamp(lo, x, hi), [i32, i32, i32]),
        E("clip_i32", "clip", "i32", lambda x, lo, hi: jnp.clip(x, lo, hi), [i32, i32, i32]),
        E("ipow0_i32", "ipow0", "i32", lambda x: lax.integer_pow(x, 0), [i32]),
        E("ipow1_i32", "ipow1", "i32", lambda x: lax.integer_pow(x, 1), [i32]),
        E("ipow2_i32", "ipow2", "i32", lambda x: lax.integer_pow(x, 2), [i32]),
        E("ipow3_i32", "ipow3", "i32", lambda x: lax.integer_pow(x, 3), [i32]),
        E("ipow4_i32", "ipow4", "i32", lambda x: lax.integer_pow(x, 4), [i32]),
        E("eq_i32", "eq", "i32", lambda x, y: lax.eq(x, y), [i32, i32]),
        E("ne_i32", "ne", "i32", lambda x, y: lax.ne(x, y), [i32, i32]),
        E("lt_i32", "lt", "i32", lambda x, y: lax.lt(x, y), [i32, i32]),
        E("le_i32", "le", "i32", lambda x, y: lax.le(x, y), [i32, i32]),
        E("gt_i32", "gt", "i32", lambda x, y: lax.gt(x, y), [i32, i32]),
        E("ge_i32", "ge", "i32", lambda x, y: lax.ge(x, y), [i32, i32]),
        E("select_n2_i32", "select_n2", "i32", lambda p, a, c: lax.select_n(p, a, c), [b, i32, i32]),
        E("select_n3_i32", "select_n3", "i32", lambda p, a, c, d: lax.select_n(p, a, c, d),
          [i32, i32, i32, i32]),
        E("select_i32", "select", "i32", lambda p, a, c: lax.select(p, a, c), [b, i32, i32]),
        E("where_i32", "select", "i32", lambda p, a, c: jnp.where(p, a, c), [b, i32, i32]),
        E("not_bool", "not", "bool", lambda x: lax.bitwise_not(x), [b]),
        E("and_bool", "and", "bool", lambda x, y: lax.bitwise_and(x, y), [b, b]),
        E("or_bool", "or", "bool", lambda x, y: lax.bitwise_or(x, y), [b, b]),
        E("xor_bool", "xor", "bool", lambda x, y: lax.bitwise_xor(x, y), [b, b]),
        E("cvt_i32_bool", "to_bool", "bool", lambda x: lax.convert_element_type(x, jnp.bool_), [i32]),
        E("cvt_bool_i32", "bool_to_int", "i32", lambda x: lax.convert_element_type(x, jnp.int32), [b]),
        E("cvt_i32_i8", "i2i", "i8", lambda x: lax.convert_element_type(x, jnp.int8), [i32], mode="fixed"),
        E("cvt_i32_u8", "i2i", "u8", lambda x: lax.convert_element_type(x, jnp.uint8), [i32], mode="fixed"),
        # ---- ℚ (exact on the values that matter: half-integers, small dyadics)
        E("round_even_f32", "round_even", "f32",
          lambda x: lax.round(x, lax.RoundingMethod.TO_NEAREST_EVEN), [f32]),
        E("round_away_f32", "round_away", "f32", lambda x: lax.round(x), [f32]),
        E("jnp_round_f32", "round_even", "f32", lambda x: jnp.round(x), [f32]),
        E("floor_f32", "floor", "f32", lambda x: lax.floor(x), [f32]),
        E("ceil_f32", "ceil", "f32", lambda x: lax.ceil(x), [f32]),
        E("sign_f32", "sign", "f32", lambda x: lax.sign(x), [f32]),
        E("abs_f32", "abs", "f32", lambda x: lax.abs(x), [f32]),
        E("neg_f32", "neg", "f32", lambda x: lax.neg(x), [f32]),
        E("max_f32", "max", "f32", lambda x, y: lax.max(x, y), [f32, f32]),
        E("min_f32", "min", "f32", lambda x, y: lax.min(x, y), [f32, f32]),
        E("clamp_f32", "clamp", "f32", lambda lo, x, hi: lax.clamp(lo, x, hi), [f32, f32, f32]),
        E("rem_f32", "rem", "f32", lambda x, y: lax.rem(x, y), [f32, f32]),
        E("cvt_f32_i32", "f2i", "i32", lambda x: lax.convert_element_type(x, jnp.int32), [f32]),
        E("cvt_f32_bool", "to_bool", "bool", lambda x: lax.convert_element_type(x, jnp.bool_), [f32]),
        # ---- fixed width is the point (8-bit: proved by complete enumeration in the kernel)
        E("shl_u8", "shl", "u8", lambda x, s: lax.shift_left(x, s), [u8, u8], bits=True, mode="fixed"),
        E("shrl_u8", "shrl", "u8", lambda x, s: lax.shift_right_logical(x, s), [u8, u8], bits=True, mode="fixed"),
        E("shra_u8", "shra", "u8", lambda x, s: lax.shift_right_arithmetic(x, s), [u8, u8], bits=True, mode="fixed"),
        E("shl_i8", "shl", "i8", lambda x, s: lax.shift_left(x, s), [i8, i8], bits=True, mode="fixed"),
        E("shrl_i8", "shrl", "i8", lambda x, s: lax.shift_right_logical(x, s), [i8, i8], bits=True, mode="fixed"),
        E("shra_i8", "shra", "i8", lambda x, s: lax.shift_right_arithmetic(x, s), [i8, i8], bits=True, mode="fixed"),
        E("bnot_i8", "bnot", "i8", lambda x: lax.bitwise_not(x), [i8], bits=True, mode="fixed"),
        E("bnot_u8", "bnot", "u8", lambda x: lax.bitwise_not(x), [u8], bits=True, mode="fixed"),
        E("band_i8", "band", "i8", lambda x, y: lax.bitwise_and(x, y), [i8, i8], bits=True, mode="fixed"),
        E("bor_u8", "bor", "u8", lambda x, y: lax.bitwise_or(x, y), [u8, u8], bits=True, mode="fixed"),
        E("bxor_i8", "bxor", "i8", lambda x, y: lax.bitwise_xor(x, y), [i8, i8], bits=True, mode="fixed"),
        E("popcnt_u8", "popcnt", "u8", lambda x: lax.population_count(x), [u8], bits=True, mode="fixed"),
        E("popcnt_i8", "popcnt", "i8", lambda x: lax.population_count(x), [i8], bits=True, mode="fixed"),
        E("clz_u8", "clz", "u8", lambda x: lax.clz(x), [u8], bits=True, mode="fixed"),
        E("clz_i8", "clz", "i8", lambda x: lax.clz(x), [i8], bits=True, mode="fixed"),
        E("neg_i8", "wneg", "i8", lambda x: lax.neg(x), [i8], bits=True, mode="fixed"),
        E("abs_i8", "wabs", "i8", lambda x: lax.abs(x), [i8], bits=True, mode="fixed"),
        # 32-bit signed shifts: the same lowering code with width 32 (recipe regenerated, executed)
        E("shl_i32", "shl", "i32", lambda x, s: lax.shift_left(x, s), [i32, i32], mode="fixed"),
        E("shrl_i32", "shrl", "i32", lambda x, s: lax.shift_right_logical(x, s), [i32, i32], mode="fixed"),
        E("shra_i32", "shra", "i32", lambda x, s: lax.shift_right_arithmetic(x, s), [i32, i32], mode="fixed"),
        # ---- tensor level
        E("argmax_i32", "argmax", "i32", lambda x: lax.argmax(x, 0, jnp.int32), [i32], kind="arg"),
        E("argmin_i32", "argmin", "i32", lambda x: lax.argmin(x, 0, jnp.int32), [i32], kind="arg"),
        E("jnp_argmax_i32", "argmax", "i32", lambda x: jnp.argmax(x), [i32], kind="arg"),
        E("cumsum_i32", "cumsum", "i32", lambda x: lax.cumsum(x, axis=0), [i32], kind="cum",
          extra={"reverse": False}),
        E("cumsum_rev_i32", "cumsum", "i32", lambda x: lax.cumsum(x, axis=0, reverse=True), [i32],
          kind="cum", extra={"reverse": True}),
        E("jnp_cumsum_i32", "cumsum", "i32", lambda x: jnp.cumsum(x), [i32], kind="cum",
          extra={"reverse": False}),
        E("one_hot_5", "one_hot", "i32", lambda x: jax.nn.one_hot(x, 5), [i32], kind="onehot",
          extra={"depth": 5}),
    ]
    return out


# --------------------------------------------------------------------------------------- export


VEC = 6     # length of the 1-D tensors the one-primitive programs are exported with


def export(e: Entry):
    import jax
    from jax2onnx import to_onnx
    specs = [jax.ShapeDtypeStruct((VEC,), dt) for dt in e.in_dts]
    return to_onnx(e.fn, specs, model_name=e.name)


def _elem_types(model) -> dict:
    import onnx
    types: dict[str, int] = {}
    try:
        inferred = onnx.shape_inference.infer_shapes(model, strict_mode=False)
    except Exception:
        inferred = model
    g = inferred.graph
    for vi in list(g.input) + list(g.output) + list(g.value_info):
        if vi.type.WhichOneof("value") == "tensor_type":
            types[vi.name] = vi.type.tensor_type.elem_type
    for init in g.initializer:
        types[init.name] = init.data_type
    return types


def _lean_int(n: int) -> str:
    return f"({n})" if n < 0 else str(n)


def _const_val(arr: np.ndarray) -> Optional[str]:
    """A scalar / splat constant as a Lean `Val`, or None if it is not one."""
    flat = np.asarray(arr).reshape(-1)
    if flat.size == 0 or not (flat == flat[0]).all():
        return None
    v = flat[0]
    if flat.dtype == np.bool_:
        return f".b {'true' if bool(v) else 'false'}"
    if np.issubdtype(flat.dtype, np.integer):
        return f".i {_lean_int(int(v))}"
    if np.issubdtype(flat.dtype, np.floating):
        if not np.isfinite(v):
            return None
        fr = Fraction(float(v))
        return f".q (mkRat {_lean_int(fr.numerator)} {fr.denominator})"
    return None


def translate_scalar(model) -> dict:
    """ONNX graph -> {'inputs': [dt], 'nodes': [(lean_op, ty, argTy, [idx])], 'out': idx,
    'unknown': [...]}.  Value list = graph inputs, then one value per emitted node."""
    from onnx import numpy_helper, helper
    g = model.graph
    types = _elem_types(model)
    inits = {i.name: numpy_helper.to_array(i) for i in g.initializer}
    idx: dict[str, int] = {}
    inputs = []
    for vi in g.input:
        if vi.name in inits:
            continue
        idx[vi.name] = len(idx)
        inputs.append(DT_OF_ONNX.get(types.get(vi.name, 0), "f32"))
    nodes: list = []
    unknown: list = []

    def emit(op: str, ty: str, aty: str, args: list, outname: str):
        idx[outname] = len(inputs) + len(nodes)
        nodes.append((op, ty, aty, args))

    def dt_of(name: str) -> Optional[str]:
        return DT_OF_ONNX.get(types.get(name, 0))

    for name, arr in inits.items():
        cv = _const_val(arr)
        ty = DT_OF_NP.get(str(arr.dtype))
        if cv is None or ty is None:
            unknown.append(f"initializer {name} {arr.dtype}{arr.shape}")
            emit(f".unknown \"initializer\"", ty or "f32", ty or "f32", [], name)
        else:
            emit(f".const ({cv})", ty, ty, [], name)
    for n in g.node:
        attrs = {a.name: helper.get_attribute_value(a) for a in n.attribute}
        outname = n.output[0]
        ty = dt_of(outname)
        args_ok = all(a in idx for a in n.input)
        args = [idx.get(a, 0) for a in n.input]
        aty = dt_of(n.input[0]) if n.input else ty
        op: Optional[str] = None
        if n.op_type == "Constant" and "value" in attrs:
            arr = numpy_helper.to_array(attrs["value"])
            cv = _const_val(arr)
            cty = DT_OF_NP.get(str(arr.dtype))
            if cv is not None and cty is not None:
                emit(f".const ({cv})", cty, cty, [], outname)
                continue
        elif n.op_type in OPS:
            lop = OPS[n.op_type]
            want = ARITY.get(lop, 2)
            if len(n.input) == want:
                op = "." + lop
            elif lop in ("max", "min") and len(n.input) == 1:
                op = ".identity"
        elif n.op_type == "Mod" and len(n.input) == 2:
            op = f".mod {'true' if int(attrs.get('fmod', 0)) == 1 else 'false'}"
        elif n.op_type == "BitShift" and len(n.input) == 2:
            d = attrs.get("direction", b"")
            d = d.decode() if isinstance(d, bytes) else str(d)
            op = ".shl" if d == "LEFT" else ".shr" if d == "RIGHT" else None
        if n.op_type == "Cast" and ty is None:
            ty = DT_OF_ONNX.get(int(attrs.get("to", 0)))
        if op is None or ty is None or aty is None or not args_ok or len(n.output) != 1:
            unknown.append(f"{n.op_type}({len(n.input)} inputs)")
            emit(f".unknown {_lean_str(n.op_type)}", ty or "f32", aty or "f32", args, outname)
            for extra in n.output[1:]:
                emit(f".unknown {_lean_str(n.op_type)}", "f32", "f32", [], extra)
        else:
            emit(op, ty, aty, args, outname)
    out = idx.get(g.output[0].name, 0)
    return {"inputs": inputs, "nodes": nodes, "out": out, "unknown": unknown}


def _lean_str(s: str) -> str:
    import json
    return json.dumps(s)


def recipe_to_lean(name: str, tr: dict) -> str:
    ins = ", ".join("." + d for d in tr["inputs"])
    rows = [f"⟨{op}, .{ty}, .{aty}, [{', '.join(map(str, args))}]⟩" for op, ty, aty, args in tr["nodes"]]
    body = ",\n    ".join(rows)
    return (f"def recipe_{name} : Recipe :=\n  {{ inputs := [{ins}],\n    nodes := [\n    {body}],\n"
            f"    out := {tr['out']} }}\n")


def translate_tensor(model) -> dict:
    """Tensor-level entry: node list with the integer attributes that matter; constants feeding
    OneHot (depth, values) / CumSum (axis) are folded into attributes of the consuming node."""
    from onnx import numpy_helper, helper
    g = model.graph
    inits = {i.name: numpy_helper.to_array(i) for i in g.initializer}
    nodes = []
    for n in g.node:
        attrs = []
        for a in n.attribute:
            v = helper.get_attribute_value(a)
            if isinstance(v, (int, np.integer)):
                attrs.append((a.name, int(v)))
        if n.op_type == "OneHot" and len(n.input) == 3:
            d = inits.get(n.input[1])
            vals = inits.get(n.input[2])
            if d is not None and np.asarray(d).size == 1:
                attrs.append(("depth", int(np.asarray(d).reshape(-1)[0])))
            if vals is not None and np.asarray(vals).size == 2:
                fv = np.asarray(vals).reshape(-1)
                if float(fv[0]) == int(fv[0]) and float(fv[1]) == int(fv[1]):
                    attrs.append(("off", int(fv[0])))
                    attrs.append(("on", int(fv[1])))
                else:
                    attrs.append(("off", -999))
        if n.op_type == "CumSum" and len(n.input) == 2:
            ax = inits.get(n.input[1])
            if ax is not None and np.asarray(ax).size == 1:
                attrs.append(("axis_input", int(np.asarray(ax).reshape(-1)[0])))
        nodes.append((n.op_type, attrs))
    return {"nodes": nodes}


def trecipe_to_lean(name: str, tr: dict) -> str:
    rows = []
    for op, attrs in tr["nodes"]:
        al = ", ".join(f"({_lean_str(k)}, {_lean_int(v)})" for k, v in attrs)
        rows.append(f"⟨{_lean_str(op)}, [{al}]⟩")
    return f"def t_{name} : TRecipe := ⟨[{', '.join(rows)}]⟩\n"


def generate_sources(es: Optional[list[Entry]] = None) -> tuple[str, str, dict]:
    """(Gen/C01Bits.lean, Gen/C01.lean, info).  Export failures are translated into a recipe
    consisting of one unknown operator (the theorem about it cannot be proved)."""
    es = es or entries()
    info: dict[str, Any] = {}
    models: dict[str, Any] = {}
    bits_defs, main_defs, tdefs = [], [], []
    bits_names, main_names, tnames = [], [], []
    for e in es:
        try:
            model = export(e)
            err = None
        except Exception as ex:   # the exporter refuses the program
            model, err = None, f"{type(ex).__name__}: {ex}"[:300]
        models[e.name] = model
        if e.kind == "scalar":
            if model is None:
                tr = {"inputs": [DT_OF_NP[np.dtype(d).name] for d in e.in_dts],
                      "nodes": [(".unknown \"export-failed\"", "f32", "f32", [])], "out": len(e.in_dts),
                      "unknown": ["export failed"]}
            else:
                tr = translate_scalar(model)
            src = recipe_to_lean(e.name, tr)
            (bits_defs if e.bits else main_defs).append(src)
            (bits_names if e.bits else main_names).append(e.name)
            info[e.name] = {"nodes": len(tr["nodes"]), "unknown": tr["unknown"], "export_error": err,
                            "ops": sorted({n.op_type for n in model.graph.node}) if model else []}
        else:
            tr = translate_tensor(model) if model is not None else {"nodes": [("export-failed", [])]}
            tdefs.append(trecipe_to_lean(e.name, tr))
            tnames.append(e.name)
            info[e.name] = {"nodes": len(tr["nodes"]), "export_error": err,
                            "ops": [n for n, _ in tr["nodes"]]}
    hdr = "/- GENERATED by harness/props/c01.py from /repo on every run — do not edit. -/\n"
    bits = (hdr + "import J2O.Model.C01\nnamespace J2O.Gen.C01\nopen J2O.C01\n\n" + "\n".join(bits_defs) +
            "\ndef recipesBits : List (String × Recipe) := [\n  " +
            ",\n  ".join(f"({_lean_str(n)}, recipe_{n})" for n in bits_names) + "]\n\nend J2O.Gen.C01\n")
    main = (hdr + "import J2O.Gen.C01Bits\nnamespace J2O.Gen.C01\nopen J2O.C01\n\n" + "\n".join(main_defs) +
            "\n" + "\n".join(tdefs) +
            "\ndef recipes : List (String × Recipe) := recipesBits ++ [\n  " +
            ",\n  ".join(f"({_lean_str(n)}, recipe_{n})" for n in main_names) + "]\n\n" +
            "def trecipes : List (String × TRecipe) := [\n  " +
            ",\n  ".join(f"({_lean_str(n)}, t_{n})" for n in tnames) + "]\n\nend J2O.Gen.C01\n")
    info["__models__"] = models
    return bits, main, info


# ======================================================================================= round 2
# Tensor-level entries as dataflow graphs (lean/J2O/Model/C01Tensor.lean): the whole exported graph
# is translated node by node (true translation); operators / attribute values / constants outside
# the vocabulary become `GOp.unknown`, so the theorem about the entry fails closed.


@dataclass
class GEntry:
    name: str
    jax: str                        # semantic key (+ static parameters) of jaxSemT
    fn: Callable
    in_dts: list
    shapes: list                    # static shapes the program is exported with
    gens: list                      # per input: ("vals", n) | ("idx", n, extent) | ("bools", n) | ("start", extent)
    kinds: Optional[Callable] = None    # inputs -> kind of a mismatch (key of known findings)
    generic: tuple = ()             # other extents for which the recipe must be the SAME term
    ideal_ok: Optional[Callable] = None  # inputs -> inside the no-overflow domain of the ℤ statement?
    kind: str = "graph"


def gentries() -> list[GEntry]:
    import jax.numpy as jnp
    from jax import lax
    i32, f32, b = np.int32, np.float32, np.bool_
    N, K = VEC, 4
    G = GEntry
    v1 = [("vals", N)]

    def oob(ext):
        return lambda ins: "index_out_of_bounds" if any(int(i) < -ext or int(i) >= ext for i in ins[1]) else "other"

    def dsk(ext, size):
        def k(ins):
            i = int(ins[1][0])
            j = i + ext if i < 0 else i
            return "start_needs_clamping" if (j < 0 or j > ext - size) else "other"
        return k
    def fits(extra):
        return lambda ins: sum(abs(int(v)) for v in ins[0]) + extra < 2 ** 31 if extra == 0 else \
            max([abs(int(v)) for v in ins[0]] + [0]) + extra < 2 ** 31
    return [
        G("rev_i32", "rev", lambda x: lax.rev(x, (0,)), [i32], [(N,)], v1, generic=(1, 3)),
        G("flip_i32", "rev", lambda x: jnp.flip(x), [i32], [(N,)], v1, generic=(1, 3)),
        G("roll_p2_i32", "roll 2", lambda x: jnp.roll(x, 2), [i32], [(N,)], v1),
        G("roll_m1_i32", "roll -1", lambda x: jnp.roll(x, -1), [i32], [(N,)], v1),
        G("pad_pos_i32", "pad 2 1 7", lambda x: lax.pad(x, jnp.int32(7), [(2, 1, 0)]), [i32], [(N,)], v1,
          generic=(0, 1, 3)),
        G("pad_neglo_i32", "pad -2 1 7", lambda x: lax.pad(x, jnp.int32(7), [(-2, 1, 0)]), [i32], [(N,)], v1,
          generic=(2, 3)),
        G("pad_neghi_i32", "pad 1 -3 7", lambda x: lax.pad(x, jnp.int32(7), [(1, -3, 0)]), [i32], [(N,)], v1,
          generic=(3, 4)),
        G("iota_i32", "addiota", lambda x: x + lax.iota(jnp.int32, N), [i32], [(N,)], v1, ideal_ok=fits(8)),
        G("arange_i32", "addarange 2 14 2", lambda x: x + jnp.arange(2, 14, 2, dtype=jnp.int32), [i32], [(N,)], v1,
          ideal_ok=fits(16)),
        G("reduce_max_i32", "max", lambda x: jnp.max(x), [i32], [(N,)], v1, generic=(1, 3)),
        G("reduce_min_i32", "min", lambda x: jnp.min(x), [i32], [(N,)], v1, generic=(1, 3)),
        G("reduce_sum_i32", "sum", lambda x: jnp.sum(x), [i32], [(N,)], v1, generic=(0, 1, 3), ideal_ok=fits(0)),
        G("reduce_prod_i32", "prod", lambda x: jnp.prod(x), [i32], [(N,)], [("small", N)], generic=(0, 1, 3)),
        G("reduce_all_bool", "all", lambda x: jnp.all(x), [b], [(N,)], [("bools", N)], generic=(0, 1, 3)),
        G("reduce_any_bool", "any", lambda x: jnp.any(x), [b], [(N,)], [("bools", N)], generic=(0, 1, 3)),
        G("cummax_f32", "cummax 0", lambda x: lax.cummax(x, axis=0), [f32], [(N,)], v1),
        G("cummax_rev_f32", "cummax 1", lambda x: lax.cummax(x, axis=0, reverse=True), [f32], [(N,)], v1),
        G("cummin_f32", "cummin 0", lambda x: lax.cummin(x, axis=0), [f32], [(N,)], v1),
        G("cummax_i32", "cummax 0", lambda x: lax.cummax(x, axis=0), [i32], [(N,)], v1),
        G("cumprod_i32", "cumprod 0", lambda x: lax.cumprod(x, axis=0), [i32], [(N,)], [("small", N)]),
        G("dynamic_slice_3", "dslice 3", lambda x, i: lax.dynamic_slice(x, (i[0],), (3,)), [i32, i32], [(N,), (1,)],
          [("vals", N), ("start", N)], kinds=dsk(N, 3)),
        G("take_clip_i32", "takeclip", lambda x, i: jnp.take(x, i, mode="clip"), [i32, i32], [(N,), (K,)],
          [("vals", N), ("idx", K, N)]),
        G("take_wrap_i32", "takewrap", lambda x, i: jnp.take(x, i, mode="wrap"), [i32, i32], [(N,), (K,)],
          [("vals", N), ("idx", K, N)]),
        G("index_i32", "index", lambda x, i: x[i], [i32, i32], [(N,), (K,)], [("vals", N), ("idx", K, N)],
          kinds=oob(N)),
        G("sort_i32", "sort", lambda x: lax.sort(x), [i32], [(N,)], [("ties", N)]),
        G("argsort_i32", "argsort", lambda x: jnp.argsort(x), [i32], [(N,)], [("ties", N)]),
        G("top_k3_i32", "topk 3", lambda x: lax.top_k(x, 3), [i32], [(N,)], [("ties", N)]),
    ]


def gexport(e: GEntry, shapes: Optional[list] = None):
    import jax
    from jax2onnx import to_onnx
    specs = [jax.ShapeDtypeStruct(tuple(s), dt) for s, dt in zip(shapes or e.shapes, e.in_dts)]
    return to_onnx(e.fn, specs, model_name=e.name)


_G_SIMPLE = {"Identity": ".identity", "Neg": ".neg", "Not": ".not", "Where": ".where_", "Shape": ".shape",
             "Squeeze": ".squeeze", "Unsqueeze": ".unsqueeze", "Reshape": ".reshape", "Expand": ".expand",
             "Slice": ".slice", "Pad": ".pad", "Range": ".range"}
_G_ARITY = {"Identity": (1, 1), "Neg": (1, 1), "Not": (1, 1), "Where": (3, 3), "Shape": (1, 1), "Squeeze": (2, 2),
            "Unsqueeze": (2, 2), "Reshape": (2, 2), "Expand": (2, 2), "Slice": (3, 5), "Pad": (3, 3), "Range": (3, 3)}
_G_BIN = {"Add": "add", "Sub": "sub", "Mul": "mul", "Div": "div", "Max": "max", "Min": "min", "Less": "less",
          "Greater": "greater", "Equal": "equal", "And": "and", "Or": "or"}
_G_RED = {"ReduceMax": "max", "ReduceMin": "min", "ReduceSum": "sum", "ReduceProd": "prod"}


def _tn(arr: np.ndarray) -> Optional[str]:
    a = np.asarray(arr)
    if a.size > 64:
        return None
    flat = a.reshape(-1)
    if a.dtype == np.bool_:
        vals = [int(v) for v in flat]
    elif np.issubdtype(a.dtype, np.integer):
        vals = [int(v) for v in flat]
    elif np.issubdtype(a.dtype, np.floating):
        if not all(np.isfinite(v) and float(v) == int(v) for v in flat):
            return None
        vals = [int(v) for v in flat]
    else:
        return None
    return f"⟨[{', '.join(str(int(d)) for d in a.shape)}], [{', '.join(str(v) for v in vals)}]⟩"


def _b(v) -> str:
    return "true" if v else "false"


def _ilist(vs) -> str:
    return "[" + ", ".join(str(int(v)) for v in vs) + "]"


def translate_graph(model) -> dict:
    """ONNX graph -> {'nodes': [(lean_op, ty, argTy, [idx])], 'outs': [idx], 'names': [value name per
    position], 'n_inputs': k, 'unknown': [...]}; value list = graph inputs, then one value per node output
    (initializers first, `TopK` gives two consecutive values)."""
    from onnx import numpy_helper, helper
    g = model.graph
    types = _elem_types(model)
    inits = {i.name: numpy_helper.to_array(i) for i in g.initializer}
    idx: dict[str, int] = {}
    names: list[str] = []
    nodes: list = []
    unknown: list = []
    for vi in g.input:
        if vi.name in inits:
            continue
        idx[vi.name] = len(names)
        names.append(vi.name)
    n_inputs = len(names)

    def emit(op: str, ty: str, aty: str, args: list, outname: str):
        idx[outname] = len(names)
        names.append(outname)
        nodes.append((op, ty or "f32", aty or "f32", args))

    def dt_of(name: str) -> Optional[str]:
        return DT_OF_ONNX.get(types.get(name, 0))

    def const(arr, outname):
        tn = _tn(arr)
        ty = DT_OF_NP.get(str(np.asarray(arr).dtype))
        if tn is None or ty is None:
            unknown.append(f"constant {outname} {np.asarray(arr).dtype}{np.asarray(arr).shape}")
            emit('.unknown "constant"', ty, ty, [], outname)
        else:
            emit(f".const {tn}", ty, ty, [], outname)

    for name, arr in inits.items():
        const(arr, name)
    for n in g.node:
        attrs = {a.name: helper.get_attribute_value(a) for a in n.attribute}
        ins = list(n.input)
        while ins and ins[-1] == "":
            ins.pop()
        ok = all(a in idx for a in ins)
        args = [idx.get(a, 0) for a in ins]
        ty = dt_of(n.output[0])
        aty = dt_of(ins[0]) if ins else ty
        op: Optional[str] = None
        t = n.op_type
        known_attrs: set = set()
        if t == "Constant" and "value" in attrs and not ins:
            const(numpy_helper.to_array(attrs["value"]), n.output[0])
            continue
        if t in _G_SIMPLE and _G_ARITY[t][0] <= len(ins) <= _G_ARITY[t][1]:
            op = _G_SIMPLE[t]
            if t == "Pad":
                known_attrs = {"mode"}
                m = attrs.get("mode", b"constant")
                if (m.decode() if isinstance(m, bytes) else str(m)) != "constant":
                    op = None
            if t == "Reshape":
                known_attrs = {"allowzero"}
                if int(attrs.get("allowzero", 0)) != 0:
                    op = None
        elif t in _G_BIN and len(ins) == 2:
            if t == "Div" and (aty or "").startswith("f"):
                op = None
            else:
                op = f"(.bin .{_G_BIN[t]})"
        elif t in ("Max", "Min") and len(ins) == 1:
            op = ".identity"
        elif t == "Cast" and len(ins) == 1:
            known_attrs = {"to", "saturate"}
            to = int(attrs.get("to", 0))
            ty = ty or DT_OF_ONNX.get(to)
            if to in DT_OF_ONNX:
                op = f"(.cast {_b(to == 9)})"
        elif t == "Concat" and len(ins) >= 1:
            known_attrs = {"axis"}
            op = f"(.concat {_lean_int(int(attrs.get('axis', 0)))})"
        elif t in ("Gather", "GatherElements") and len(ins) == 2:
            known_attrs = {"axis"}
            op = f"(.{'gather' if t == 'Gather' else 'gatherElements'} {_lean_int(int(attrs.get('axis', 0)))})"
        elif t in _G_RED and 1 <= len(ins) <= 2:
            known_attrs = {"keepdims", "noop_with_empty_axes"}
            if int(attrs.get("noop_with_empty_axes", 0)) == 0:
                op = f"(.reduce .{_G_RED[t]} {_b(int(attrs.get('keepdims', 1)) != 0)})"
        elif t == "CumSum" and len(ins) == 2:
            known_attrs = {"exclusive", "reverse"}
            op = f"(.cumsum {_b(int(attrs.get('exclusive', 0)) != 0)} {_b(int(attrs.get('reverse', 0)) != 0)})"
        elif t == "MaxPool" and len(ins) == 1 and len(n.output) == 1:
            known_attrs = {"kernel_shape", "strides", "pads", "ceil_mode", "dilations", "auto_pad", "storage_order"}
            ks = list(attrs.get("kernel_shape", []))
            ap = attrs.get("auto_pad", b"NOTSET")
            ap = ap.decode() if isinstance(ap, bytes) else str(ap)
            if (int(attrs.get("ceil_mode", 0)) == 0 and all(int(d) == 1 for d in attrs.get("dilations", [])) and
                    ap == "NOTSET" and int(attrs.get("storage_order", 0)) == 0):
                op = (f"(.maxPool {_ilist(ks)} {_ilist(attrs.get('strides', [1] * len(ks)))} "
                      f"{_ilist(attrs.get('pads', [0] * (2 * len(ks))))})")
        elif t == "TopK" and len(ins) == 2 and len(n.output) == 2:
            known_attrs = {"axis", "largest", "sorted"}
            if ok and not (set(attrs) - known_attrs):
                tail = (f"{_lean_int(int(attrs.get('axis', -1)))} {_b(int(attrs.get('largest', 1)) != 0)} "
                        f"{_b(int(attrs.get('sorted', 1)) != 0)}")
                emit(f"(.topk false {tail})", ty, aty, args, n.output[0])
                emit(f"(.topk true {tail})", dt_of(n.output[1]) or "i64", aty, args, n.output[1])
                continue
        if op is not None and (set(attrs) - known_attrs):
            op = None       # an attribute the model does not know
        if op is None or not ok or len(n.output) != 1:
            unknown.append(f"{t}({len(ins)} inputs, attrs {sorted(attrs)})")
            emit(f"(.unknown {_lean_str(t)})", ty, aty, args if ok else [], n.output[0])
            for extra in n.output[1:]:
                emit(f"(.unknown {_lean_str(t)})", "f32", "f32", [], extra)
        else:
            emit(op, ty, aty, args, n.output[0])
    outs = [idx.get(o.name, 0) for o in g.output]
    return {"nodes": nodes, "outs": outs, "names": names, "n_inputs": n_inputs, "unknown": unknown}


def grecipe_to_lean(name: str, tr: dict) -> str:
    rows = [f"⟨{op}, .{ty}, .{aty}, [{', '.join(map(str, args))}]⟩" for op, ty, aty, args in tr["nodes"]]
    return (f"def g_{name} : GRecipe :=\n  {{ nodes := [\n    " + ",\n    ".join(rows) +
            f"],\n    outs := [{', '.join(map(str, tr['outs']))}] }}\n")


def generate_graph_source(es: Optional[list] = None) -> tuple[str, dict]:
    """(Gen/C01Tensor.lean, info).  info[name] = {'tr', 'model', 'export_error', 'generic_ok'}."""
    es = es or gentries()
    info: dict[str, Any] = {}
    defs, names = [], []
    for e in es:
        try:
            model, err = gexport(e), None
        except Exception as ex:
            model, err = None, f"{type(ex).__name__}: {ex}"[:300]
        if model is None:
            tr = {"nodes": [('(.unknown "export-failed")', "f32", "f32", [])], "outs": [len(e.in_dts)],
                  "names": [f"in{i}" for i in range(len(e.in_dts))] + ["failed"], "n_inputs": len(e.in_dts),
                  "unknown": ["export failed"]}
        else:
            tr = translate_graph(model)
        src = grecipe_to_lean(e.name, tr)
        # length-generic recipes: the same Lean term must come out for the other extents
        generic_bad = []
        others = {}
        for n in e.generic:
            try:
                m2 = gexport(e, [(n,) + tuple(s[1:]) if i == 0 else s for i, s in enumerate(e.shapes)])
                others[n] = m2
                if grecipe_to_lean(e.name, translate_graph(m2)) != src:
                    generic_bad.append(n)
            except Exception as ex:
                generic_bad.append(f"{n}: {type(ex).__name__}")
        defs.append(src)
        names.append(e.name)
        info[e.name] = {"tr": tr, "model": model, "export_error": err, "generic_bad": generic_bad,
                        "other_models": others, "nodes": len(tr["nodes"]), "unknown": tr["unknown"]}
    hdr = "/- GENERATED by harness/props/c01.py from /repo on every run — do not edit. -/\n"
    src = (hdr + "import J2O.Model.C01Tensor\nnamespace J2O.Gen.C01\nopen J2O.C01\n\n" + "\n".join(defs) +
           "\ndef grecipes : List (String × GRecipe) := [\n  " +
           ",\n  ".join(f"({_lean_str(n)}, g_{n})" for n in names) + "]\n\nend J2O.Gen.C01\n")
    return src, info
