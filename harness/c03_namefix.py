"""C03 (round 2) — tie of the NameFixPass contract model (lean/J2O/Model/C03Rename.lean) to the live code.

The exporter's optimizer pipeline starts with `ir_optimizations._run_name_fix_pass` (/repo), a thin wrapper of
onnx_ir's `NameFixPass` (library code, trusted).  Uniqueness of names in the final model rests on it
(`Props/C03.lean`, LIMIT 2).  Here the REAL wrapper is run on real exported IR models in which collisions were
FORCED (values renamed to names of other values visible in the same scope chain, to names of graph inputs /
outputs, or un-named), and three things are checked per model:

  1. prediction: the Lean event machine `nfRun` (driver op `namefix`), fed with the values in the pass's visiting
     order (original names), predicts the final name of every value object exactly;
  2. contract on the real result (`fixList_sound` / `fixList_keep` / `fixList_head` observed): a value whose name
     was non-empty and not in use when it was visited keeps its name – in particular graph inputs/outputs that did
     not collide among themselves; no value is left unnamed;
  3. `rename_preserves_scopes` observed: the model was accepted by the proven checker before the collisions were
     forced (same value-object graph), so the re-serialised model must be accepted again.
"""
from __future__ import annotations

import json

import common
import modeltree
import progs

PROGRAMS = [{"kind": "named", "name": "cond_closure2"},
            {"kind": "named", "name": "same_three"}, {"kind": "named", "name": "scan_out"},
            {"kind": "tree", "name": "depth4", "tree": progs.FIXED_TREES["depth4"], "shape": ["B", 3]},
            {"kind": "tree", "name": "closure_chain", "tree": progs.FIXED_TREES["closure_chain"], "shape": ["B", 3]},
            {"kind": "tree", "name": "scan_in_scan", "tree": progs.FIXED_TREES["scan_in_scan"], "shape": ["B", 3]},
            {"kind": "tree", "name": "fn_then_loops", "tree": progs.FIXED_TREES["fn_then_loops"], "shape": ["B", 3]}]


def visit(graph_like):
    """Values of a graph / function in the visiting order of NameFixPass._fix_graph_names, as driver events.
    (Same library iterator and callbacks as the pass; values are identified by object identity.)"""
    import onnx_ir as ir
    ids: dict = {}
    vals: list = []
    ev: list = []

    def val(v):
        k = id(v)
        if k not in ids:
            ids[k] = len(vals)
            vals.append(v)
        ev.append(["v", ids[k], v.name or ""])

    def enter(g):
        ev.append(["enter"])
        for v in g.inputs:
            val(v)
        for v in g.outputs:
            val(v)
        if isinstance(g, ir.Graph):
            for v in tuple(g.initializers.values()):
                val(v)

    def leave(_g):
        ev.append(["exit"])

    for node in ir.traversal.RecursiveGraphIterator(graph_like, enter_graph=enter, exit_graph=leave):
        for v in node.inputs:
            if v is not None:
                val(v)
        for v in node.outputs:
            val(v)
    return ev, vals


def force_collisions(model, rng: common.Rng, pattern: int) -> int:
    """Rename values of the IR model in place so that names collide.  Returns the number of edits."""
    edits = 0
    for gl in [model.graph] + list(model.functions.values()):
        _, vals = visit(gl)
        plain = [v for v in vals if not v.is_initializer() and v.name]
        if len(plain) < 2:
            continue
        io = [v for v in list(gl.inputs) + list(gl.outputs) if v.name]
        inner = [v for v in plain if not v.is_graph_input() and not v.is_graph_output()]
        n = max(1, len(inner) // (2 if pattern != 3 else 1))
        for v in rng.sample(inner, min(n, len(inner))):
            r = rng.randint(0, 9)
            try:
                if pattern == 0 and r < 6 or pattern == 3:
                    v.name = rng.choice(plain).name           # name of another value (any scope)
                elif pattern == 1 and io and r < 7:
                    v.name = rng.choice(io).name              # name of a graph input / output
                elif pattern == 2 and r < 5:
                    v.name = None                             # un-named
                elif r < 8:
                    base = rng.choice(plain).name
                    v.name = base + "_1"                      # the name the pass itself would invent
                else:
                    v.name = "v"
                edits += 1
            except Exception:
                continue
    return edits


def check(chk, rng: common.Rng, thorough: bool) -> list[dict]:
    """-> list of disagreements (empty = the model and the real pass agree)."""
    from jax2onnx.converter import ir_optimizations as opt
    bad: list[dict] = []
    n_values = n_renamed = n_kept = 0
    reps = 1 if not thorough else 8
    off = rng.randint(0, 3)
    requests: list[str] = []
    jobs: list = []          # (case, [(first request index, vals, names before, names after)…], scopes request index, tree)
    for d in PROGRAMS:
        for rep in range(reps):
            ex = progs.export(d, {"mode": "ir"}, use_cache=False)
            if not ex.ok:
                continue
            model = ex.ir_model
            pattern = (len(jobs) + off) % 4          # every collision pattern occurs in every run
            edits = force_collisions(model, rng, pattern)
            groups = []
            for gl in [model.graph] + list(model.functions.values()):
                ev, vals = visit(gl)
                groups.append([len(requests), vals, [(v.name or "") for v in vals]])
                requests.append(json.dumps({"op": "namefix", "ev": ev}, ensure_ascii=False))
            opt._run_name_fix_pass(model)                                   # the REAL pass (wrapper of /repo)
            for g in groups:
                g.append([(v.name or "") for v in g[1]])
            # rename_preserves_scopes observed: same object graph, names injective per scope chain again
            tree = modeltree.from_ir(model, with_vinfo=False)
            jobs.append(({"op": "namefix", "program": progs.describe(d), "pattern": pattern, "edits": edits},
                         groups, len(requests), tree))
            requests.append(modeltree.request("scopes", tree))
    answers = common.run_driver("C03", requests)
    for case, groups, si, tree in jobs:
        chk.count(case, nontrivial=case["edits"] > 0)
        for gi, (ri, vals, old, real) in enumerate(groups):
            ans = answers[ri]
            if not ans.startswith("["):
                raise RuntimeError(f"driver C03 namefix: {ans[:200]}")
            pred = dict((int(i), nm) for i, nm in json.loads(ans))
            n_values += len(vals)
            n_renamed += sum(1 for o, r in zip(old, real) if o != r)
            n_kept += sum(1 for o, r in zip(old, real) if o == r)
            for i, (o, r) in enumerate(zip(old, real)):
                if pred.get(i) != r:
                    bad.append({"program": case["program"], "pattern": case["pattern"], "graph": gi, "value": i,
                                "before": o, "real": r, "model": pred.get(i)})
                    break
            if any(not r for r in real):
                bad.append({"program": case["program"], "what": "a value is still unnamed after the pass"})
        if answers[si] != "true":
            bad.append({"program": case["program"], "pattern": case["pattern"],
                        "what": "model with forced collisions is not well scoped after the real name-fix pass",
                        "checker": answers[si], "diagnosis": modeltree.scope_diagnosis(tree)[:3]})
    chk.add("traces_validated_against_impl", len(jobs))
    chk.info("namefix_correspondence", {"models": len(jobs), "values": n_values, "renamed_by_pass": n_renamed,
                                        "kept": n_kept, "disagreements": len(bad)})
    return bad
