"""C14 — export is deterministic and independent of history.

Lean (Props/C14.lean): `fold_perm_invariant` + instances for every class of set-iteration site,
`memo_transparent`, `hash_not_in_output`, `fresh_context_independent`, `registry_order_irrelevant`;
refuted full statements + `_partial` theorems for the two sites where /repo really is
order-dependent (findings F-C14-1, F-C14-2).

Tie, every run:
  T  AST scan of the live sources -> Gen/C14.lean (every iteration over a set / identity-keyed dict /
     registry, every hash()/id() call); GenProps/C14.lean: each found site is in the reviewed list.
  H  driver correspondence of the naming / memo / registry primitives (real IRContext.fresh_name,
     IRBuilder.fresh_name, FunctionPlugin._allocate_friendly_name, FunctionRegistry+FunctionKey,
     _lower_accepts_params, INSTANCE_MAP2, _refresh_elementwise_output_shape) against the model.
  OBS the property's observable on the real `to_onnx`:
     (C) in-process: every catalogue request converted with the enumeration order of every set
         created in the anchored modules forced to insertion / reversed / shuffled order (all of
         them legal orders of a Python set) — digests must agree; a difference is attributed to the
         loop whose reversal alone changes the bytes;
     (D) unpatched code in subprocesses: digests of the same request across PYTHONHASHSEED values,
         positions in seeded histories with failing conversions interleaved, allocation noise,
         gc modes, PYTHONMALLOC, plugin pre-import orders.
"""
from __future__ import annotations

import json
import os
import re
import shutil
import subprocess
import sys
import tempfile
import time
import warnings
import zlib
from concurrent.futures import ThreadPoolExecutor
from pathlib import Path
from typing import Any, Optional

warnings.filterwarnings("ignore")

HERE = Path(__file__).resolve().parents[1]
if str(HERE) not in sys.path:
    sys.path.insert(0, str(HERE))

import common  # noqa: E402
from common import Check, LEAN, REPO, lean_list, lean_str, write_if_changed  # noqa: E402
import c14_scan  # noqa: E402

META = {
    "ready": True,
    "level": "proof",
    "technique": "Lean 4 theorems (permutation invariance of folds with commuting edits, memo transparency, "
                 "hash-encoding transparency, history independence) + AST scan of every set/registry iteration "
                 "site checked against a reviewed list by decide; driver correspondence of the naming/memo "
                 "primitives; byte digests of real exports across hash seeds, histories, allocation noise and "
                 "forced set-enumeration orders",
    "level_text": "Kernel-checked: fold_perm_invariant (any commuting edit, unbounded lists) instantiated for node "
                  "removal, use replacement, set accumulation, all-equal check, dict filling, membership-only and "
                  "sorted visits; memo_transparent, hash_not_in_output, fresh_context_independent, "
                  "registry_order_irrelevant for all histories. Two loops are proved order-DEPENDENT on the model "
                  "(refresh_perm_invariant_refuted, append_perm_invariant_refuted) and were demonstrated on the real "
                  "code: F-C14-1 (fixed in /repo by 4ccbe6a; refresh_graph_order_invariant covers the fixed loop) and "
                  "F-C14-2 (fixed by 8f5c416; append_refOrder_invariant covers the fixed loop). Every "
                  "iteration site found by the scan must be auto-justified by the scanner's dataflow check "
                  "(sorted / feeds a set / any-all reduction / id-hash used as key only) or be in the reviewed list "
                  "(sites_reviewed, decide +kernel). Round 2: contextvar_restored / contextvar_history_independent "
                  "(ContextVar save/restore discipline: all nestings, handlers and exception points; "
                  "bare_restore_refuted for the variant without finally), scratch_cleared_independent; "
                  "state_classified: every piece of module/class-level state or ContextVar of jax2onnx that a probe "
                  "conversion changes (enumerated by type on every run) falls in a class with an independence theorem.",
    "level_note": "The theorems are about the model; the link to /repo is (a) the reviewed site list keyed by a hash "
                  "of each loop body (a changed body or new site breaks the obligation) plus a syntactic, conservative "
                  "dataflow check for the auto-justified sites, (b) sampled "
                  "correspondence (incl. random save/restore programs on a real ContextVar, failures injected into "
                  "real function-body traces and lowering), (c) byte equality of real exports, which is sampling over "
                  "histories/seeds (validated, not proved), (d) the state probe, which classifies state by observed "
                  "behaviour over a fixed two-round protocol. onnx_ir library passes, JAX tracing and protobuf serialisation are "
                  "covered only by (c). Hash collisions are assumed away (injective encodings).",
    "design_ref": "DESIGN.md §3 C14",
}

MODS = ["J2O.Props.C14", "J2O.Props.C14Ctx", "J2O.GenProps.C14"]
# process-wide state whose change across a conversion is history leakage (`_ONNX_FN_HITS` is only
# reported: a failed conversion leaves it filled until the next successful one consumes it, and
# nothing that reaches the model reads it)
STATE_VERDICT_KEYS = ("in_function_build", "patch_state", "x64")
WORKER = HERE / "c14_worker.py"
INJECT_MODULES = [
    "jax2onnx.converter.ir_optimizations", "jax2onnx.converter.ir_builder", "jax2onnx.converter.ir_context",
    "jax2onnx.plugins.plugin_system", "jax2onnx.converter.lowering_dispatch",
    "jax2onnx.converter.conversion_api", "jax2onnx.converter.function_scope",
    "jax2onnx.converter.optimizer_graph_utils", "jax2onnx.converter.ir_postprocess",
]
SITE_KEYS = ("file", "fn", "kind", "iter", "target", "body")


# ----------------------------------------------------------------------------- T: scan -> Gen


def generate(probe: Optional[dict] = None, with_state: bool = True) -> dict:
    """Gen/C14.lean from the AST scan; Gen/C14State.lean from the state probe (a fresh subprocess with a
    fixed protocol; pass `probe` when it was started earlier, `with_state=False` to leave the file alone)."""
    sites, ctors, missing = c14_scan.scan(REPO)

    def row(s):
        return "(" + ", ".join(lean_str(s[k]) for k in SITE_KEYS) + ")"
    autos = [s for s in sites if s.get("auto")]
    src = f"""/- GENERATED by harness/props/c14.py (AST scan of the live /repo sources) on every run — do not edit. -/
namespace J2O.Gen.C14

/-- (file, function, kind, iterable, loop target, hash of the normalised loop body / statement). -/
abbrev Site := String × String × String × String × String × String

/-- Every iteration over a set / identity-keyed dict / module registry and every `hash()`/`id()`
    call in the anchored files. -/
def sites : List Site := {lean_list(map(row, sites), 1)}

/-- Sites for which the scanner's dataflow check established that the enumeration order / the hash value
    cannot reach the output, with the class of the justification (`c14_scan.AUTO_CLASSES`). -/
def auto : List (Site × String) := {lean_list(["(" + row(s) + ", " + lean_str(s["auto"]) + ")" for s in autos], 1)}

/-- Anchored files that could not be scanned. -/
def missingFiles : List String := {lean_list(map(lean_str, missing), 1)}

end J2O.Gen.C14
"""
    write_if_changed(LEAN / "J2O/Gen/C14.lean", src)
    out = {"sites": sites, "ctors": ctors, "missing": missing, "probe": None}
    if with_state:
        if probe is None:
            probe = run_probe()
        write_state_gen(probe)
        out["probe"] = probe
    return out


def run_probe(timeout: int = 1500) -> dict:
    """The state probe (c14_worker.probe_state) in a fresh interpreter: enumerates ALL module-level /
    class-level mutable state and ContextVars of jax2onnx and reports what conversions change."""
    env = dict(os.environ)
    env.update({"PYTHONHASHSEED": "0", "J2O_REPO": str(REPO), "JAX_PLATFORMS": "cpu"})
    r = subprocess.run([sys.executable, str(WORKER), json.dumps({"probe": True})], capture_output=True,
                       text=True, timeout=timeout, env=env)
    for line in r.stdout.splitlines():
        if line.startswith("RESULT "):
            return json.loads(line[7:])
    raise RuntimeError(f"C14 state probe produced no result (exit {r.returncode}): {r.stderr[-1500:]}")


def write_state_gen(probe: dict) -> None:
    rows = ["(" + lean_str(r["name"]) + ", " + lean_str(r["kind"]) + ", "
            + lean_list([lean_str(x) for x in r["flags"].split("+") if x]) + ")" for r in probe["rows"]]
    src = f"""/- GENERATED by harness/props/c14.py (state probe of the live /repo in a fresh interpreter) — do not edit. -/
namespace J2O.Gen.C14State

/-- (qualified name, object kind, flags).  One row per piece of module-level / class-level state or
    ContextVar of jax2onnx that SOME conversion of the probe protocol changed.  Flags: `r1` changed in
    the first round, `r2` changed when the same requests were converted again, `fail` changed by a failing
    conversion of round 2, `net` value after round 2 differs from the value after round 1, `dirty`
    (ContextVars) a successful conversion left a value different from the initial one. -/
abbrev Row := String × String × List String

def surviving : List Row := {lean_list(rows, 1)}

/-- Every ContextVar found in a jax2onnx module. -/
def ctxvars : List String := {lean_list(map(lean_str, probe["ctxvars"]), 1)}

/-- Number of state objects inventoried (containers, caches, scalars, ContextVars). -/
def inventorySize : Nat := {int(probe["inventory_size"])}

end J2O.Gen.C14State
"""
    write_if_changed(LEAN / "J2O/Gen/C14State.lean", src)


def reviewed_sites() -> dict:
    """Parse the hand-written reviewed list out of GenProps/C14.lean (reporting only; the
    verdict comes from the Lean build)."""
    text = (LEAN / "J2O/GenProps/C14.lean").read_text()
    out = {}
    for m in re.finditer(r'\(\(("(?:[^"\\]|\\.)*"(?:,\s*"(?:[^"\\]|\\.)*"){5})\),\s*\.(\w+)', text):
        parts = json.loads("[" + m.group(1) + "]")
        out[":".join(parts)] = m.group(2)
    return out


# ----------------------------------------------------------------------------- order injection


class OSet(set):
    """A `set` whose enumeration order is chosen by the harness.  Membership, length, equality
    are the C-level ones; only iteration from frames of /repo code is steered: insertion order,
    reversed, or a seeded shuffle (every one of them is a legal enumeration of a Python set).
    Copies made by this class itself keep the canonical (insertion) order."""

    DEFAULT: Any = "ins"
    MODES: dict = {}          # site id -> mode
    LOG: dict = {}            # site id -> max length enumerated
    UNSCANNED: dict = {}

    def __init__(self, it=()):
        set.__init__(self)
        self._o: list = []
        for x in it:
            self.add(x)

    # -- mutation keeps the insertion list
    def add(self, x):
        if not set.__contains__(self, x):
            set.add(self, x)
            self._o.append(x)

    def update(self, *its):
        for it in its:
            for x in list(it):
                self.add(x)

    def discard(self, x):
        if set.__contains__(self, x):
            set.discard(self, x)
            self._o = [y for y in self._o if not (y is x or y == x)]

    def remove(self, x):
        if not set.__contains__(self, x):
            raise KeyError(x)
        self.discard(x)

    def pop(self):
        order = self._ordered(sys._getframe(1))
        if not order:
            raise KeyError("pop from an empty set")
        x = order[0]
        self.discard(x)
        return x

    def clear(self):
        set.clear(self)
        self._o = []

    def difference_update(self, *its):
        for it in its:
            for x in list(it):
                self.discard(x)

    def intersection_update(self, *its):
        keep = set.intersection(set(self._o), *[set(i) for i in its])
        for x in list(self._o):
            if x not in keep:
                self.discard(x)

    def symmetric_difference_update(self, it):
        other = list(it)
        for x in other:
            if set.__contains__(self, x):
                self.discard(x)
            else:
                self.add(x)

    def __ior__(self, o):
        self.update(o)
        return self

    def __iand__(self, o):
        self.intersection_update(o)
        return self

    def __isub__(self, o):
        self.difference_update(o)
        return self

    def __ixor__(self, o):
        self.symmetric_difference_update(o)
        return self

    def copy(self):
        return OSet(self._o)

    def __or__(self, o):
        r = OSet(self._o)
        r.update(o)
        return r

    __ror__ = __or__

    def union(self, *its):
        r = OSet(self._o)
        r.update(*its)
        return r

    def __sub__(self, o):
        return OSet([x for x in self._o if x not in o])

    def difference(self, *its):
        r = OSet(self._o)
        r.difference_update(*its)
        return r

    def __and__(self, o):
        return OSet([x for x in self._o if x in o])

    def intersection(self, *its):
        r = OSet(self._o)
        r.intersection_update(*its)
        return r

    # -- enumeration
    def _ordered(self, frame) -> list:
        code = frame.f_code
        if code.co_filename == __file__:
            return list(self._o)
        fname = os.path.basename(code.co_filename)
        site = c14_scan.site_at(fname, frame.f_lineno) if str(REPO) in code.co_filename else None
        if site is None:
            if str(REPO) in code.co_filename and len(self._o) > 1:
                k = f"{fname}:{code.co_qualname}:{frame.f_lineno}"
                OSet.UNSCANNED[k] = max(OSet.UNSCANNED.get(k, 0), len(self._o))
            return list(self._o)
        sid = c14_scan.site_id(site)
        OSet.LOG[sid] = max(OSet.LOG.get(sid, 0), len(self._o))
        mode = OSet.MODES.get(sid, OSet.DEFAULT)
        if mode == "ins" or len(self._o) < 2:
            return list(self._o)
        if mode == "rev":
            return list(reversed(self._o))
        # ("shuf", k): seeded shuffle, stable per site
        rng = common.Rng(int(mode[1]) * 1000003 + zlib.crc32(sid.encode()) + len(self._o))
        return rng.shuffle(list(self._o))

    def __iter__(self):
        return iter(self._ordered(sys._getframe(1)))


class inject:
    """Context manager: make `set(...)` in the anchored modules build OSets."""

    def __init__(self, default="ins", modes: Optional[dict] = None):
        self.default, self.modes = default, dict(modes or {})

    def __enter__(self):
        import importlib
        OSet.DEFAULT, OSet.MODES = self.default, self.modes
        self.mods = [importlib.import_module(m) for m in INJECT_MODULES]
        for m in self.mods:
            m.__dict__["set"] = OSet
        return self

    def __exit__(self, *exc):
        for m in self.mods:
            m.__dict__.pop("set", None)
        OSet.DEFAULT, OSet.MODES = "ins", {}
        return False


# ----------------------------------------------------------------------------- helpers


def _worker_mod():
    import c14_worker
    return c14_worker


def convert_digest(rid: str) -> dict:
    w = _worker_mod()
    try:
        proto = w.convert(rid)
    except Exception as e:  # noqa: BLE001
        return {"digest": None, "error": type(e).__name__, "noshape": None, "inputs": None, "summary": []}
    d = w.digests(proto)
    d.pop("bytes")
    d["error"] = None
    d["summary"] = w.summary(proto)
    return d


def classify(a: dict, b: dict) -> str:
    if (a["digest"] is None) != (b["digest"] is None):
        return "error-vs-ok"
    if a["digest"] is None:
        return "different-error" if a["error"] != b["error"] else "same"
    if a["digest"] == b["digest"]:
        return "same"
    if a["inputs"] != b["inputs"] and sorted(a["inputs"]) == sorted(b["inputs"]):
        return "graph-input-order"
    if a["noshape"] == b["noshape"]:
        return "stale-shape-annotation"
    return "other"


def diff_lines(a: list, b: list, n: int = 12) -> list:
    out = []
    for i in range(max(len(a), len(b))):
        x = a[i] if i < len(a) else "<none>"
        y = b[i] if i < len(b) else "<none>"
        if x != y:
            out.append({"line": i, "a": x, "b": y})
            if len(out) >= n:
                break
    return out


def site_label(sid: str) -> str:
    """Stable label of a scanned site for finding keys (no body hash: the hash is what the
    reviewed list pins; the finding is about the loop)."""
    p = sid.split(":")
    return ":".join(p[:5]) if len(p) >= 6 else sid


# ----------------------------------------------------------------------------- H: correspondences


def corr_names(chk: Check, rng: common.Rng, n_hist: int) -> list:
    """Real IRContext.fresh_name / IRBuilder.fresh_name over several conversions (fresh context
    each) vs the model started fresh per conversion."""
    import jax2onnx.converter.conversion_api as capi
    pool = ["x", "x_", "a/", "Reshape", "in", "out_0", "f", "F", "x_0", "α", "a.b", ""]
    lines, real = [], []
    for _ in range(n_hist):
        ctx = capi._create_ir_context(opset=23, enable_double_precision=False, input_specs=[],
                                      frozen_params={}, record_primitive_calls_file=None)
        for kind in ("c", "b"):
            bases = [rng.choice(pool) for _ in range(rng.randint(1, 9))]
            got = [(ctx.fresh_name(b) if kind == "c" else ctx.builder.fresh_name(b)) for b in bases]
            lines.append(json.dumps({"op": "names", "kind": kind, "bases": bases}))
            real.append(got)
            chk.count({"op": "names", "kind": kind, "bases": bases}, nontrivial=len(set(bases)) < len(bases))
    def judge(ans):
        bad = []
        for l, r, a in zip(lines, real, ans):
            if json.loads(a) != r:
                bad.append({"request": json.loads(l), "real": r, "model": json.loads(a)})
        return bad
    return lines, judge


def _stub_plugin(ns: str, base: str, unique: bool):
    import jax2onnx.plugins.plugin_system as ps
    p = object.__new__(ps.FunctionPlugin)
    p.unique, p.namespace, p.display_name, p.target = unique, ns, base, None
    return p


def corr_friendly(chk: Check, rng: common.Rng, n_hist: int) -> list:
    import jax2onnx.converter.conversion_api as capi
    import jax2onnx.plugins.plugin_system as ps
    lines, real = [], []
    for _ in range(n_hist):
        ctx = capi._create_ir_context(opset=23, enable_double_precision=False, input_specs=[],
                                      frozen_params={}, record_primitive_calls_file=None)
        calls = [[rng.choice(["custom", "my.ns"]), rng.choice(["Block", "F", "scaled"]), rng.chance(0.5)]
                 for _ in range(rng.randint(1, 8))]
        got = []
        for ns, base, u in calls:
            got.append(list(ps.FunctionPlugin._allocate_friendly_name(_stub_plugin(ns, base, u), ctx)))
        lines.append(json.dumps({"op": "friendly", "calls": calls}))
        real.append(got)
        chk.count({"op": "friendly", "calls": calls}, nontrivial=len(calls) > 1)
    def judge(ans):
        return [{"request": json.loads(l), "real": r, "model": json.loads(a)}
                for l, r, a in zip(lines, real, ans) if json.loads(a) != r]
    return lines, judge


def _fn_pool():
    class _P:  # fresh class (fresh `__func__` cache keys) per pool
        def lower_with(self, ctx, eqn, params):
            return None

        def lower_without(self, ctx, eqn):
            return None

    def f_params(ctx, eqn, params):
        return None

    def f_plain(ctx, eqn):
        return None

    def f_kw(ctx, eqn, *, params=None):
        return None

    class Unhashable:
        __hash__ = None

        def __call__(self, ctx, eqn, params):
            return None

    return [f_params, f_plain, f_kw, _P().lower_with, _P().lower_without, _P().lower_with,
            (lambda a, b: None), len, Unhashable()]


def _pure_sig(fn) -> bool:
    import inspect
    try:
        return "params" in inspect.signature(fn).parameters
    except (TypeError, ValueError):
        return False


def corr_memo(chk: Check, rng: common.Rng, n_hist: int) -> list:
    """memoised `_lower_accepts_params` == the pure function, for seeded request histories, and
    the set of keys it caches == the model's."""
    import jax2onnx.converter.lowering_dispatch as ld
    bad, lines, real = [], [], []
    for _ in range(n_hist):
        pool = _fn_pool()
        keyobj = [getattr(f, "__func__", f) for f in pool]
        ids: list = []           # model key = index of the first pool entry with the same cache key
        for k in keyobj:
            ids.append(next(i for i, kk in enumerate(keyobj) if kk is k))
        hashable = []
        for k in keyobj:
            try:
                hash(k)
                hashable.append(True)
            except TypeError:
                hashable.append(False)
        hist = [rng.randint(0, len(pool) - 1) for _ in range(rng.randint(3, 14))]
        before = set(map(id, ld._LOWER_SIGNATURE_CACHE.keys()))
        got = [bool(ld._lower_accepts_params(pool[i])) for i in hist]
        pure = [_pure_sig(pool[i]) for i in hist]
        new_keys = [k for k in ld._LOWER_SIGNATURE_CACHE.keys() if id(k) not in before]
        chk.count({"op": "memo", "hist": hist}, nontrivial=len(set(hist)) < len(hist))
        if got != pure:
            bad.append({"op": "memo", "hist": hist, "memoised": got, "pure": pure})
        mk = [ids[i] for i in hist if hashable[i]]
        lines.append(json.dumps({"op": "memo", "table": [[ids[i], _pure_sig(pool[i])] for i in range(len(pool))],
                                 "keys": mk}))
        cached_before = {ids[i] for i in range(len(pool)) if hashable[i] and id(keyobj[i]) in before}
        real.append({"vals": [_pure_sig(pool[i]) for i in hist if hashable[i]],
                     "cache": [next(ids[i] for i in range(len(pool)) if keyobj[i] is k) for k in new_keys],
                     "cached_before": sorted(cached_before)})
    def judge(ans):
        for l, r, a in zip(lines, real, ans):
            a = json.loads(a)
            model_new = [k for k in a.get("cache", []) if k not in r["cached_before"]]
            if a.get("vals") != r["vals"] or sorted(model_new) != sorted(r["cache"]):
                bad.append({"request": json.loads(l), "real": r, "model": a})
        return bad
    return lines, judge


def _canon_outcome(o: dict) -> dict:
    if "err" in o:
        e = o["err"]
        return {"err": "noplugin" if e.startswith("no plugin") else
                "noresolve" if e.startswith("cannot resolve") else "raised"}
    return o


def corr_convert(chk: Check, rng: common.Rng, n_hist: int) -> list:
    """Histories of mini-conversions: the real primitives sequenced as `_lower_and_call` /
    `lower_jaxpr_with_plugins` sequence them, against the model's `convert` with the global state
    threaded through the history."""
    import jax2onnx.converter.conversion_api as capi
    import jax2onnx.converter.lowering_dispatch as ld
    import jax2onnx.plugins.plugin_system as ps
    from jax2onnx.converter.function_scope import FunctionDef, FunctionKey
    import numpy as np

    class Inst:
        def __init__(self, idx):
            self.idx = idx
    bad = []
    lines, reals = [], []
    for _ in range(n_hist):
        fns = _fn_pool()[:6]
        sig = [[i, _pure_sig(f)] for i, f in enumerate(fns)]
        plug_pairs = [[p, rng.randint(0, len(fns) - 1)] for p in rng.sample(range(1, 9), rng.randint(2, 6))]
        order = rng.shuffle(plug_pairs)          # registry insertion order = import order
        registry = {}
        for p, fi in order:
            registry[f"prim{p}"] = type("Plug", (), {"lower": staticmethod(fns[fi])
                                                       if not hasattr(fns[fi], "__self__") else fns[fi]})()
        insts = {v: Inst(v) for v in range(1, 5)}
        hist = []
        for _c in range(rng.randint(2, 5)):
            ops = []
            for _o in range(rng.randint(1, 9)):
                k = rng.randint(0, 9)
                if k <= 1:
                    ops.append(["fresh", rng.choice(["x", "y_", "F"])])
                elif k == 2:
                    ops.append(["bfresh", rng.choice(["x", "F", "Block"])])
                elif k <= 5:
                    ops.append(["call", rng.randint(0, 3), rng.choice(["custom", "my.ns"]),
                                rng.choice(["F", "Block"]), rng.chance(0.4)])
                elif k <= 7:
                    ops.append(["lower", rng.randint(1, 9)])
                elif k == 8:
                    kk = rng.randint(100, 103)
                    ops.append(["bind", kk, rng.randint(1, 4)])
                    if rng.chance(0.7):
                        ops.append(["resolve", kk])
                else:
                    ops.append(["resolve", rng.randint(100, 103)] if rng.chance(0.5) else ["fail"])
            hist.append(ops)
        # ---- real
        outs = []
        bound_keys: list = []
        for ops in hist:
            ctx = capi._create_ir_context(opset=23, enable_double_precision=False, input_specs=[],
                                          frozen_params={}, record_primitive_calls_file=None)
            freg = ctx.get_function_registry()
            out: list = []
            try:
                for op in ops:
                    if op[0] == "fresh":
                        out.append(ctx.fresh_name(op[1]))
                    elif op[0] == "bfresh":
                        out.append(ctx.builder.fresh_name(op[1]))
                    elif op[0] == "call":
                        const = np.full((2,), float(op[1]), dtype=np.float32)
                        key = FunctionKey(qualified_name="pkg.F", input_sig=(((3,), "float32"),),
                                          capture_sig=(7, (("k", ("const", (2,), "float32",
                                                                  hash(const.tobytes()))),)))
                        fdef = freg.get(key)
                        if fdef is None:
                            name, dom = ps.FunctionPlugin._allocate_friendly_name(
                                _stub_plugin(op[2], op[3], op[4]), ctx)
                            fdef = FunctionDef(name=name, domain=dom, inputs=[], outputs=[], nodes=[])
                            freg.put(key, fdef)
                            out.append(f"def {name} {dom}")
                        out.append(f"call {fdef.name} {fdef.domain} {ctx.builder.fresh_name(fdef.name)}")
                    elif op[0] == "lower":
                        plug = ld.get_registered_lowering_plugin(registry, f"prim{op[1]}", source="verif")
                        out.append(f"lower {op[1]} {str(bool(ld._lower_accepts_params(plug.lower))).lower()}")
                    elif op[0] == "bind":
                        ps.INSTANCE_MAP2[op[1] + 10 ** 9] = insts[op[2]]
                        bound_keys.append(op[1] + 10 ** 9)
                    elif op[0] == "resolve":
                        v = ps.INSTANCE_MAP2.get(op[1] + 10 ** 9)
                        if v is None:
                            raise RuntimeError("cannot resolve callee")
                        out.append(f"callee {v.idx}")
                    else:
                        raise ValueError("deliberate")
                outs.append({"ok": out})
            except NotImplementedError:
                outs.append({"err": "noplugin"})
            except RuntimeError:
                outs.append({"err": "noresolve"})
            except ValueError:
                outs.append({"err": "raised"})
        for k in bound_keys:
            ps.INSTANCE_MAP2.pop(k, None)
        lines.append(json.dumps({"op": "convert", "plugins": plug_pairs, "sig": sig, "hist": hist}))
        reals.append(outs)
        chk.count({"op": "convert", "hist": hist}, nontrivial=True)
    def judge(ans):
        for l, r, a in zip(lines, reals, ans):
            m = json.loads(a)
            m = [_canon_outcome(o) for o in m] if isinstance(m, list) else m
            if m != r:
                bad.append({"request": json.loads(l), "real": r, "model": m})
        return bad
    return lines, judge


# ---- ContextVar discipline


class _StepFailure(Exception):
    pass


def _mk_prog(rng: common.Rng, depth: int, ctr: list, disciplined: bool):
    k = rng.randint(0, 9)
    if depth <= 0 or k <= 1:
        if rng.chance(0.5):
            return ["read"]
        ctr[0] += 1
        return ["step", ctr[0]]
    if k <= 4:
        return ["seq", _mk_prog(rng, depth - 1, ctr, disciplined), _mk_prog(rng, depth - 1, ctr, disciplined)]
    if k <= 6:
        tag = rng.choice(["token", "saved"] if disciplined else ["token", "saved", "nofinally", "nofinally"])
        return [tag, rng.choice(["F", "G", "Outer", "Alpha"]), _mk_prog(rng, depth - 1, ctr, disciplined)]
    if k <= 8:
        return ["handle", _mk_prog(rng, depth - 1, ctr, disciplined), _mk_prog(rng, depth - 1, ctr, disciplined)]
    if disciplined:
        return ["seq", ["read"], _mk_prog(rng, depth - 1, ctr, disciplined)]
    return ["assign", rng.choice(["F", "Z"])]


def _py_exec(p, var, raises: set, trace: list) -> None:
    """The program on a REAL contextvars.ContextVar with real try/finally, Token and reset()."""
    tag = p[0]
    if tag == "step":
        if p[1] in raises:
            raise _StepFailure()
    elif tag == "read":
        trace.append(list(var.get()))
    elif tag == "seq":
        _py_exec(p[1], var, raises, trace)
        _py_exec(p[2], var, raises, trace)
    elif tag == "token":
        tok = var.set((p[1],) + var.get())
        try:
            _py_exec(p[2], var, raises, trace)
        finally:
            var.reset(tok)
    elif tag == "saved":
        old = var.get()
        var.set((p[1],) + old)
        try:
            _py_exec(p[2], var, raises, trace)
        finally:
            var.set(old)
    elif tag == "nofinally":
        tok = var.set((p[1],) + var.get())
        _py_exec(p[2], var, raises, trace)
        var.reset(tok)
    elif tag == "handle":
        try:
            _py_exec(p[1], var, raises, trace)
        except _StepFailure:
            _py_exec(p[2], var, raises, trace)
    elif tag == "assign":
        var.set((p[1],) + var.get())
    else:
        raise ValueError(tag)


def _prog_depth(p) -> int:
    return 1 + max([_prog_depth(x) for x in p[1:] if isinstance(x, list)] or [0])


def corr_ctx(chk: Check, rng: common.Rng, n: int):
    """Random save/restore programs (disciplined and not) with injected failures on a real ContextVar vs
    the model's `exec`; for disciplined ones additionally the conclusion of `contextvar_restored`."""
    import contextvars
    lines, reals = [], []
    bad_theorem = []
    for i in range(n):
        disciplined = i % 3 != 2
        ctr = [0]
        prog = _mk_prog(rng, rng.randint(2, 5), ctr, disciplined)
        raises = sorted(k for k in range(1, ctr[0] + 1) if rng.chance(0.35))
        init = [rng.choice(["X", "Y"]) for _ in range(rng.randint(0, 2))]
        var = contextvars.ContextVar(f"c14_probe_{i}", default=())
        trace: list = []

        def body():
            var.set(tuple(init))
            try:
                _py_exec(prog, var, set(raises), trace)
                return False
            except _StepFailure:
                return True
            finally:
                body.val = list(var.get())
        raised = contextvars.copy_context().run(body)
        real = {"raised": raised, "val": body.val, "trace": trace}
        lines.append(json.dumps({"op": "ctx", "prog": prog, "raise": raises, "init": init}))
        reals.append(real)
        chk.count({"op": "ctx", "prog": prog, "raise": raises, "disciplined": disciplined, "raised": raised},
                  nontrivial=bool(raises) and _prog_depth(prog) >= 3)
        if disciplined and body.val != init:
            bad_theorem.append({"prog": prog, "raise": raises, "init": init, "val": body.val})
        if not disciplined and body.val != init:
            chk.add("ctx_undisciplined_programs_that_leak")

    def judge(ans):
        bad = [{"request": json.loads(l), "real": r, "model": json.loads(a)}
               for l, r, a in zip(lines, reals, ans) if json.loads(a) != r]
        return bad + [{"contextvar_restored_contradicted_on_real_ContextVar": b} for b in bad_theorem]
    return lines, judge


def _ctxvar_objects() -> list:
    import contextvars
    out, seen = [], set()
    for mname in sorted(sys.modules):
        mod = sys.modules[mname]
        if mod is not None and mname.startswith("jax2onnx"):
            for v in vars(mod).values():
                if isinstance(v, contextvars.ContextVar) and id(v) not in seen:
                    seen.add(id(v))
                    out.append(v)
    return out


def _ctxvar_state(inv: dict) -> dict:
    return {n: fp[1] for n, fp in inv.items() if fp[0] == "ctxvar"}


INJECT_REQUESTS = ("fn_nested3", "fn_nested_ns", "fn_shared", "fn_class", "fn_inbuild_ok", "fn_const", "fn_unique",
                   "call_params2")


def inject_failures(chk: Check, rng: common.Rng, thorough: bool) -> tuple:
    """Tie of `contextvar_restored` / `contextvar_history_independent` to the real function-body tracing:
    every request that builds ONNX functions is exported, then converted again with a failure INJECTED at the
    k-th trace (k >= 2: inside a function-body build, nested builds included) resp. at sampled fresh-name
    allocations (inside lowering, inside function bodies), then exported again.  Conclusions checked on the
    real code: the second export has the same bytes; every ContextVar of jax2onnx is back at its value."""
    w = _worker_mod()
    findings, leaks, info = [], [], {}
    reqs = list(INJECT_REQUESTS) if thorough else list(INJECT_REQUESTS[:4])
    for rid in reqs:
        base = convert_digest(rid)
        if base["digest"] is None:
            raise RuntimeError(f"catalogue request {rid} does not convert: {base['error']}")
        counts = {}
        for point in ("trace", "name"):
            counts[point] = w.convert_injected(rid, point, 0)
        if counts["trace"]["raised"] or counts["name"]["raised"]:
            raise RuntimeError(f"instrumented conversion of {rid} raised without injection: {counts}")
        nt, nn = counts["trace"]["count"], counts["name"]["count"]
        inside = [i + 1 for i, d in enumerate(counts["name"]["depths"]) if d > 0]
        points = [("trace", k) for k in range(2, nt + 1)]
        name_ks = rng.sample(inside, min(len(inside), 4 if thorough else 2)) + \
            rng.sample(range(1, nn + 1), min(nn, 6 if thorough else 3))
        points += [("name", k) for k in sorted(set(name_ks))]
        info[rid] = {"traces": nt, "fresh_names": nn, "fresh_names_inside_function_bodies": len(inside),
                     "max_nesting": max(counts["trace"]["depths"] + counts["name"]["depths"] + [0]),
                     "points": [f"{p}#{k}" for p, k in points]}
        for point, k in points:
            before = _ctxvar_state(w.state_inventory())
            saved = [(cv, cv.get()) for cv in _ctxvar_objects()]
            res = w.convert_injected(rid, point, k)
            after_fail = _ctxvar_state(w.state_inventory())
            again = convert_digest(rid)
            after_ok = _ctxvar_state(w.state_inventory())
            changed_fail = {n: [before.get(n), after_fail.get(n)] for n in after_fail if before.get(n) != after_fail.get(n)}
            changed_ok = {n: [before.get(n), after_ok.get(n)] for n in after_ok if before.get(n) != after_ok.get(n)}
            depth = res["depths"][k - 1] if 0 < k <= len(res["depths"]) else None
            chk.count({"op": "inject-failure", "request": rid, "point": point, "k": k, "raised": res["raised"],
                       "error": res["error"], "nesting_at_point": depth,
                       "ctxvars_after_failure": sorted(changed_fail)}, nontrivial=bool(depth))
            if not res["raised"]:
                raise RuntimeError(f"injected failure {point}#{k} in {rid} did not surface: {res}")
            if changed_ok:
                leaks.append({"request": rid, "inject": f"{point}#{k}", "where": "in-process",
                              "changed": changed_ok, "after_failed_conversion": changed_fail})
                for cv, old in saved:                 # undo the leak so that later parts start clean
                    cv.set(old)
            if again["digest"] != base["digest"]:
                findings.append({"request": rid, "point": point, "k": k, "base": base, "again": again,
                                 "changed": changed_fail, "nesting": depth})
                # later points would only repeat the damage: restore what we can and stop this request
                break
    chk.info("failure_injection", info)
    return findings, leaks


def poison_ctxvars(chk: Check) -> list:
    """Independence of a later conversion from what scratch ContextVars hold: every jax2onnx ContextVar that
    holds a set gets a foreign member before the export; the bytes must not change."""
    import contextvars
    bad = []
    seen = set()
    for mname in sorted(sys.modules):
        mod = sys.modules[mname]
        if mod is None or not mname.startswith("jax2onnx"):
            continue
        for attr, cv in sorted(vars(mod).items()):
            if not isinstance(cv, contextvars.ContextVar) or id(cv) in seen:
                continue
            seen.add(id(cv))
            try:
                val = cv.get()
            except LookupError:
                continue
            if not isinstance(val, (set, frozenset)):
                continue
            for rid in ("fn_shared", "fn_nested_ns"):
                base = convert_digest(rid)
                tok = cv.set(type(val)(set(val) | {"onnx_fn::c14_poison.NotAFunction"}))
                try:
                    got = convert_digest(rid)
                finally:
                    cv.reset(tok)
                chk.count({"op": "poison-ctxvar", "var": f"{mname}:{attr}", "request": rid,
                           "same": got["digest"] == base["digest"]}, nontrivial=True)
                if got["digest"] != base["digest"]:
                    bad.append({"var": f"{mname}:{attr}", "request": rid,
                                "diff": diff_lines(base["summary"], got["summary"])})
    return bad


def classify_state_row(r: dict):
    """Python mirror of GenProps `classifyState` (reporting only; the verdict is the Lean build)."""
    flags = [x for x in r["flags"].split("+") if x]
    if r["kind"] == "weakmap":
        return "instanceMap"
    if r["kind"] == "ctxvar":
        return None if ("dirty" in flags or "net" in flags) else "scratchVar"
    if r["kind"] in ("map", "set", "list", "lru", "scalar", "weakset") and flags == ["r1"]:
        return "saturating"
    return None


def requests_reaching(sites: list) -> dict:
    """Which catalogue programs execute the lines of the given scanned sites (line tracing limited to the
    sites' files)."""
    w = _worker_mod()
    spans: dict = {}
    for f, lo, hi, site in c14_scan.LINES:
        sid = c14_scan.site_id(site)
        if sid in sites:
            spans.setdefault(f, []).append((lo, hi, sid))
    reach: dict = {sid: [] for sid in sites}
    if not spans:
        return reach
    for rid in [i for i in w.request_ids() if i not in w.FAILING]:
        hit: set = set()

        def local(frame, event, arg, _sp=None):
            if event == "line":
                for lo, hi, sid in local.sp:
                    if lo <= frame.f_lineno <= hi:
                        hit.add(sid)
            return local

        def tracer(frame, event, arg):
            sp = spans.get(os.path.basename(frame.f_code.co_filename))
            if sp is None or str(REPO) not in frame.f_code.co_filename:
                return None
            local.sp = sp
            return local
        sys.settrace(tracer)
        try:
            convert_digest(rid)
        finally:
            sys.settrace(None)
        for sid in hit:
            reach[sid].append(rid)
    return reach


def focused_sweep(chk: Check, rng: common.Rng, uncovered: list, tmp: str) -> tuple:
    """A site the obligations do not cover: find the catalogue programs that reach it and export exactly
    those under many more hash seeds (short histories, each program twice)."""
    reach = requests_reaching(uncovered)
    rids = sorted({r for v in reach.values() for r in v})
    chk.info("focused_sweep_reach", {site_label(s): v for s, v in reach.items()})
    if not rids:
        return [], [], reach
    seeds = list(range(3, 11)) + [rng.randint(11, 2 ** 32 - 1) for _ in range(2)]
    specs = [{"hashseed": hs, "malloc": None,
              "spec": {"history": rids + list(reversed(rids)), "garbage_seed": hs if hs % 2 else 0,
                       "gc": "default", "preimport": []}} for hs in seeds]
    dirs = []
    for i in range(len(specs)):
        d = os.path.join(tmp, f"focus{i}")
        os.makedirs(d, exist_ok=True)
        dirs.append(d)
    with ThreadPoolExecutor(max_workers=5) as ex:
        results = list(ex.map(lambda jd: run_worker(jd[0], jd[1]), zip(specs, dirs)))
    chk.info("focused_sweep", {"requests": rids, "hash_seeds": seeds, "processes": len(specs)})
    return specs, results, reach


# ---- refresh


def _mk_forest(rng: common.Rng, depth: int):
    """A random elementwise DAG description: externals with current (un-transposed) shapes,
    nodes level by level whose outputs still carry the transposed/stale shapes."""
    base = rng.choice([(2, 3, 4), (1, 3, 4), (2, 3, 1), (5, 2)])
    stale = tuple(base[i] for i in ((0, 2, 1) if len(base) == 3 else (1, 0)))
    variants = [base, base[1:], (1,) * len(base), base[-1:], tuple(1 if i == 0 else d for i, d in enumerate(base))]
    ext = {}
    nid = 1
    for _ in range(rng.randint(1, 3)):
        ext[nid] = rng.choice(variants) if rng.chance(0.4) else base
        nid += 1
    if not any(s == base for s in ext.values()):
        ext[1] = base
    nodes = []
    avail = list(ext)
    out_id = 10
    level_prev: list = []
    for lv in range(depth):
        this = []
        for _ in range(rng.randint(1, 2)):
            unary = rng.chance(0.5)
            srcs = (level_prev if (level_prev and rng.chance(0.8)) else avail)
            a = rng.choice(srcs)
            ins = [a] if unary else [a, rng.choice(avail)]
            nodes.append({"id": len(nodes), "out": out_id, "ins": ins,
                          "op": rng.choice(["Exp", "Abs", "Neg", "Sqrt"]) if unary else rng.choice(["Mul", "Add", "Sub"])})
            this.append(out_id)
            out_id += 1
        avail += this
        level_prev = this
    ann = dict(ext)
    for n in nodes:
        ann[n["out"]] = stale if rng.chance(0.85) else base
    return {"ann": ann, "nodes": nodes, "ext": list(ext)}


def _real_refresh(forest: dict, order: list) -> dict:
    import onnx_ir as ir
    import jax2onnx.converter.ir_optimizations as opt
    vals = {}
    for v in forest["ext"]:
        vals[v] = ir.val(f"v{v}", ir.DataType.FLOAT, forest["ann"][v])
    nodes = {}
    for n in forest["nodes"]:
        o = ir.val(f"v{n['out']}", ir.DataType.FLOAT, forest["ann"][n["out"]])
        vals[n["out"]] = o
        nodes[n["id"]] = ir.Node(op_type=n["op"], domain="", inputs=[vals[i] for i in n["ins"]],
                                 outputs=[o], name=f"n{n['id']}")
    for i in order:
        opt._refresh_elementwise_output_shape(nodes[i])
    res = {}
    for n in forest["nodes"]:
        s = vals[n["out"]].shape
        res[n["out"]] = None if s is None else [int(d) for d in s.dims]
    return res


def corr_refresh(chk: Check, rng: common.Rng, n: int):
    """Real `_refresh_elementwise_output_shape` applied in a given order vs the model's `refreshAll`."""
    lines, reals, metas = [], [], []
    for _ in range(n):
        f = _mk_forest(rng, rng.randint(1, 3))
        ids = [x["id"] for x in f["nodes"]]
        orders = [ids, list(reversed(ids)), rng.shuffle(ids)]
        per_order = []
        for od in orders:
            real = _real_refresh(f, od)
            nodes = [[x["id"], x["out"], x["ins"]] for i in od for x in f["nodes"] if x["id"] == i]
            lines.append(json.dumps({"op": "refresh", "ann": [[k, list(v)] for k, v in f["ann"].items()],
                                     "nodes": nodes, "query": [x["out"] for x in f["nodes"]]}))
            reals.append([real[x["out"]] for x in f["nodes"]])
            per_order.append(reals[-1])
            metas.append((f, od))
        one_level = all(i in f["ext"] for x in f["nodes"] for i in x["ins"])
        differs = any(p != per_order[0] for p in per_order)
        chk.count({"op": "refresh", "forest": f["nodes"], "ann": {str(k): list(v) for k, v in f["ann"].items()},
                   "order_dependent": differs}, nontrivial=len(ids) > 1)
        if differs:
            chk.add("refresh_forests_order_dependent_on_real_code")
            if one_level:
                chk.add("refresh_one_level_order_dependent")  # would contradict the partial theorem
    def judge(ans):
        bad = []
        for l, r, a, (f, od) in zip(lines, reals, ans, metas):
            if json.loads(a) != r:
                bad.append({"request": json.loads(l), "real": r, "model": json.loads(a), "order": od})
        return bad
    return lines, judge


def pass_level_forest(chk: Optional[Check], rng: Optional[common.Rng], n: int, only_spec=None):
    """Real `remove_redundant_transpose_pairs_ir` on generated `T(a)[,T(s)] -> elementwise DAG -> T^-1`
    graphs, with the enumeration order of the sets steered: insertion vs reversed."""
    import onnx_ir as ir
    import irtools
    import jax2onnx.converter.ir_optimizations as opt
    found = []

    def build(spec):
        perm = [0, 2, 1]
        a = ir.val("a", ir.DataType.FLOAT, (2, 3, 4))
        s = ir.val("s", ir.DataType.FLOAT, (2, 3, 4))
        ta = ir.val("ta", ir.DataType.FLOAT, (2, 4, 3))
        ts = ir.val("ts", ir.DataType.FLOAT, (2, 4, 3))
        nodes = [ir.Node(op_type="Transpose", domain="", inputs=[a], outputs=[ta], name="T_a",
                         attributes=[irtools.ints_attr("perm", perm)]),
                 ir.Node(op_type="Transpose", domain="", inputs=[s], outputs=[ts], name="T_s",
                         attributes=[irtools.ints_attr("perm", perm)])]
        cur, k = ta, 0
        for op in spec:
            o = ir.val(f"e{k}", ir.DataType.FLOAT, (2, 4, 3))
            ins = [cur, ts] if op in ("Mul", "Add", "Sub") else [cur]
            nodes.append(ir.Node(op_type=op, domain="", inputs=ins, outputs=[o], name=f"n{k}"))
            cur, k = o, k + 1
        y = ir.val("y", ir.DataType.FLOAT, (2, 3, 4))
        nodes.append(ir.Node(op_type="Transpose", domain="", inputs=[cur], outputs=[y], name="T_out",
                             attributes=[irtools.ints_attr("perm", perm)]))
        g = ir.Graph(name="forest", inputs=[a, s], outputs=[y], nodes=nodes, opset_imports={"": 23})
        return irtools.make_model(g)

    def orders(spec):
        res = {}
        for mode in ("ins", "rev"):
            OSet.LOG.clear()
            with inject(mode):
                m = build(spec)
                opt.remove_redundant_transpose_pairs_ir(m.graph)
            res[mode] = {"ops": [nd.op_type for nd in m.graph],
                         "out_shape": [int(d) for d in m.graph.outputs[0].shape.dims],
                         "shapes": {v.name: [int(d) for d in v.shape.dims] for nd in m.graph for v in nd.outputs}}
        return res

    if only_spec is not None:
        return orders(only_spec)
    for _ in range(n):
        spec = [rng.choice(["Mul", "Exp", "Abs", "Neg", "Add", "Sqrt"]) for _ in range(rng.randint(1, 4))]
        if not any(op in ("Mul", "Add", "Sub") for op in spec):
            spec[0] = "Mul"
        res = orders(spec)
        dep = res["ins"] != res["rev"]
        chk.count({"op": "pass-forest", "spec": spec, "order_dependent": dep}, nontrivial=len(spec) > 1)
        if dep:
            found.append({"spec": spec, "insertion_order": res["ins"], "reversed_order": res["rev"]})
    return found


# ----------------------------------------------------------------------------- C: in-process injection


def inprocess_orders(chk: Check, rng: common.Rng, thorough: bool):
    """Every non-failing catalogue request under forced set-enumeration orders."""
    w = _worker_mod()
    ids = [i for i in w.request_ids() if i not in w.FAILING]
    legal: dict = {}
    culprits: dict = {}
    details: dict = {}
    shuffles = [("shuf", rng.randint(1, 10 ** 6)) for _ in range(4 if thorough else 1)]
    for rid in ids:
        OSet.LOG.clear()
        with inject("ins"):
            base = convert_digest(rid)
        iterated = {s: n for s, n in OSet.LOG.items() if n >= 2}
        runs = {"ins": base}
        if iterated:
            for mode in ["rev"] + shuffles:
                with inject(mode):
                    runs[str(mode)] = convert_digest(rid)
        natural = convert_digest(rid)            # unpatched, at this point of the process history
        runs["natural"] = natural
        digs = {k: (v["digest"] or "ERR:" + str(v["error"])) for k, v in runs.items()}
        legal[rid] = {v for k, v in digs.items() if k != "natural"}
        dep = len(set(v for k, v in digs.items() if k != "natural")) > 1
        chk.count({"op": "order-injection", "request": rid, "sites_enumerating_2plus": sorted(iterated),
                   "order_dependent": dep}, nontrivial=bool(iterated))
        if dep:
            culprits[rid] = []
            for sid in sorted(iterated):
                with inject("ins", {sid: "rev"}):
                    one = convert_digest(rid)
                legal[rid].add(one["digest"] or "ERR:" + str(one["error"]))
                if one["digest"] != base["digest"]:
                    culprits[rid].append((sid, one))
            if not culprits[rid]:
                other = next(v for k, v in runs.items() if k not in ("ins", "natural") and v["digest"] != base["digest"])
                culprits[rid].append(("unattributed", other))
        details[rid] = {"base": base, "natural_in_legal": digs["natural"] in legal[rid], "natural": natural}
    return legal, culprits, details


# ----------------------------------------------------------------------------- D: subprocess digests


def plugin_modules() -> list:
    import pkgutil
    root = REPO / "jax2onnx" / "plugins"
    out = []
    for sub in ("jax/lax", "jax/numpy", "flax/nnx", "jax/nn"):
        d = root / sub
        if d.is_dir():
            for m in pkgutil.iter_modules([str(d)]):
                if not m.name.startswith("_"):
                    out.append("jax2onnx.plugins." + sub.replace("/", ".") + "." + m.name)
    return out


def make_specs(rng: common.Rng, thorough: bool) -> list:
    w = _worker_mod()
    ok_ids = [i for i in w.request_ids() if i not in w.FAILING]
    plug = plugin_modules()
    seeds = [0, 1, 2, rng.randint(3, 2 ** 32 - 1)]
    n_hist = 2
    if thorough:
        seeds = [0, 1, 2, 3] + [rng.randint(4, 2 ** 32 - 1) for _ in range(8)]
        n_hist = 3
    specs = []
    for si, hs in enumerate(seeds):
        for h in range(n_hist):
            hist = rng.shuffle(ok_ids)
            # repeats (same base names twice, decorated functions exported twice) and failures in between
            extra = rng.sample(ok_ids, 4) + ["fn_shared", "fn_const", "t_chain", "t_dag_mul_exp", "call_params2"]
            for e in extra:
                hist.insert(rng.randint(0, len(hist)), e)
            for f in rng.sample([x for x in w.FAILING if x not in w.SIBLING], 2):
                hist.insert(rng.randint(0, len(hist)), f)
            # a failing conversion whose failure point is inside / after function building, with the good
            # request that uses the SAME decorated target exported before and again afterwards
            for f, good in w.SIBLING.items():
                i = rng.randint(1, len(hist))
                hist.insert(i, f)
                hist.insert(rng.randint(0, i), good)
                hist.insert(rng.randint(i + 2, len(hist)), good)
            idx = si * n_hist + h
            specs.append({
                "hashseed": hs,
                "malloc": "malloc" if idx % 5 == 4 else None,
                "spec": {"history": hist,
                         "garbage_seed": 0 if idx % 3 == 0 else rng.randint(1, 10 ** 6),
                         "gc": ["default", "disable", "collect"][idx % 3],
                         "preimport": rng.sample(plug, min(len(plug), 10)) if (plug and idx % 2 == 1) else []},
            })
    return specs


def run_worker(job: dict, dump_dir: Optional[str] = None, timeout: int = 900) -> dict:
    env = dict(os.environ)
    env["PYTHONHASHSEED"] = str(job["hashseed"])
    env["J2O_REPO"] = str(REPO)
    env["JAX_PLATFORMS"] = "cpu"
    if job.get("malloc"):
        env["PYTHONMALLOC"] = job["malloc"]
    spec = dict(job["spec"])
    if dump_dir:
        spec["dump_dir"] = dump_dir
    r = subprocess.run([sys.executable, str(WORKER), json.dumps(spec)], capture_output=True, text=True,
                       timeout=timeout, env=env)
    for line in r.stdout.splitlines():
        if line.startswith("RESULT "):
            return json.loads(line[7:])
    raise RuntimeError(f"C14 worker produced no result (exit {r.returncode}): {r.stderr[-1500:]}")


def start_subprocesses(rng: common.Rng, thorough: bool, tmp: str):
    """Launch the worker processes (<= 8 at a time); they run while the parent does the Lean
    build, the correspondences and the in-process part."""
    specs = make_specs(rng, thorough)
    dirs = []
    for i in range(len(specs)):
        d = os.path.join(tmp, f"run{i}")
        os.makedirs(d)
        dirs.append(d)
    ex = ThreadPoolExecutor(max_workers=8)
    futs = [ex.submit(run_worker, job, d) for job, d in zip(specs, dirs)]
    return specs, dirs, futs, ex


def collect_subprocesses(chk: Check, specs: list, futs: list):
    results = [f.result() for f in futs]
    by_req: dict = {}
    w = _worker_mod()
    leaks, benign = [], 0
    for ri, (job, res) in enumerate(zip(specs, results)):
        for rec in res["results"]:
            rec = dict(rec)
            rec["run"] = ri
            if rec["id"] in w.IN_BODY and not (rec["error"] == "BodyBuildFailure" and rec.get("in_build")):
                raise RuntimeError(f"catalogue request {rec['id']} no longer fails inside the function-body "
                                   f"build: {rec}")
            ch = rec.get("state_changed") or {}
            if any(k in ch for k in STATE_VERDICT_KEYS):
                leaks.append({"run": ri, "pos": rec["pos"], "request": rec["id"], "error": rec["error"],
                              "changed": {k: v for k, v in ch.items() if k in STATE_VERDICT_KEYS}})
            elif ch:
                benign += 1
            by_req.setdefault(rec["id"], []).append(rec)
            chk.count({"op": "subprocess", "request": rec["id"], "hashseed": job["hashseed"], "pos": rec["pos"],
                       "gc": job["spec"]["gc"], "garbage": bool(job["spec"]["garbage_seed"]),
                       "preimport": bool(job["spec"]["preimport"]), "malloc": job.get("malloc")},
                      nontrivial=rec["pos"] > 0)
    chk.info("subprocess_runs", {"processes": len(specs), "conversions": sum(len(r["results"]) for r in results),
                                 "hash_seeds": sorted({j["hashseed"] for j in specs}),
                                 "history_length": [len(j["spec"]["history"]) for j in specs]})
    chk.info("state_probe", {"conversions_probed": sum(len(r["results"]) for r in results),
                             "leaks": leaks[:10], "benign_onnx_fn_hits_changes": benign})
    return by_req, leaks


def _summary_of(path: str) -> list:
    import onnx
    w = _worker_mod()
    return w.summary(onnx.load(path))


# ----------------------------------------------------------------------------- the check


def run(chk: Check) -> None:
    rng = common.Rng(chk.seed)
    thorough = chk.tier == "thorough"
    t0 = time.time()
    timing: dict = {}
    tmp = tempfile.mkdtemp(prefix="c14_")
    ex = None
    pex = ThreadPoolExecutor(max_workers=2)
    try:
        probe_f = pex.submit(run_probe)          # fresh interpreter, fixed protocol; joined before the Lean build
        specs, dirs, futs, ex = start_subprocesses(common.Rng(chk.seed * 7919 + 13), thorough, tmp)
        _run_body(chk, rng, thorough, specs, dirs, futs, timing, t0, probe_f, tmp, pex)
    finally:
        pex.shutdown(wait=True, cancel_futures=True)
        if ex is not None:
            ex.shutdown(wait=True, cancel_futures=True)
        shutil.rmtree(tmp, ignore_errors=True)
    chk.info("timing_s", timing)


def _run_body(chk: Check, rng: common.Rng, thorough: bool, specs: list, dirs: list, futs: list,
              timing: dict, t0: float, probe_f, tmp: str, pex) -> None:
    gen = generate(with_state=False)
    sites = gen["sites"]

    def _probe_and_prove():
        # T: state probe -> Gen/C14State.lean, then the Lean build of all obligations; runs beside the
        # in-process parts (it mostly waits: for the probe interpreter, for lake)
        p = probe_f.result()
        write_state_gen(p)
        ok = chk.prove(MODS, checker=thorough)
        timing["probe+lean_done"] = round(time.time() - t0, 1)
        return p, ok
    lean_f = pex.submit(_probe_and_prove)
    kinds: dict = {}
    for s in sites:
        kinds[s["kind"]] = kinds.get(s["kind"], 0) + 1
    chk.info("scan", {"files": len(c14_scan.FILES), "missing_files": gen["missing"], "sites": len(sites),
                      "by_kind": kinds, "set_constructor_sites": len(gen["ctors"])})
    reviewed = reviewed_sites()
    unreviewed = [c14_scan.site_id(s) for s in sites
                  if c14_scan.site_id(s) not in reviewed and s.get("auto") not in c14_scan.AUTO_CLASSES]
    chk.info("unreviewed_sites", unreviewed)
    for sid in unreviewed:
        chk.log(f"iteration site not covered (neither auto-justified nor reviewed): {sid}")
    chk.info("auto_justified_sites", {c14_scan.site_id(s): s["auto"] for s in sites if s.get("auto")})
    chk.info("stale_reviewed_rows", sorted(set(reviewed) - {c14_scan.site_id(s) for s in sites}))
    chk.info("reviewed_classes", {c: sum(1 for s in sites if reviewed.get(c14_scan.site_id(s)) == c)
                                  for c in sorted(set(reviewed.values()))})

    # ---- H: correspondences with the Lean model
    k = 4 if thorough else 1
    parts = {
        "names": corr_names(chk, rng, 6 * k),
        "friendly": corr_friendly(chk, rng, 8 * k),
        "memo": corr_memo(chk, rng, 8 * k),
        "convert": corr_convert(chk, rng, 12 * k),
        "refresh": corr_refresh(chk, rng, 40 * k),
        "ctx": corr_ctx(chk, rng, 60 * k),
    }
    all_lines = [l for lines, _ in parts.values() for l in lines]
    answers = common.run_driver("C14", all_lines)          # one Lean start for all requests
    corr_bad, at = {}, 0
    for name, (lines, judge) in parts.items():
        corr_bad[name] = judge(answers[at:at + len(lines)])
        at += len(lines)
    chk.info("driver_requests", len(all_lines))
    chk.info("correspondence", {n: len(v) for n, v in corr_bad.items()})
    timing["correspondence"] = round(time.time() - t0, 1)
    chk.add("traces_validated_against_impl", chk.coverage["evaluations"])

    # ---- OBS (C): forced enumeration orders, in process
    legal, culprits, details = inprocess_orders(chk, rng, thorough)
    forest_found = pass_level_forest(chk, rng, 24 if thorough else 8)
    timing["in_process_orders"] = round(time.time() - t0, 1)
    chk.info("iteration_sites_not_covered_by_the_scan", dict(OSet.UNSCANNED))
    refresh_site = "ir_optimizations.py:remove_redundant_transpose_pairs_ir:for-set:elem_nodes:node"

    unlisted = 0
    for rid, cs in culprits.items():
        base = details[rid]["base"]
        for sid, other in cs:
            kind = classify(base, other)
            key = {"request": rid, "site": site_label(sid), "kind": kind}
            rep = {"how": "in-process, forced enumeration order of the set at `site` (insertion vs reversed); "
                          "both are legal orders of a Python set",
                   "inject": {"request": rid, "site": sid},
                   "diff": diff_lines(base["summary"], other["summary"]),
                   "rerun": f"VERIF_SEED={chk.seed} /venv/bin/python harness/vcheck.py C14 --replay <this file>"}
            if not chk.finding(key, f"export of request {rid} depends on the enumeration order of a set at {sid} ({kind})", rep):
                unlisted += 1
    if forest_found:
        f0 = forest_found[0]
        key = {"request": "gen:multi-level-forest", "site": site_label(refresh_site or "unattributed"),
               "kind": "stale-shape-annotation"}
        if not chk.finding(key, "remove_redundant_transpose_pairs_ir leaves order-dependent shape annotations on "
                                f"{len(forest_found)} generated transpose forests, e.g. {f0['spec']}",
                           {"forest": f0, "how": "real pass, sets enumerated in insertion vs reversed order"}):
            unlisted += 1
    for rid, d in details.items():
        if not d["natural_in_legal"]:
            key = {"request": rid, "site": "unattributed", "kind": "in-process-history"}
            if not chk.finding(key, f"unpatched in-process export of {rid} differs from every forced-order export",
                               {"request": rid, "repeat": {"request": rid},
                                "how": "unpatched code, the same request converted again later in the same process",
                                "diff": diff_lines(d["base"]["summary"], d["natural"]["summary"])}):
                unlisted += 1

    # ---- OBS (C'): in-process histories good -> failing -> good (failure points incl. the function-body build)
    w = _worker_mod()
    inproc_leaks = []
    for fail in w.FAILING:
        good = w.SIBLING.get(fail, "fn_shared")
        a = convert_digest(good)
        before = w.state_snapshot()
        f = convert_digest(fail)
        after = w.state_snapshot()
        b = convert_digest(good)
        changed = {k: [before[k], after[k]] for k in STATE_VERDICT_KEYS if before[k] != after[k]}
        chk.count({"op": "history-after-failure", "good": good, "failing": fail, "error": f["error"],
                   "state_changed": changed}, nontrivial=True)
        if f["digest"] is not None:
            raise RuntimeError(f"catalogue request {fail} was expected to fail but converted")
        if changed:
            inproc_leaks.append({"request": fail, "changed": changed, "where": "in-process"})
        if a["digest"] != b["digest"]:
            kind = classify(a, b)
            job = {"hashseed": 0, "malloc": None,
                   "spec": {"history": [good, fail, good], "garbage_seed": 0, "gc": "default", "preimport": []}}
            rep = {"how": f"unpatched code, one process: export {good}, then the failing conversion {fail}, "
                          f"then {good} again",
                   "request": good, "kind": kind, "state_changed_by_failed_conversion": changed,
                   "run_a": {"job": job, "pos": 0, "digest": a["digest"], "error": a["error"]},
                   "run_b": {"job": job, "pos": 2, "digest": b["digest"], "error": b["error"]},
                   "diff": diff_lines(a["summary"], b["summary"]),
                   "rerun": "/venv/bin/python harness/vcheck.py C14 --replay <this file>"}
            key = {"request": good, "site": f"history:after-failed:{fail}", "kind": kind}
            if not chk.finding(key, f"export of {good} changes after the failed conversion {fail} in the same "
                                    f"process ({kind})", rep):
                unlisted += 1

    # ---- OBS (C''): failures injected into real function-body tracing / lowering (tie of `contextvar_restored`)
    inj_findings, inj_leaks = inject_failures(chk, rng, thorough)
    for fnd in inj_findings:
        rid = fnd["request"]
        kind = classify(fnd["base"], fnd["again"])
        key = {"request": rid, "site": f"history:after-injected-failure:{fnd['point']}", "kind": kind}
        rep = {"how": f"unpatched code, one process: export {rid}; convert {rid} again with an exception injected at "
                      f"occurrence #{fnd['k']} of '{fnd['point']}' (trace = jax.make_jaxpr call, >= 2 is the re-trace "
                      f"of an @onnx_function body; name = fresh-name allocation during lowering); export {rid} again",
               "inject_failure": {"request": rid, "point": fnd["point"], "k": fnd["k"]},
               "nesting_at_point": fnd["nesting"], "contextvars_changed_by_failed_conversion": fnd["changed"],
               "diff": diff_lines(fnd["base"]["summary"], fnd["again"]["summary"]),
               "rerun": "/venv/bin/python harness/vcheck.py C14 --replay <this file>"}
        if not chk.finding(key, f"export of {rid} changes after a conversion that failed at {fnd['point']}#{fnd['k']} "
                                f"(inside a function-body build) in the same process ({kind})", rep):
            unlisted += 1
    inproc_leaks += inj_leaks
    poisoned = poison_ctxvars(chk)
    for pz in poisoned:
        key = {"request": pz["request"], "site": f"state:{pz['var'].split(':')[-1]}", "kind": "reads-stale-contextvar"}
        if not chk.finding(key, f"export of {pz['request']} depends on what an earlier conversion left in {pz['var']}",
                           {"how": "in-process: the ContextVar got a foreign member before the export",
                            "poison": pz, "diff": pz["diff"]}):
            unlisted += 1
    timing["failure_injection"] = round(time.time() - t0, 1)

    # ---- T: state probe -> Gen/C14State.lean; Lean build of all obligations
    probe, proved = lean_f.result()
    unclassified = [r for r in probe["rows"] if classify_state_row(r) is None]
    chk.info("state_probe_inventory", {"objects": probe["inventory_size"], "by_kind": probe["inventory_kinds"],
                                       "ctxvars": probe["ctxvars"], "unexpected_outcomes": probe["unexpected_outcomes"],
                                       "surviving": {r["name"]: [r["kind"], r["flags"], classify_state_row(r)]
                                                     for r in probe["rows"]}})
    chk.info("unclassified_state", unclassified)
    for r in unclassified:
        chk.log(f"process-wide state without an independence class: {r['name']} ({r['kind']}, changed in {r['flags']})")
    timing["probe+lean_joined"] = round(time.time() - t0, 1)

    # ---- OBS (D): the unpatched code in subprocesses
    if True:
        by_req, state_leaks = collect_subprocesses(chk, specs, futs)
        state_leaks = state_leaks + inproc_leaks
        if unreviewed:                              # a site nobody justified: sweep the programs that reach it
            f_specs, f_results, reach = focused_sweep(chk, rng, unreviewed, tmp)
            base_run = len(specs)
            for j, (job, res) in enumerate(zip(f_specs, f_results)):
                specs.append(job)
                dirs.append(os.path.join(tmp, f"focus{j}"))
                for rec in res["results"]:
                    rec = dict(rec)
                    rec["run"] = base_run + j
                    by_req.setdefault(rec["id"], []).append(rec)
                    chk.count({"op": "focused-subprocess", "request": rec["id"], "hashseed": job["hashseed"],
                               "pos": rec["pos"]}, nontrivial=True)
        timing["subprocesses_joined"] = round(time.time() - t0, 1)
        w = _worker_mod()
        differing = {}
        for rid, recs in by_req.items():
            outcomes = {(r["digest"] or "ERR:" + str(r["error"])) for r in recs}
            expect_fail = rid in w.FAILING
            if expect_fail and any(r["digest"] is not None for r in recs):
                raise RuntimeError(f"catalogue request {rid} was expected to fail but converted")
            if len(outcomes) > 1:
                differing[rid] = recs
        chk.info("subprocess_requests_with_differing_digests", sorted(differing))
        for rid, recs in differing.items():
            a = recs[0]
            pairs = [(x, y) for x in recs for y in recs
                     if (x["digest"], x["error"]) != (y["digest"], y["error"]) and x["run"] == y["run"]
                     and x["pos"] < y["pos"]]
            if pairs:                                   # sharpest replay: two positions of ONE history
                a, b = pairs[0]
            else:
                b = next(r for r in recs if (r["digest"], r["error"]) != (a["digest"], a["error"]))
            kind = classify(a, b)
            observed = {(r["digest"] or "ERR:" + str(r["error"])) for r in recs}
            explained = rid in culprits and observed <= legal.get(rid, set()) and \
                all(sid != "unattributed" for sid, _ in culprits[rid])
            diff = []
            try:
                if a["digest"] and b["digest"]:
                    diff = diff_lines(_summary_of(os.path.join(dirs[a["run"]], f"{a['pos']}_{rid}.onnx")),
                                      _summary_of(os.path.join(dirs[b["run"]], f"{b['pos']}_{rid}.onnx")))
            except Exception as e:  # noqa: BLE001
                diff = [{"error": str(e)[:200]}]
            rep = {"how": "unpatched code, two worker processes (or two positions of one history)",
                   "request": rid, "kind": kind,
                   "run_a": {"job": specs[a["run"]], "pos": a["pos"], "digest": a["digest"], "error": a["error"]},
                   "run_b": {"job": specs[b["run"]], "pos": b["pos"], "digest": b["digest"], "error": b["error"]},
                   "distinct_outcomes": len(observed), "diff": diff,
                   "rerun": "/venv/bin/python harness/vcheck.py C14 --replay <this file>"}
            if explained:
                for sid, _ in culprits[rid]:
                    key = {"request": rid, "site": site_label(sid), "kind": kind}
                    if not chk.finding(key, f"export of {rid} differs between processes/positions ({kind})", rep):
                        unlisted += 1
            else:
                key = {"request": rid, "site": "unattributed", "kind": kind}
                if not chk.finding(key, f"export of {rid} differs between processes/positions ({kind}); not explained "
                                        "by a known order-dependent site", rep):
                    unlisted += 1

    # ---- verdicts for broken obligations / correspondences without a failing export
    n_corr = sum(len(v) for v in corr_bad.values())
    if chk.coverage.get("refresh_one_level_order_dependent"):
        n_corr += 1
    if not proved and unlisted == 0:
        chk.violation({"broken": getattr(chk, "broken", []), "unreviewed_sites": unreviewed,
                       "unclassified_state": unclassified,
                       "missing_files": gen["missing"],
                       "build_log_tail": getattr(chk, "build_log", "")[-2500:],
                       "note": "an iteration site found by the scan is neither auto-justified by the dataflow check "
                               "nor in the reviewed list (new site or changed loop body), or a piece of process-wide "
                               "state changed by conversions falls in no class with an independence theorem, or a "
                               "theorem no longer checks; the digest search over hash seeds (incl. the focused sweep "
                               "of the programs that reach the site) / histories / injected failures / forced "
                               "enumeration orders found no differing export"},
                      name="obligation-broken", no_failing_input=True)
    if state_leaks and unlisted == 0:
        chk.violation({"state_leaks": state_leaks[:10],
                       "note": "a conversion left process-wide state (_IN_FUNCTION_BUILD / _PATCH_STATE / "
                               "jax_enable_x64) different from what it found; no differing export was found"},
                      name="state-leak", no_failing_input=True)
    if n_corr and unlisted == 0:
        chk.violation({"correspondence": {n: v[:5] for n, v in corr_bad.items() if v},
                       "note": "the real naming/memo/registry/refresh primitives disagree with the Lean model; "
                               "the digest search found no differing export"},
                      name="correspondence", no_failing_input=True)
    chk.assumptions += [
        "hash functions are injective on the keys that occur (no collisions of hash(bytes) / id())",
        "every enumeration order of a Python set is a possible behaviour (used to steer orders in-process)",
        "onnx_ir passes, JAX tracing and protobuf deterministic serialisation are observed only through digests",
    ]
    chk.coverage["rule"] = (
        "scan: all for/comprehension/list()/sorted()/pop() over sets, identity-keyed dicts, module registries "
        "and all hash()/id() calls in 9 anchored files (exhaustive, syntactic). Correspondence: seeded histories "
        "of naming/memo/registry operations and random elementwise forests x 3 visiting orders; non-trivial = "
        "repeated bases/keys, >1 node; random ContextVar save/restore programs with raising steps (non-trivial = "
        "raising step under nesting >= 3). State: every module/class-level container, cache, scalar and ContextVar "
        "of jax2onnx (found by type) diffed across a fixed two-round protocol of 12 good + 6 failing conversions. "
        "Injection: every function-body trace of 4 (thorough 7) function programs fails once, plus sampled "
        "fresh-name allocations; ContextVars poisoned. Exports: catalogue of 23 programs + 6 failing ones (two fail inside a "
        "function-body build) x forced set orders "
        "(non-trivial = some scanned site enumerated >= 2 elements) and x subprocesses (hash seeds x histories x "
        "allocation noise x gc x malloc x plugin pre-import); non-trivial = not first in its history")
    chk.coverage["exhaustive"] = False


# ----------------------------------------------------------------------------- replay


def replay(path: str) -> int:
    rep = json.loads(open(path).read())
    print(json.dumps({k: v for k, v in rep.items() if k != "build_log_tail"}, indent=1)[:3500])
    if "run_a" in rep:
        outs = []
        for side in ("run_a", "run_b"):
            res = run_worker(rep[side]["job"])
            rec = res["results"][rep[side]["pos"]]
            outs.append(rec["digest"] or "ERR:" + str(rec["error"]))
            print(side, "->", outs[-1])
        return 1 if outs[0] != outs[1] else 0
    if "inject" in rep:
        generate(with_state=False)
        rid, sid = rep["inject"]["request"], rep["inject"]["site"]
        with inject("ins"):
            a = convert_digest(rid)
        with (inject("ins", {sid: "rev"}) if sid != "unattributed" else inject("rev")):
            b = convert_digest(rid)
        print("insertion order:", a["digest"], "reversed:", b["digest"])
        for d in diff_lines(a["summary"], b["summary"]):
            print(d)
        return 1 if a["digest"] != b["digest"] else 0
    if "forest" in rep:
        generate(with_state=False)
        res = pass_level_forest(None, None, 0, only_spec=rep["forest"]["spec"])
        print("insertion order:", res["ins"]["shapes"], "\nreversed order: ", res["rev"]["shapes"])
        return 1 if res["ins"] != res["rev"] else 0
    if "inject_failure" in rep:
        w = _worker_mod()
        j = rep["inject_failure"]
        a = convert_digest(j["request"])
        res = w.convert_injected(j["request"], j["point"], j["k"])
        b = convert_digest(j["request"])
        print("first:", a["digest"], "| injected failure:", res["error"], "| again:", b["digest"])
        for d in diff_lines(a["summary"], b["summary"]):
            print(d)
        return 1 if a["digest"] != b["digest"] else 0
    if "poison" in rep:
        return 1 if poison_ctxvars(Check("C14", "quick", 0)) else 0
    if "repeat" in rep:
        rid = rep["repeat"]["request"]
        a = convert_digest(rid)
        for other in ("ew", "fail_after_fn", "fn_shared"):
            convert_digest(other)
        b = convert_digest(rid)
        print("first:", a["digest"], "after three other conversions:", b["digest"])
        for d in diff_lines(a["summary"], b["summary"]):
            print(d)
        return 1 if a["digest"] != b["digest"] else 0
    if "unreviewed_sites" in rep:
        gen = generate(with_state=bool(rep.get("unclassified_state")))
        rv = reviewed_sites()
        now = [c14_scan.site_id(s) for s in gen["sites"]
               if c14_scan.site_id(s) not in rv and s.get("auto") not in c14_scan.AUTO_CLASSES]
        print("unreviewed now:", now)
        unc = [r for r in (gen["probe"] or {}).get("rows", []) if classify_state_row(r) is None]
        print("unclassified state now:", unc)
        return 1 if (now or unc) else 0
    return 0


if __name__ == "__main__":  # developer aid: print the scanned sites as Lean rows for the reviewed list
    _rv = reviewed_sites()
    for s in generate(with_state=False)["sites"]:
        cls = _rv.get(c14_scan.site_id(s), ("auto:" + s["auto"]) if s.get("auto") else "TODO_REVIEW")
        print("  ((" + ", ".join(lean_str(s[k]) for k in SITE_KEYS) + f"), .{cls}),")
