"""C16 — failure is loud: never a silently different or partial model.

Proof: lean/J2O/Props/C16.lean — `unregistered_raises` (any nesting depth), `unbound_input_raises`,
`lower_step_never_partial`, `pipeline_nonstrict_total`, `pipeline_prefix_preserves`,
`pipeline_strict_reraises`.  Tie (H): the real `lower_jaxpr_with_plugins` is driven with stub plugins
over generated (nested) jaxpr-like programs and must agree, error for error, with the Lean
dispatcher.  Fault enumeration on the real code: every pass index of `_OPTIMIZER_PASSES` is forced to
abort during real exports — default policy must return a valid model equal to JAX, strict policy
must re-raise.  Unsupported constructs (top level / loop body / function body) must raise or, if
exported, compute what JAX computes.
"""
from __future__ import annotations

import dataclasses
import json
import re
import os
from types import SimpleNamespace
from typing import Optional, Any

import numpy as np

import common
from common import Check

META = {
    "ready": True,
    "level": "proof",
    "technique": "Lean 4 theorems about the dispatcher/policy model + error-for-error correspondence with the "
                 "real dispatcher under stub plugins + exhaustive fault injection over optimizer pass indices and "
                 "injection inside passes at onnx_ir mutation calls",
    "level_text": "Kernel-checked: unregistered_raises (any depth), lower_step_never_partial, pipeline_* policy "
                  "theorems, and for in-place passes that may raise half-way: policyTx_sound (the transactional "
                  "default policy returns a model meaning what the input meant for an abort at ANY point, also inside "
                  "a pass), policyTx_strict_reraises, policyInPlace_unsound (the pre-repair policy refuted). The real "
                  "dispatcher agrees with the model on generated programs x stub plugin behaviours; every pass index "
                  "is forced to abort on real exports (default: valid model == JAX; strict: re-raised); aborts inside a "
                  "pass are injected at onnx_ir mutation calls (seeded sample in quick, all in thorough); unsupported "
                  "constructs raise.",
    "level_note": "Trusted: Lean kernel + 3 axioms; plugins abstracted by their effect on bindings (Act); passes "
                  "abstracted as state transformers that may raise leaving an arbitrary state; that completed passes "
                  "preserve meaning is C02; ORT CPU is the reference executor.",
    "design_ref": "DESIGN.md §3 C16",
}

MODS = ["J2O.Props.C16"]
ACTS = ["bindConnected", "nobind", "bindDisconnected", "returnAll", "returnN", "bindFirstReturnRest",
        "raise", "nested"]


# ----------------------------------------------------------------------------- dispatcher


class DropVar:  # recognised by output_binding.is_drop_var through its class name
    pass


class V:
    def __init__(self, i):
        self.i = i

    def __repr__(self):
        return f"v{self.i}"


def _mk_stub(act: str, registry: dict):
    import onnx_ir as ir
    from jax2onnx.converter.lowering_dispatch import lower_jaxpr_with_plugins

    counter = registry.setdefault("__counter__", [0])

    def fresh(ctx, connected: bool):
        counter[0] += 1
        val = ir.Value(name=f"val_{counter[0]}")
        if connected:
            ctx.builder.nodes.append(SimpleNamespace(outputs=[val]))
        elif counter[0] % 2 == 0:
            # a value that HAS a producer node — one that was never added to the graph
            ir.Node("", "Identity", inputs=[], outputs=[val], name=f"orphan_{counter[0]}")
        return val

    class Stub:
        def lower(self, ctx, eqn):
            nd = [v for v in eqn.outvars if not isinstance(v, DropVar)]
            kind = act.split(":")[0]
            if kind == "bindConnected":
                for v in nd:
                    ctx.bind_value_for_var(v, fresh(ctx, True))
                return None
            if kind == "nobind":
                return None
            if kind == "bindDisconnected":
                for v in nd:
                    ctx.bind_value_for_var(v, fresh(ctx, False))
                return None
            if kind == "returnAll":
                return [fresh(ctx, True) for _ in nd]
            if kind == "returnN":
                return [fresh(ctx, True) for _ in range(int(act.split(":")[1]))]
            if kind == "bindFirstReturnRest":
                if not nd:
                    return []
                ctx.bind_value_for_var(nd[0], fresh(ctx, True))
                return [fresh(ctx, True) for _ in nd[1:]]
            if kind == "raise":
                raise ZeroDivisionError("stub plugin failure")
            if kind == "nested":
                lower_jaxpr_with_plugins(ctx=ctx, jaxpr=eqn.params["jaxpr"], registry=registry["__real__"],
                                         source="verif-nested")
                for v in nd:
                    ctx.bind_value_for_var(v, fresh(ctx, True))
                return None
            raise AssertionError(act)

    return Stub()


def gen_prog(rng: common.Rng, prims: list[str], nvars: list[int], depth: int) -> list[dict]:
    out = []
    for _ in range(rng.randint(0, 4)):
        p = rng.choice(prims + ["unknown_prim"] if rng.chance(0.12) else prims)
        avail = list(range(nvars[0]))
        n_in = rng.randint(0, 2)
        ins = [rng.choice(avail) if avail and not rng.chance(0.06) else nvars[0] + 50 + rng.randint(0, 3)
               for _ in range(n_in)]
        outs = []
        for _ in range(rng.randint(0, 3)):
            if rng.chance(0.15):
                outs.append(None)
            else:
                outs.append(nvars[0])
                nvars[0] += 1
        body = gen_prog(rng, prims, nvars, depth - 1) if depth > 0 and rng.chance(0.5) else []
        out.append({"p": p, "i": ins, "o": outs, "b": body})
    return out


def run_real_dispatch(case: dict) -> str:
    from jax2onnx.converter.lowering_dispatch import lower_jaxpr_with_plugins
    import onnx_ir as ir
    vars_: dict[int, V] = {}

    def var(i):
        if i not in vars_:
            vars_[i] = V(i)
        return vars_[i]

    def build(eqns):
        res = []
        for e in eqns:
            res.append(SimpleNamespace(
                primitive=SimpleNamespace(name=e["p"]),
                invars=[var(i) for i in e["i"]],
                outvars=[DropVar() if o is None else var(o) for o in e["o"]],
                params={"jaxpr": SimpleNamespace(eqns=build(e["b"]))}))
        return res

    builder = SimpleNamespace(_var2val={}, inputs=[], initializers=[], nodes=[])
    ctx = SimpleNamespace(builder=builder)
    ctx.bind_value_for_var = lambda v, val: builder._var2val.__setitem__(v, val)
    for i in case["inputs"]:
        val = ir.Value(name=f"in_{i}")
        builder.inputs.append(val)
        builder._var2val[var(i)] = val
    holder: dict[str, Any] = {}
    real_reg = {p: _mk_stub(a, holder) for p, a in case["reg"].items()}
    holder["__real__"] = real_reg
    try:
        lower_jaxpr_with_plugins(ctx=ctx, jaxpr=SimpleNamespace(eqns=build(case["prog"])),
                                 registry=real_reg, source="verif")
        return "ok"
    except NotImplementedError as e:
        m = str(e)
        # "unregistered": a NotImplementedError that names a primitive of the program which has no
        # plugin (the wording of the message is not part of the contract)
        unknown = [q for q in _prims_of(case["prog"]) if q not in case["reg"]]
        named = [q for q in unknown if re.search(r"(?<![A-Za-z0-9_])" + re.escape(q) + r"(?![A-Za-z0-9_])", m)]
        if len(named) == 1:
            return "unregistered " + named[0]
        if "No plugins registered for primitive" in m and "'" in m:
            return "unregistered " + m.split("'")[1]
        return "other NotImplementedError " + m[:80]
    except ZeroDivisionError:
        return "plugin"
    except RuntimeError as e:
        m = str(e)
        mm = re.search(r"at equation (\d+) has unbound input (\d+)", m)
        if mm:
            return f"unboundInput {mm.group(1)} {mm.group(2)}"
        mm = re.search(r"at equation (\d+) did not bind output (\d+)", m)
        if mm:
            return f"notBound {mm.group(1)} {mm.group(2)}"
        mm = re.search(r"at equation (\d+) bound output (\d+) to disconnected", m)
        if mm:
            return f"disconnected {mm.group(1)} {mm.group(2)}"
        if "non-drop outvar(s) remain unbound" in m:
            return "arity"
        return "other RuntimeError " + m[:80]
    except Exception as e:  # noqa: BLE001
        return f"other {type(e).__name__} {str(e)[:80]}"


def _prims_of(prog) -> list[str]:
    out = []
    for e in prog:
        if e["p"] not in out:
            out.append(e["p"])
        for q in _prims_of(e["b"]):
            if q not in out:
                out.append(q)
    return out


def coarse(outcome: str) -> str:
    """exception class level of an outcome (what the property is about: raise vs. return)"""
    k = outcome.split(" ")[0]
    if k == "ok":
        return "ok"
    if k == "unregistered":
        return "NotImplementedError"
    if k in ("unboundInput", "notBound", "disconnected", "arity"):
        return "RuntimeError"
    if k == "plugin":
        return "plugin"
    if k == "other":
        return outcome.split(" ")[1] if len(outcome.split(" ")) > 1 else "other"
    return k


def canon_model(ans: str) -> str:
    parts = ans.split(" ")
    if parts[0] in ("arity", "plugin"):
        return parts[0]
    return ans


def check_dispatcher(chk: Check, rng: common.Rng, n: int) -> None:
    lines, reals, cases = [], [], []
    for _ in range(n):
        prims = ["pa", "pb", "pc", "pd"]
        reg = {}
        for p in prims:
            a = rng.choice(ACTS if rng.chance(0.6) else ["bindConnected", "nested", "returnAll"])
            reg[p] = f"returnN:{rng.randint(0, 3)}" if a == "returnN" else a
        inputs = list(range(rng.randint(1, 3)))
        nv = [len(inputs)]
        case = {"reg": reg, "inputs": inputs, "prog": gen_prog(rng, prims, nv, 2)}
        cases.append(case)
        lines.append(json.dumps(case))
        reals.append(run_real_dispatch(case))
    answers = common.run_driver("C16", lines)
    dis = []
    reworded = 0
    kinds: dict[str, int] = {}
    for case, real, ans in zip(cases, reals, answers):
        k = real.split(" ")[0]
        kinds[k] = kinds.get(k, 0) + 1
        chk.count({"op": "dispatch", "case": case, "real": real}, nontrivial=bool(case["prog"]))
        if real != canon_model(ans):
            if real.startswith("other ") and coarse(real) == coarse(canon_model(ans)):
                # same exception class, message wording not recognised (e.g. reworded by a
                # refactoring): agreement at the level the property speaks about
                reworded += 1
                continue
            dis.append({"case": case, "real": real, "model": ans})
    chk.info("dispatcher_correspondence", {"programs": n, "disagreements": len(dis), "outcomes": kinds,
                                           "agree_on_exception_class_only(message_reworded)": reworded})
    chk.add("traces_validated_against_impl", n)
    for d in dis[:5]:
        # the dangerous direction: the real dispatcher accepts what the proven model rejects
        if d["real"] == "ok":
            chk.finding({"kind": "dispatcher_accepts_bad_program", "model": d["model"].split(" ")[0]},
                        f"lower_jaxpr_with_plugins returns normally although the contract is violated "
                        f"({d['model']})", d)
    if dis and not chk.violations:
        chk.violation({"correspondence": "real dispatcher vs Lean model", "cases": dis[:10]},
                      name="dispatcher-correspondence", no_failing_input=True)


# ----------------------------------------------------------------------------- optimizer policy


def verif_fn_block(x):
    import jax
    import jax.numpy as jnp
    return jnp.transpose(jax.nn.relu(jnp.transpose(x, (0, 2, 1))), (0, 2, 1)) * 2.0


_FN_BLOCK = None


def _fn_block():
    global _FN_BLOCK, verif_fn_block
    if _FN_BLOCK is None:
        from jax2onnx import onnx_function
        verif_fn_block = onnx_function(verif_fn_block)
        _FN_BLOCK = verif_fn_block
    return _FN_BLOCK


def policy_programs():
    import jax
    import jax.numpy as jnp
    from jax import lax
    _fn_block()   # decorate the module-level function; programs call it through the module global
    w = np.arange(3 * 3 * 3 * 4, dtype=np.float32).reshape(3, 3, 3, 4) / 50.0 - 1.0

    def conv(x):
        y = lax.conv_general_dilated(x, w, (1, 1), "SAME", dimension_numbers=("NHWC", "HWIO", "NHWC"))
        return jax.nn.relu(y + 0.25) + y

    return [
        ("conv_residual", conv, [(2, 5, 7, 3)], {}),
        ("reshape_cast", lambda x: jnp.reshape(jnp.tanh(jnp.reshape(x, (6, 4))).astype(jnp.float32), (2, 3, 4)) * 2,
         [(2, 3, 4)], {}),
        ("nchw", lambda x: jax.nn.sigmoid(x) * x, [(2, 5, 7, 3)], {"inputs_as_nchw": [0], "outputs_as_nchw": [0]}),
        ("mean", lambda x: jnp.mean(jnp.transpose(x, (0, 2, 1)), axis=1, keepdims=True), [(2, 3, 4)], {}),
        ("nchw_residual", lambda x, y: jnp.tanh(x) + y + x, [(2, 5, 7, 3), (2, 5, 7, 3)],
         {"inputs_as_nchw": [0, 1], "outputs_as_nchw": [0]}),
        ("nchw_mean", lambda x: jnp.mean(x, axis=(1, 2), keepdims=True) * 2.0, [(2, 5, 7, 3)],
         {"inputs_as_nchw": [0], "outputs_as_nchw": [0]}),
        ("reshape_chain", lambda x: jnp.reshape(jax.nn.relu(jnp.reshape(x, (2, 12))), (2, 3, 4)) + 1.0,
         [(2, 3, 4)], {}),
        ("cast_chain", lambda x: (x.astype(jnp.float64).astype(jnp.float32) * 2.0).astype(jnp.float32), [(3, 4)], {}),
        ("with_function", lambda x: verif_fn_block(x) + verif_fn_block(x * 0.5), [(2, 3, 4)], {}),
    ]


def check_policy(chk: Check, thorough: bool) -> None:
    import onnx
    import irtools
    import jax2onnx.converter.ir_optimizations as opt
    from jax2onnx import to_onnx
    passes = opt._OPTIMIZER_PASSES
    n_inj = 0
    env_key = "JAX2ONNX_STRICT_OPTIMIZER_FAILURES"
    old_env = os.environ.pop(env_key, None)

    class Abort(RuntimeError):
        pass

    fired = [0]

    def boom(*a, **k):
        fired[0] += 1
        raise Abort("injected optimizer abort")

    try:
        for name, fn, specs, kw in policy_programs():
            xs = [np.asarray(((np.arange(int(np.prod(s))) * 0.37) % 5.0 - 2.0).reshape(s), dtype=np.float32)
                  for s in specs]
            ref = fn(*xs)
            ref = list(ref) if isinstance(ref, (tuple, list)) else [ref]
            has_fn = name == "with_function"
            modes = [("top", k) for k in range(len(passes) + 1)]
            if has_fn:
                modes += [("function_body", k) for k in range(len(passes))
                          if passes[k].function_graph_runner is not None]
            for mode, k in modes:
                if k < len(passes):
                    p = passes[k]
                    if mode == "top":
                        inj = dataclasses.replace(
                            p,
                            model_runner=boom if p.model_runner is not None else None,
                            graph_runner=boom if p.graph_runner is not None else None,
                            function_graph_runner=boom if p.function_graph_runner is not None else None)
                    else:   # the top graph is optimised normally, the abort happens in a function body
                        inj = dataclasses.replace(p, function_graph_runner=boom)
                    opt._OPTIMIZER_PASSES = passes[:k] + (inj,) + passes[k + 1:]
                    pname = p.name
                else:
                    opt._OPTIMIZER_PASSES = passes
                    pname = "<no abort>"
                case = {"program": name, "abort_at_pass": k, "pass": pname, "phase": mode}
                try:
                    # default policy: a model comes back and it is right
                    os.environ.pop(env_key, None)
                    fired[0] = 0
                    try:
                        model = to_onnx(fn, [tuple(s) for s in specs], **kw)
                    except Exception as e:  # noqa: BLE001
                        chk.finding({"kind": "default_policy_raises", **case},
                                    f"{name}: abort at pass {k} ({pname}, {mode}) is not swallowed: {type(e).__name__}", case)
                        continue
                    n_inj += 1
                    chk.count(case, nontrivial=True)
                    bad = None
                    try:
                        onnx.checker.check_model(model, full_check=True)
                        feeds = {}
                        for i, (inp, x) in enumerate(zip(model.graph.input, xs)):
                            feeds[inp.name] = np.transpose(x, (0, 3, 1, 2)) if i in kw.get("inputs_as_nchw", []) else x
                        got = irtools.run_ort(model, feeds)
                        for j, (g, r) in enumerate(zip(got, ref)):
                            r = np.asarray(r)
                            if j in kw.get("outputs_as_nchw", []):
                                r = np.transpose(r, (0, 3, 1, 2))
                            if g.shape != r.shape or not np.allclose(g, r, rtol=1e-4, atol=1e-5):
                                bad = f"output {j} differs from JAX"
                    except Exception as e:  # noqa: BLE001
                        bad = f"invalid model: {type(e).__name__}: {str(e)[:120]}"
                    if bad:
                        chk.finding({"kind": "partial_optimization_changes_model", **case},
                                    f"{name}: optimizer aborted at pass {k} ({pname}, {mode}); returned model: {bad}", case)
                    # strict policy: re-raised — requested through the environment and through the API
                    if k < len(passes) and fired[0] == 0:
                        chk.add("injections_that_never_fired")
                    if k < len(passes) and fired[0] > 0:
                        for how in ("env", "api"):
                            try:
                                if how == "env":
                                    os.environ[env_key] = "1"
                                    to_onnx(fn, [tuple(s) for s in specs], **kw)
                                else:
                                    os.environ.pop(env_key, None)
                                    import jax
                                    import jax.numpy as jnp
                                    import jax2onnx.converter.conversion_api as capi
                                    capi.to_onnx(fn=fn, inputs=[jax.ShapeDtypeStruct(tuple(s), jnp.float32) for s in specs],
                                                 input_params=None, model_name="strict", opset=23,
                                                 enable_double_precision=False, record_primitive_calls_file=None,
                                                 strict_optimizer_failures=True, **kw)
                                chk.finding({"kind": "strict_policy_swallows", "how": how, **case},
                                            f"{name}: strict policy ({how}) did not re-raise the abort at pass {k} "
                                            f"({pname}, {mode})", case)
                            except Abort:
                                pass
                            except Exception as e:  # noqa: BLE001
                                chk.finding({"kind": "strict_policy_other_error", "how": how, **case},
                                            f"{name}: strict policy ({how}) raised {type(e).__name__} instead of the abort",
                                            case)
                            finally:
                                os.environ.pop(env_key, None)
                finally:
                    os.environ.pop(env_key, None)
            if not thorough and name == "reshape_cast":
                pass
    finally:
        opt._OPTIMIZER_PASSES = passes
        if old_env is not None:
            os.environ[env_key] = old_env
    chk.info("optimizer_abort_injections", {"passes": len(passes), "injections_executed": n_inj})


def check_midpass(chk: Check, rng=None, budget: Optional[int] = None) -> None:
    """Abort INSIDE a pass, at the onnx_ir mutation calls the custom passes make: every call of every
    program (thorough), or a seeded sample of `budget` injection points (quick)."""
    import onnx
    import onnx_ir as ir
    import irtools
    import jax2onnx.converter.ir_optimizations as opt
    import jax2onnx.converter.conversion_api as capi
    from jax2onnx import to_onnx

    class Abort(RuntimeError):
        pass

    targets = [(ir.convenience, "replace_all_uses_with"), (ir.Graph, "remove"), (ir.Node, "replace_input_with")]
    orig = {(o, n): getattr(o, n) for o, n in targets}
    st = {"count": 0, "fail_at": None, "active": False, "pass": None, "hit_pass": None}

    def make(o, n):
        f = orig[(o, n)]

        def w(*a, **k):
            if st["active"]:
                st["count"] += 1
                if st["fail_at"] is not None and st["count"] == st["fail_at"]:
                    st["hit_pass"] = st["pass"]
                    raise Abort(f"injected at mutation call {st['count']} ({n})")
            return f(*a, **k)
        return w

    real_run = opt._run_top_level_optimizer_pass
    real_run_fn = opt._run_function_optimizer_pass
    real_opt = capi.optimize_graph

    def run_pass(p, model):
        st["pass"] = p.name
        return real_run(p, model)

    def run_fn_pass(p, graph):
        st["pass"] = p.name      # the same pass, running on a function body
        return real_run_fn(p, graph)

    def wrapped(model):
        st["active"] = True
        st["count"] = 0
        try:
            return real_opt(model)
        finally:
            st["active"] = False

    total = 0
    try:
        for o, n in targets:
            setattr(o, n, make(o, n))
        opt._run_top_level_optimizer_pass = run_pass
        opt._run_function_optimizer_pass = run_fn_pass
        capi.optimize_graph = wrapped
        progs = list(policy_programs())
        if budget is not None:
            rng.shuffle(progs)
        for name, fn, specs, kw in progs:
            if budget is not None and total >= budget:
                break
            xs = [np.asarray(((np.arange(int(np.prod(s))) * 0.37) % 5.0 - 2.0).reshape(s), dtype=np.float32)
                  for s in specs]
            ref = fn(*xs)
            ref = list(ref) if isinstance(ref, (tuple, list)) else [ref]
            st["fail_at"] = None
            to_onnx(fn, [tuple(s) for s in specs], **kw)
            ncalls = st["count"]
            ks = list(range(1, ncalls + 1))
            if budget is not None:
                ks = sorted(rng.sample(ks, min(len(ks), 3)))
            for k in ks:
                st["fail_at"] = k
                model = to_onnx(fn, [tuple(s) for s in specs], **kw)
                total += 1
                effect = None
                try:
                    feeds = {}
                    for i, (inp, x) in enumerate(zip(model.graph.input, xs)):
                        feeds[inp.name] = np.transpose(x, (0, 3, 1, 2)) if i in kw.get("inputs_as_nchw", []) else x
                    got = irtools.run_ort(model, feeds)
                    for j, (g, r) in enumerate(zip(got, ref)):
                        r = np.asarray(r)
                        if j in kw.get("outputs_as_nchw", []):
                            r = np.transpose(r, (0, 3, 1, 2))
                        if g.shape != r.shape or not np.allclose(g, r, rtol=1e-4, atol=1e-5):
                            effect = "result_differs_from_jax"
                except Exception:  # noqa: BLE001
                    effect = "model_does_not_run"
                if effect is None:
                    try:
                        onnx.checker.check_model(model, full_check=True)
                    except Exception:  # noqa: BLE001
                        effect = "stale_annotation_rejected_by_strict_shape_inference"
                case = {"program": name, "pass": st["hit_pass"], "mutation_call": k, "effect": effect}
                chk.count({"op": "midpass_abort", **case}, nontrivial=True)
                if effect is not None:
                    chk.finding({"kind": "mid_pass_abort", "pass": st["hit_pass"], "effect": effect},
                                f"{name}: abort inside pass {st['hit_pass']} (mutation call {k}) leaves a model "
                                f"with {effect}", case)
    finally:
        for (o, n), f in orig.items():
            setattr(o, n, f)
        opt._run_top_level_optimizer_pass = real_run
        opt._run_function_optimizer_pass = real_run_fn
        capi.optimize_graph = real_opt
    chk.info("midpass_abort_injections", total)


# ----------------------------------------------------------------------------- unsupported


_UNK = None
_FN_UNK = None


def _unknown_primitive():
    global _UNK
    if _UNK is None:
        from jax.extend import core as jex
        prim = jex.Primitive("verif_unknown_primitive")
        prim.def_impl(lambda x: x * 3.0)
        prim.def_abstract_eval(lambda x: x)
        _UNK = lambda x: prim.bind(x)  # noqa: E731
    return _UNK


def verif_fn_body_unknown(x):
    return _unknown_primitive()(x) + 1.0


def _function_with_unknown_body():
    """@onnx_function must decorate a module attribute (a locally defined one triggers the C13
    patch-leak defect and would poison every later conversion of this process)."""
    global _FN_UNK, verif_fn_body_unknown
    if _FN_UNK is None:
        from jax2onnx import onnx_function
        verif_fn_body_unknown = onnx_function(verif_fn_body_unknown)
        _FN_UNK = verif_fn_body_unknown
    return _FN_UNK


def check_unsupported(chk: Check) -> None:
    import jax
    import jax.numpy as jnp
    from jax import lax
    from jax.extend import core as jex
    import irtools
    from jax2onnx import to_onnx, onnx_function

    unk = _unknown_primitive()
    _function_with_unknown_body()   # decorate; the program calls it through the module global

    cases = [
        ("unregistered_top", lambda x: unk(x) + 1.0, [(3,)]),
        ("unregistered_in_fori_body", lambda x: lax.fori_loop(0, 2, lambda i, c: unk(c), x), [(3,)]),
        ("unregistered_in_cond_branch",
         lambda x: lax.cond(jnp.sum(x) > 0, lambda v: unk(v), lambda v: v, x), [(3,)]),
        ("unregistered_in_function_body", lambda x: verif_fn_body_unknown(x) * 2.0, [(3,)]),
        ("unregistered_in_scan_body",
         lambda x: lax.scan(lambda c, e: (unk(c) + e, c), x, jnp.ones((2, 3), dtype=x.dtype))[0], [(3,)]),
        ("switch_3_way",
         lambda x: lax.switch(jnp.asarray(jnp.sum(x) > 0, dtype=jnp.int32) + 1,
                              [lambda v: v, lambda v: v * 2.0, lambda v: v * 3.0], x), [(3,)]),
        ("reverse_scan",
         lambda x: lax.scan(lambda c, e: (c * 0.5 + e, c), jnp.zeros((3,), x.dtype), x, reverse=True)[1], [(4, 3)]),
        ("dynamic_fori_bound",
         lambda x, n: lax.fori_loop(0, n, lambda i, c: c + 1.0, x), [(3,), ()]),
        ("reverse_scan_no_xs",
         lambda x: lax.scan(lambda c, _: (c * 2.0 + 1.0, c), x, None, length=4, reverse=True)[1], [(3,)]),
        ("reverse_scan_two_xs",
         lambda x, y: lax.scan(lambda c, e: (c + e[0] * e[1], c * e[0]), jnp.zeros((3,), x.dtype), (x, y),
                               reverse=True)[1], [(4, 3), (4, 3)]),
        ("reverse_scan_in_fori",
         lambda x: lax.fori_loop(0, 2, lambda i, v: lax.scan(lambda c, e: (c * 0.5 + e, c), v[0], v, reverse=True)[1],
                                 x), [(4, 3)]),
        ("switch_4_way",
         lambda x: lax.switch(jnp.asarray(jnp.sum(x) > 0, dtype=jnp.int32) * 3,
                              [lambda v: v, lambda v: v * 2.0, lambda v: v * 3.0, lambda v: -v], x), [(3,)]),
        ("scan_unroll_reverse",
         lambda x: lax.scan(lambda c, e: (c - e, c + e), jnp.ones((3,), x.dtype), x, reverse=True, unroll=2)[1],
         [(4, 3)]),
    ]
    outcomes = {}
    for name, fn, specs in cases:
        import jax
        sds = []
        xs = []
        for s in specs:
            if name == "dynamic_fori_bound" and s == ():
                sds.append(jax.ShapeDtypeStruct((), jnp.int32))
                xs.append(np.asarray(3, dtype=np.int32))
            else:
                sds.append(jax.ShapeDtypeStruct(s, jnp.float32))
                xs.append(np.asarray((np.arange(int(np.prod(s))) * 0.7 - 1.0).reshape(s), dtype=np.float32))
        case = {"construct": name}
        try:
            model = to_onnx(fn, sds)
        except Exception as e:  # noqa: BLE001  — loud: fine
            outcomes[name] = f"raises {type(e).__name__}"
            chk.count({**case, "outcome": outcomes[name]}, nontrivial=True)
            continue
        # exported: then it must compute what JAX computes (supported after all)
        try:
            ref = fn(*xs)
            ref = list(ref) if isinstance(ref, (tuple, list)) else [ref]
            got = irtools.run_ort(model, {i.name: x for i, x in zip(model.graph.input, xs)})
            ok = all(g.shape == np.asarray(r).shape and np.allclose(g, r, rtol=1e-4, atol=1e-5)
                     for g, r in zip(got, ref))
            outcomes[name] = "exported, equals JAX" if ok else "exported, DIFFERS from JAX"
        except Exception as e:  # noqa: BLE001
            ok = False
            outcomes[name] = f"exported, model does not run: {type(e).__name__}: {str(e)[:100]}"
        chk.count({**case, "outcome": outcomes[name]}, nontrivial=True)
        if not ok:
            chk.finding({"kind": "unsupported_construct_exported_wrongly", **case},
                        f"{name}: to_onnx returned a model that {outcomes[name]}", case)
    chk.info("unsupported_constructs", outcomes)


def run(chk: Check) -> None:
    rng = common.Rng(chk.seed)
    thorough = chk.tier == "thorough"
    proved = chk.prove(MODS, checker=thorough)
    check_dispatcher(chk, rng, 3000 if thorough else 600)
    check_policy(chk, thorough)
    if thorough:
        check_midpass(chk)
    else:
        check_midpass(chk, rng, budget=12)
    check_unsupported(chk)
    if not proved and not chk.violations:
        chk.violation({"broken": getattr(chk, "broken", []),
                       "build_log_tail": getattr(chk, "build_log", "")[-2000:]},
                      name="obligation-broken", no_failing_input=True)
    chk.assumptions += ["plugins propagate exceptions of nested lowering (modelled by Act.nested)",
                        "ORT CPU is the reference executor"]
    chk.coverage["rule"] = ("dispatcher: seeded nested programs (<=3 levels, <=4 eqns per chain) x 8 plugin behaviours; "
                            "policy: every pass index x 4 programs x {default, strict}; unsupported: 8 constructs")


def replay(path: str) -> int:
    print(open(path).read()[:3000])
    return 0
