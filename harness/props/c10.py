"""C10 — JAX transformations commute with export (partial).

PROOF part (kernel-checked every run):
  Props/C10.lean     broadcast_batcher_correct (+ machine-checked refutation of the statement without
                     the rank hypothesis), inline_fresh_sound, inline_no_alias, two_inlinings_no_alias,
                     inline_without_renaming_not_ssa, forwarded_only_if_allowlisted
  GenProps/C10.lean  allow_block_disjoint, forward_table_sound/exact, observed_forwarded_allowlisted,
                     backfill_only_allowlisted, observed_fallback_transposes_allowlisted — about tables
                     regenerated from the live `_autodiff_utils` and JAX registries (T)
  Props/C10.lean     + broadcast_batcher_shape (result shape of the batcher, all ranks / arities)
  Props/C10Rules.lean  fn_batch_rule_correct (FunctionPlugin._batching_rule, ANY per-example function),
                     ad_pipeline_provenance / orig_rule_only_if_allowlisted / backfill_keeps_existing (forwarding +
                     backfill as one function of the registries), forwarded_rule_defined_on_new_domain and its
                     refutation without the operand contract on the live pair (add, jax.numpy.add)
  Props/C10Reduce.lean reduction_batch_rule_lanewise(_drop): lane b of the batched reduction = reduction of lane b,
                     any commutative monoid, shared tensor model; normAxes_canonical
TIE H (round 2, harness/c10_rules.py): the real FunctionPlugin batching rule, the real forwarding + backfill on stub
  primitives with sentinel rule objects, and the real reduction rule's lanes, each against the Lean driver.
TIE H: the real `broadcast_batcher_compat` (stub primitive that records what it is bound to) against
  the Lean model `broadcastBatcher` on generated operand shapes × batch-dim placements through
  drivers/C10.lean (out dim, out shape and every element).
EXPLORATION (labelled as such): ORT(to_onnx(T f)) vs T(f)(x) for T in {vmap with in/out axes variants,
  jit, nested / repeated jit, grad, jvp, vjp, checkpoint, custom_jvp, custom_vjp} over a catalogue of
  functions built from patched library functions.
"""
from __future__ import annotations

import itertools
import json
import time
import warnings
from typing import Any, Callable, Optional

import numpy as np

warnings.filterwarnings("ignore")

import common
from common import Check, LEAN, lean_bool, lean_list, lean_str, write_if_changed

META = {
    "ready": True,
    "level": "proof",
    "technique": "Lean 4 theorems about the generic broadcast batcher (tensors as functions of index lists, "
                 "unbounded rank) and about jaxpr inlining under fresh injective renaming; decide-checked "
                 "obligations on the live rule-forwarding tables; driver correspondence of the batcher; "
                 "ORT-vs-JAX exploration of transformed functions",
    "level_text": "Kernel-checked: broadcast_batcher_correct (any arity >= 2, any batch-dim placement, unmapped "
                  "and scalar operands, both code paths) with the necessary rank hypothesis and a machine-checked "
                  "refutation without it; inline_fresh_sound / inline_no_alias / two_inlinings_no_alias for "
                  "JitPlugin's inlining with fresh variables; allow_block_disjoint, forwarded_only_if_allowlisted "
                  "and inclusion of the live forwarding/backfill decisions and of the rule objects actually "
                  "shared in JAX's registries in the allowlists; broadcast_batcher_shape (result shape, all ranks/arities); "
                  "fn_batch_rule_correct (vmap of an @onnx_function call, any per-example function); "
                  "reduction_batch_rule_lanewise(_drop) (lane b of the batched reduction = reduction of lane b, any "
                  "commutative monoid, negative axes, keepdims); ad_pipeline_provenance (forwarding + backfill as one "
                  "function of the registries: a primitive ends with the original's rule object only for an allow-listed, "
                  "not block-listed pair) and forwarded_rule_defined_on_new_domain with its machine-checked refutation "
                  "without the operand contract on the live pair (add, jax.numpy.add). "
                  "PARTIAL: that the ~300 substitute primitives "
                  "carry batching/AD rules agreeing with the functions they replace is executed, not proved.",
    "level_note": "Batcher theorems: element values at every index of per-example rank and the result shape. Inlining theorem is on the jaxpr semantics of C01 "
                  "(shared environment, overwrite-on-bind). Trusted: Lean kernel, table extraction, the stub "
                  "primitive used to drive broadcast_batcher_compat. Exploration: seeded subset of "
                  "(function x transformation) in quick, all in thorough.",
    "design_ref": "DESIGN.md §3 C10",
}

MODS = ["J2O.Props.C10", "J2O.Props.C10Rules", "J2O.Props.C10Reduce", "J2O.GenProps.C10"]


# ----------------------------------------------------------------------------- T: policy tables


def tabulate() -> dict:
    import logging
    logging.disable(logging.CRITICAL)
    import jax
    from jax.extend.core import Primitive
    from jax2onnx.plugins.plugin_system import import_all_plugins
    import_all_plugins()
    from jax.interpreters import ad
    import jax2onnx.plugins.jax._autodiff_utils as au

    allow = sorted(au.get_original_rule_forwarding_allowlist())
    block = sorted(au.get_original_rule_forwarding_blocklist())
    lin = sorted(au.get_linear_transpose_fallback_allowlist())
    origs = sorted({o for o, _ in allow + block} | {"mul", "sub", "dot_general", "gather", "select_n"})
    news = sorted({n for _, n in allow + block} | set(lin) | {"jax.numpy.multiply", "jax.numpy.matmul", "jax.nn.relu"})
    ftable = []
    for o in origs:
        for n in news:
            op, np_ = Primitive(o), Primitive(n)
            try:
                au.register_original_rule_forwarding(orig_prim=op, new_prim=np_,
                                                     allowlist=au._ORIGINAL_RULE_FORWARDING_ALLOWLIST,
                                                     forward_batching=False)
                acc = True
            except ValueError:
                acc = False
            ftable.append(((o, n), acc))
            for reg in (ad.primitive_jvps, ad.primitive_transposes):
                reg.pop(np_, None)
    # rule objects shared between a lax primitive and a plugin primitive (identity)
    observed = set()
    for reg in (ad.primitive_jvps, ad.primitive_transposes):
        groups: dict[int, list] = {}
        for p, r in list(reg.items()):
            groups.setdefault(id(r), []).append(p.name)
        for names in groups.values():
            for d in (n for n in names if "." in n):
                for o in (n for n in names if "." not in n):
                    observed.add((o, d))
    fallback = sorted(p.name for p, r in ad.primitive_transposes.items()
                      if "register_transpose_via_linear_transpose" in getattr(r, "__qualname__", ""))
    # backfill decision on stubs: every stub has a JVP rule, a callable impl and no transpose rule
    names = sorted(set(lin) | set(news) | {"jax.numpy.subtract", "jax.nn.gelu"})
    stubs = []
    for n in names:
        p = Primitive(n)
        p.def_impl(lambda *a, **k: a[0])
        ad.primitive_jvps[p] = lambda primals, tangents, **kw: (primals[0], tangents[0])
        stubs.append(p)
    au.backfill_missing_transpose_rules(stubs)
    btable = [(p.name, p in ad.primitive_transposes) for p in stubs]
    for p in stubs:
        ad.primitive_jvps.pop(p, None)
        ad.primitive_transposes.pop(p, None)
    import c10_rules
    return {"allow": allow, "block": block, "lin": lin, "ftable": ftable, "observed": sorted(observed),
            "fallback": fallback, "btable": btable, "adddom": c10_rules.add_domain_table()}


def generate(tabs: Optional[dict] = None) -> dict:
    tabs = tabs or tabulate()

    def pair(p):
        return f"({lean_str(p[0])}, {lean_str(p[1])})"
    src = f"""/- GENERATED by harness/props/c10.py from /repo on every run — do not edit. -/
namespace J2O.Gen.C10

/-- `_ORIGINAL_RULE_FORWARDING_ALLOWLIST` (orig lax primitive, plugin primitive) -/
def forwardAllow : List (String × String) := {lean_list(map(pair, tabs['allow']), 3)}

/-- `_ORIGINAL_RULE_FORWARDING_BLOCKLIST` -/
def forwardBlock : List (String × String) := {lean_list(map(pair, tabs['block']), 3)}

/-- `_LINEAR_TRANSPOSE_FALLBACK_ALLOWLIST` -/
def linearTransposeAllow : List String := {lean_list(map(lean_str, tabs['lin']), 4)}

/-- ((orig, new), did the real `register_original_rule_forwarding` accept the pair?) -/
def forwardTable : List ((String × String) × Bool) :=
  {lean_list((f"({pair(p)}, {lean_bool(a)})" for p, a in tabs['ftable']), 2)}

/-- pairs (lax primitive, plugin primitive) that share a JVP / transpose rule object in JAX's registries -/
def observedForwarded : List (String × String) := {lean_list(map(pair, tabs['observed']), 3)}

/-- plugin primitives whose transpose rule is the generic `jax.linear_transpose` fallback -/
def observedFallbackTransposes : List String := {lean_list(map(lean_str, tabs['fallback']), 4)}

/-- (name, did `backfill_missing_transpose_rules` install the fallback on a stub of that name?) -/
def backfillTable : List (String × Bool) :=
  {lean_list((f"({lean_str(n)}, {lean_bool(b)})" for n, b in tabs['btable']), 3)}

/-- (operand shapes, does lax.add's JVP rule run on them?, does the plugin primitive jax.numpy.add accept them?) -/
def addDomainTable : List (List (List Nat) × Bool × Bool) :=
  {lean_list((f"([{', '.join('[' + ', '.join(map(str, sh)) + ']' for sh in shp)}], {lean_bool(a)}, {lean_bool(b)})"
              for shp, a, b in tabs['adddom']), 2)}

end J2O.Gen.C10
"""
    write_if_changed(LEAN / "J2O/Gen/C10.lean", src)
    return tabs


# ----------------------------------------------------------------------------- H: the batcher


class _StubPrim:
    """Stands for a plugin primitive with numpy broadcasting built in: `bind` combines its operands
    as Σ a_i·1024^(n-i) (operand elements are < 1024, arity ≤ 3: no int32 overflow)."""
    multiple_results = False
    name = "verif.stub"

    def __init__(self):
        self.bound_shapes = None

    def bind(self, *args, **params):
        import jax.numpy as jnp
        self.bound_shapes = [tuple(np.shape(a)) for a in args]
        out = 0
        for a in args:
            out = out * 1024 + jnp.asarray(a)
        return out


def enc_array(shape: tuple, off: int) -> np.ndarray:
    a = np.zeros(shape, dtype=np.int32)
    for idx in itertools.product(*[range(d) for d in shape]):
        v = off
        for i in idx:
            v = 4 * v + i
        a[idx] = v
    return a


def batcher_cases(rng: common.Rng, n: int) -> list[list[tuple]]:
    """Each case: list of operands (per-example shape, batch dim or None, offset).  Pattern-directed:
    every operand is a variation of one full per-example shape (full, with 1-dims, scalar, lower-rank
    suffix), mapped at every position or unmapped."""
    fulls = [(3,), (2, 3), (3, 2), (2, 1, 3), (1,), (2, 2, 2), ()]
    cases = []

    def variants(full):
        v = [full, ()]
        if len(full) >= 1:
            v.append(tuple(1 if i == 0 else d for i, d in enumerate(full)))
            v.append(tuple(1 for _ in full))
        if len(full) >= 2:
            v.append(full[1:])               # lower rank, right-aligned suffix
            v.append(full[-1:])
        return v

    for _ in range(n):
        full = rng.choice(fulls)
        arity = rng.choice([2, 2, 2, 3, 3, 1])
        B = rng.choice([1, 2, 3])
        ops = []
        for i in range(arity):
            pe = rng.choice(variants(full))
            mapped = rng.chance(0.6)
            if mapped:
                k = rng.randint(0, len(pe))
                shape = pe[:k] + (B,) + pe[k:]
                ops.append((shape, k, 1 + i))
            else:
                ops.append((pe, None, 1 + i))
        cases.append(ops)
    # systematic: two operands, every batch-dim placement of a rank-2 per-example shape
    for k0 in (None, 0, 1, 2):
        for k1 in (None, 0, 1, 2):
            for B in (1, 2):
                ops = []
                for i, k in enumerate((k0, k1)):
                    pe = (2, 3)
                    ops.append(((pe[:k] + (B,) + pe[k:]) if k is not None else pe, k, 1 + i))
                cases.append(ops)
    return cases


def real_batcher(ops: list[tuple]) -> str:
    import jax.numpy as jnp
    from jax2onnx.plugins.jax._batching_utils import broadcast_batcher_compat
    prim = _StubPrim()
    args = [jnp.asarray(enc_array(s, off)) for s, _, off in ops]
    dims = [k for _, k, _ in ops]
    try:
        out, od = broadcast_batcher_compat(prim, args, dims)
    except (ValueError, StopIteration) as e:
        msg = str(e)
        if prim.bound_shapes is None and ("at least two" in msg or isinstance(e, StopIteration)):
            return "raises"
        return "incompatible"
    except TypeError:
        return "incompatible"
    out = np.asarray(out)
    shp = "s" if out.ndim == 0 else "x".join(str(d) for d in out.shape)
    return f"{od} {shp} | " + " ".join(str(int(v)) for v in out.reshape(-1))


def batcher_line(ops: list[tuple]) -> str:
    parts = []
    for s, k, off in ops:
        parts += ["s" if len(s) == 0 else "x".join(map(str, s)), "n" if k is None else str(k), str(off)]
    return f"bat {len(ops)} " + " ".join(parts)


def validate_batcher(chk: Check, rng: common.Rng, thorough: bool) -> list[dict]:
    cases = batcher_cases(rng, 1500 if thorough else 400)
    lines = [batcher_line(c) for c in cases]
    ans = common.run_driver("C10", lines)
    bad = []
    kinds: dict[str, int] = {}
    for ops, a in zip(cases, ans):
        real = real_batcher(ops)
        kind = real.split(" ")[0] if real in ("raises", "incompatible") else "value"
        kinds[kind] = kinds.get(kind, 0) + 1
        lower = any(k is not None and 0 < len(s) - 1 < max(len(s2) - (0 if k2 is None else 1) for s2, k2, _ in ops)
                    for s, k, _ in ops)
        chk.count({"stage": "batcher", "operands": [[list(s), k] for s, k, _ in ops], "real": real[:80]},
                  nontrivial=kind == "value")
        if a != real:
            bad.append({"operands": [[list(s), k, off] for s, k, off in ops], "real": real[:300], "lean": a[:300],
                        "lower_rank_mapped": lower})
    chk.info("batcher_correspondence", {"cases": len(cases), "disagreements": len(bad), "kinds": kinds})
    chk.add("traces_validated_against_impl", len(cases))
    return bad


# ----------------------------------------------------------------------------- H: the reduction batch rule


def validate_reduction_rule(chk: Check, rng: common.Rng, thorough: bool) -> list[dict]:
    """The real `register_reduction_batch_rule` (installed on a stub primitive whose impl records what it
    is bound to and reduces with jnp.sum) against `reductionBatchRule` / `reduceShape`: shape of the bound
    operand, bound axes, reported batch dim, and the shape of the result."""
    import jax
    import jax.numpy as jnp
    from jax.extend.core import Primitive
    from jax._src.interpreters import batching as jb
    from jax2onnx.plugins.jax.numpy._reduction_utils import register_reduction_batch_rule
    rec: dict = {}
    prim = Primitive("verif.stub_reduce")

    def impl(operand, *, axes=None, axes_is_tuple=False, keepdims=False, **kw):
        rec["shape"] = tuple(operand.shape)
        rec["axes"] = None if axes is None else tuple(int(a) for a in axes)
        return jnp.sum(operand, axis=rec["axes"], keepdims=keepdims)
    prim.def_impl(impl)
    register_reduction_batch_rule(prim, None)
    rule = jb.fancy_primitive_batchers[prim]
    shapes = [(4, 3), (2, 4, 3), (3,), (2, 1, 5), (1, 3), (2, 3, 4, 5)]
    cases = []
    for pe in shapes:
        r = len(pe)
        axes_opts = [None] + [(a,) for a in range(-r, r)] + ([(0, r - 1)] if r >= 2 else []) + \
                    ([(-1, 0)] if r >= 2 else []) + [tuple(range(r))]
        for bdim in range(r + 1):
            for axes in axes_opts:
                for kd in (False, True):
                    for B in ((2,) if not thorough else (1, 2)):
                        cases.append((pe, bdim, axes, kd, B))
    if not thorough:
        cases = [c for i, c in enumerate(cases) if i % 3 == rng.randint(0, 2) or c[3]]
    lines, meta = [], []
    for pe, bdim, axes, kd, B in cases:
        full = pe[:bdim] + (B,) + pe[bdim:]
        x = jnp.asarray(np.arange(int(np.prod(full)), dtype=np.float32).reshape(full))
        rec.clear()
        try:
            out, od = rule(None, (x,), (bdim,), axes=axes, axes_is_tuple=axes is not None, keepdims=kd)
            real = f"{'x'.join(map(str, rec['shape']))} {','.join(map(str, rec['axes']))} {od}"
            # the result the rule returns, and what vmap semantics demands: per-example reduction, batch at `od`
            want = np.stack([np.sum(np.take(np.asarray(x), b, axis=bdim), axis=axes, keepdims=kd) for b in range(B)],
                            axis=od if isinstance(od, int) and od <= np.ndim(out) - 1 else 0)
            ok_val = tuple(np.shape(out)) == want.shape and bool(np.array_equal(np.asarray(out), want))
        except Exception as e:
            real, ok_val = f"raises {type(e).__name__}", False
        lines.append(f"red {'x'.join(map(str, full))} {bdim} {'none' if axes is None else ','.join(map(str, axes))}")
        meta.append((pe, bdim, axes, kd, B, real, ok_val, tuple(np.shape(out)) if "out" in dir() else None))
    ans = common.run_driver("C10", lines)
    bad = []
    for (pe, bdim, axes, kd, B, real, ok_val, oshape), a in zip(meta, ans):
        chk.count({"stage": "reduction_rule", "per_example_shape": list(pe), "bdim": bdim,
                   "axes": None if axes is None else list(axes), "keepdims": kd, "real": real}, nontrivial=True,
                  sample_every=150)
        if a != real or not ok_val:
            bad.append({"per_example_shape": list(pe), "batch_size": B, "bdim": bdim,
                        "axes": None if axes is None else list(axes), "keepdims": kd, "real_bound_to": real,
                        "model": a, "result_is_per_example_reduction": ok_val})
    chk.info("reduction_rule_correspondence", {"cases": len(lines), "disagreements": len(bad)})
    chk.add("traces_validated_against_impl", len(lines))
    return bad


# ----------------------------------------------------------------------------- exploration


def fn_catalogue():
    import jax
    import jax.numpy as jnp
    f32 = np.float32
    A = lambda *s: ("f", s)
    cat = [
        ("add", lambda x, y: jnp.add(x, y), [A(4, 3), A(4, 3)]),
        ("add_bcast", lambda x, y: jnp.add(x, y), [A(4, 3), A(3,)]),
        ("multiply", lambda x, y: jnp.multiply(x, y), [A(4, 3), A(4, 3)]),
        ("minimum", lambda x, y: jnp.minimum(x, y), [A(4, 3), A(4, 3)]),
        ("minimum_lowrank", lambda x, y: jnp.minimum(x, y), [A(3,), A(3, 3)]),
        ("maximum_scalar", lambda x, y: jnp.maximum(x, y), [A(4, 3), A()]),
        ("where", lambda x, y: jnp.where(x > 0, x, y), [A(4, 3), A(4, 3)]),
        ("tanh", lambda x: jnp.tanh(x), [A(4, 3)]),
        ("exp_abs", lambda x: jnp.exp(-jnp.abs(x)), [A(4, 3)]),
        ("square_sum", lambda x: jnp.sum(jnp.square(x), axis=-1), [A(4, 3)]),
        ("mean", lambda x: jnp.mean(x, axis=0), [A(4, 3)]),
        ("max_red", lambda x: jnp.max(x, axis=-1), [A(4, 3)]),
        ("matmul", lambda x, y: jnp.matmul(x, y), [A(4, 3), A(3, 5)]),
        ("dot", lambda x, y: jnp.dot(x, y), [A(4, 3), A(3,)]),
        ("einsum", lambda x, y: jnp.einsum("ij,kj->ik", x, y), [A(4, 3), A(5, 3)]),
        ("reshape", lambda x: jnp.reshape(x, (3, 4)) * 2.0, [A(4, 3)]),
        ("transpose", lambda x: jnp.transpose(x) + 1.0, [A(4, 3)]),
        ("concatenate", lambda x, y: jnp.concatenate([x, y], axis=0), [A(4, 3), A(2, 3)]),
        ("stack", lambda x, y: jnp.stack([x, y], axis=1), [A(4, 3), A(4, 3)]),
        ("squeeze", lambda x: jnp.squeeze(x[:, None, :], axis=1) * 3.0, [A(4, 3)]),
        ("moveaxis", lambda x: jnp.moveaxis(x, 0, 1) - 1.0, [A(4, 3)]),
        ("tile", lambda x: jnp.tile(x, (2, 1)), [A(4, 3)]),
        ("take", lambda x: jnp.take(x, jnp.array([2, 0]), axis=1), [A(4, 3)]),
        ("clip", lambda x: jnp.clip(x, -0.5, 0.5), [A(4, 3)]),
        ("relu", lambda x: jax.nn.relu(x), [A(4, 3)]),
        ("gelu", lambda x: jax.nn.gelu(x), [A(4, 3)]),
        ("sigmoid", lambda x: jax.nn.sigmoid(x), [A(4, 3)]),
        ("silu", lambda x: jax.nn.silu(x), [A(4, 3)]),
        ("softmax", lambda x: jax.nn.softmax(x, axis=-1), [A(4, 3)]),
        ("log_softmax", lambda x: jax.nn.log_softmax(x, axis=-1), [A(4, 3)]),
        ("softplus", lambda x: jax.nn.softplus(x), [A(4, 3)]),
        ("divide", lambda x, y: jnp.divide(x, y + 3.0), [A(4, 3), A(4, 3)]),
        ("subtract", lambda x, y: jnp.subtract(x, y * 2.0), [A(4, 3), A(4, 3)]),
        ("power", lambda x, y: jnp.power(jnp.abs(x) + 1.5, y), [A(4, 3), A(4, 3)]),
        ("atan2", lambda x, y: jnp.arctan2(x, y + 3.0), [A(4, 3), A(4, 3)]),
        ("maximum_const_first", lambda y: jnp.maximum(0.25, y), [A(4, 3)]),
        ("power_const_base", lambda y: jnp.power(2.0, y), [A(4, 3)]),
        ("divide_const_first", lambda y: jnp.divide(1.5, y + 3.0), [A(4, 3)]),
        ("three_operands", lambda x, y, z: jnp.where(x > 0, jnp.divide(x, y + 3.0), jnp.subtract(z, y)),
         [A(4, 3), A(4, 3), A(4, 3)]),
        # substitutes that carry their OWN differentiation rule (not a forwarded one): every operand that can
        # carry a tangent does so, incl. the fall-through `default` of select (elements matching no condition)
        ("select_default", lambda x, y: jnp.select([x > 0.5, x < -0.5], [x * 2.0, -x], default=y * 3.0),
         [A(4, 3), A(4, 3)]),
        ("select_const_default", lambda x: jnp.select([x > 0.5, x < -0.5], [x * 2.0, -x], default=1.5), [A(4, 3)]),
        ("prod_axis", lambda x: jnp.prod(x + 2.5, axis=-1), [A(4, 3)]),
        ("take_rows", lambda x: jnp.take(x, jnp.array([3, 0, 3]), axis=0) * 2.0, [A(4, 3)]),
        ("celu", lambda x: jax.nn.celu(x, alpha=0.7), [A(4, 3)]),
        ("selu", lambda x: jax.nn.selu(x), [A(4, 3)]),
        ("elu", lambda x: jax.nn.elu(x, alpha=1.3), [A(4, 3)]),
        ("leaky_relu", lambda x: jax.nn.leaky_relu(x, negative_slope=0.2), [A(4, 3)]),
        ("softsign", lambda x: jax.nn.soft_sign(x), [A(4, 3)]),
        ("mish", lambda x: jax.nn.mish(x), [A(4, 3)]),
    ] + [
        (f"{rn}_axis{('N' if ax is None else ax)}_{'keep' if kd else 'drop'}",
         # NB: look the function up at call time — conversion patches the attribute `jax.numpy.<name>`
         (lambda x, rn=rn, ax=ax, kd=kd: getattr(jnp, rn)(x, axis=ax, keepdims=kd)), [A(4, 3)])
        for rn in ("sum", "max", "min", "mean", "amax")
        for ax in (0, -1, None) for kd in (False, True)
    ] + [
        ("mlp", lambda x, w: jnp.tanh(jnp.matmul(x, w)) * jnp.sum(x, axis=-1, keepdims=True), [A(4, 3), A(3, 3)]),
    ]
    return cat


def transformations():
    import jax
    import jax.numpy as jnp

    def scalarize(f):
        return lambda *a: jnp.sum(f(*a) * 0.5)

    def T_vmap0(f, n):
        return jax.vmap(f), [0] * n

    def T_vmap_in1(f, n):
        return jax.vmap(f, in_axes=(1,) + (0,) * (n - 1)), [1] + [0] * (n - 1)

    def T_vmap_none_last(f, n):
        if n < 2:
            return None
        return jax.vmap(f, in_axes=(0,) * (n - 1) + (None,)), [0] * (n - 1) + [None]

    def T_vmap_none_first(f, n):
        if n < 2:
            return None
        return jax.vmap(f, in_axes=(None,) + (0,) * (n - 1)), [None] + [0] * (n - 1)

    def T_vmap_out1(f, n):
        return jax.vmap(f, out_axes=-1), [0] * n

    def T_vmap_nested(f, n):
        return jax.vmap(jax.vmap(f)), [(0, 0)] * n

    def T_jit(f, n):
        return jax.jit(f), [None] * n

    def T_jit_nested(f, n):
        return jax.jit(lambda *a: jax.jit(f)(*a) * 1.0), [None] * n

    def T_jit_twice(f, n):
        g = jax.jit(f)
        return (lambda *a: g(*a) + g(*[x * 2.0 for x in a])), [None] * n

    def T_grad(f, n):
        return jax.grad(scalarize(f)), [None] * n

    def T_value_and_grad(f, n):
        return jax.value_and_grad(scalarize(f)), [None] * n

    def T_jvp(f, n):
        return (lambda *a: jax.jvp(f, a, tuple(jnp.ones_like(x) * 0.25 for x in a))), [None] * n

    def T_vjp(f, n):
        def h(*a):
            y, pull = jax.vjp(f, *a)
            return pull(jnp.ones_like(y) * 0.5)
        return h, [None] * n

    def T_checkpoint(f, n):
        return jax.checkpoint(f), [None] * n

    def T_grad_checkpoint(f, n):
        return jax.grad(scalarize(jax.checkpoint(f))), [None] * n

    def T_custom_jvp(f, n):
        g = jax.custom_jvp(f)

        @g.defjvp
        def g_jvp(primals, tangents):
            return jax.jvp(f, primals, tangents)
        return (lambda *a: g(*a)), [None] * n

    def T_grad_custom_jvp(f, n):
        g = jax.custom_jvp(f)

        @g.defjvp
        def g_jvp(primals, tangents):
            return jax.jvp(f, primals, tangents)
        return jax.grad(scalarize(g)), [None] * n

    def T_custom_vjp(f, n):
        g = jax.custom_vjp(f)

        def fwd(*a):
            y, pull = jax.vjp(f, *a)
            return y, pull

        def bwd(pull, ct):
            return pull(ct)
        g.defvjp(fwd, bwd)
        return (lambda *a: g(*a)), [None] * n

    def T_grad_custom_vjp(f, n):
        g = jax.custom_vjp(f)

        def fwd(*a):
            y, pull = jax.vjp(f, *a)
            return y, pull

        def bwd(pull, ct):
            return pull(ct)
        g.defvjp(fwd, bwd)
        return jax.grad(scalarize(g)), [None] * n

    def T_grad_last(f, n):           # only the LAST operand is differentiated (non-prefix argnums)
        if n < 2:
            return None
        return jax.grad(scalarize(f), argnums=n - 1), [None] * n

    def T_grad_all(f, n):
        if n < 2:
            return None
        return jax.grad(scalarize(f), argnums=tuple(range(n))), [None] * n

    def T_grad_first_last(f, n):     # non-contiguous subset
        if n < 3:
            return None
        return jax.grad(scalarize(f), argnums=(0, n - 1)), [None] * n

    def T_jvp_last(f, n):            # the other operands are closed over (symbolic-zero tangents)
        if n < 2:
            return None

        def h(*a):
            return jax.jvp(lambda y: f(*a[:-1], y), (a[-1],), (jnp.ones_like(a[-1]) * 0.25,))
        return h, [None] * n

    def T_vjp_last(f, n):
        if n < 2:
            return None

        def h(*a):
            y, pull = jax.vjp(lambda q: f(*a[:-1], q), a[-1])
            return pull(jnp.ones_like(y) * 0.5)
        return h, [None] * n

    def T_vmap_in2(f, n):            # batch axis last on the first operand
        return jax.vmap(f, in_axes=(2,) + (0,) * (n - 1)), [2] + [0] * (n - 1)

    def T_vmap_in1_out1(f, n):
        return jax.vmap(f, in_axes=(1,) + (0,) * (n - 1), out_axes=-1), [1] + [0] * (n - 1)

    def T_vmap_in2_out0(f, n):
        return jax.vmap(f, in_axes=2, out_axes=0), [2] * n

    def T_vmap_grad(f, n):
        return jax.vmap(jax.grad(scalarize(f))), [0] * n

    def T_jit_vmap(f, n):
        return jax.jit(jax.vmap(f)), [0] * n

    return [("vmap", T_vmap0), ("vmap_in_axes_1", T_vmap_in1), ("vmap_in_axes_none_last", T_vmap_none_last),
            ("vmap_in_axes_none_first", T_vmap_none_first), ("vmap_out_axes_last", T_vmap_out1),
            ("vmap_nested", T_vmap_nested), ("jit", T_jit), ("jit_nested", T_jit_nested),
            ("jit_called_twice", T_jit_twice), ("grad", T_grad), ("value_and_grad", T_value_and_grad),
            ("jvp", T_jvp), ("vjp", T_vjp), ("checkpoint", T_checkpoint), ("grad_checkpoint", T_grad_checkpoint),
            ("custom_jvp", T_custom_jvp), ("grad_custom_jvp", T_grad_custom_jvp), ("custom_vjp", T_custom_vjp),
            ("grad_custom_vjp", T_grad_custom_vjp), ("vmap_grad", T_vmap_grad), ("jit_vmap", T_jit_vmap),
            ("grad_argnums_last", T_grad_last), ("grad_argnums_all", T_grad_all),
            ("grad_argnums_first_last", T_grad_first_last), ("jvp_wrt_last", T_jvp_last), ("vjp_wrt_last", T_vjp_last),
            ("vmap_in_axes_2", T_vmap_in2), ("vmap_in_axes_1_out_last", T_vmap_in1_out1),
            ("vmap_in_axes_2_all", T_vmap_in2_out0)]


def family_of(tname: str) -> str:
    if "vmap" in tname:
        return "vmap"
    if tname.startswith("jit"):
        return "jit"
    if "checkpoint" in tname:
        return "remat"
    if "custom" in tname:
        return "custom_ad"
    return "ad"


def make_inputs(shapes, axes, rng: common.Rng, B: int = 2):
    """axes[i]: None (as is), an int (insert a batch axis of size B there) or a tuple (nested vmap)."""
    xs = []
    pool = [0.5, -0.5, 1.5, -1.5, 0.0, 1.0, -1.0, 2.0, -2.25, 0.125, 3.0, -0.75]
    for (kind, shp), ax in zip(shapes, axes):
        shp = tuple(shp)
        if isinstance(ax, tuple):
            for a in ax:
                shp = shp[:a] + (B,) + shp[a:]
        elif ax is not None:
            a = ax if ax >= 0 else len(shp) + 1 + ax
            a = min(a, len(shp))
            shp = shp[:a] + (B,) + shp[a:]
        n = int(np.prod(shp)) if shp else 1
        vals = [pool[rng.next() % len(pool)] + (rng.next() % 7) / 16.0 for _ in range(n)]
        if n >= 2:
            vals[0] = 0.0          # every operand meets the kink of piecewise functions (relu, leaky_relu, abs, clip, …)
        xs.append(np.asarray(vals, dtype=np.float32).reshape(shp))
    return xs


def run_transformed(name: str, tname: str, f, tf, xs) -> dict:
    import jax
    import jax.numpy as jnp
    import c01_explore as X
    from jax2onnx import to_onnx
    res: dict[str, Any] = {"fn": name, "transform": tname}
    try:
        with jax.default_matmul_precision("float32"):
            j32 = X._flat_outputs(tf(*[jnp.asarray(x) for x in xs]))
    except Exception as e:
        res["status"] = "jax_error"
        res["error"] = f"{type(e).__name__}: {e}"[:200]
        return res
    try:
        model = to_onnx(tf, [jax.ShapeDtypeStruct(x.shape, x.dtype) for x in xs], model_name=f"{name}_{tname}")
    except Exception as e:
        res["status"] = "export_error"
        res["error"] = f"{type(e).__name__}: {e}"[:300]
        return res
    try:
        sess = X.ort_session(model)
        out = sess.run(None, X.ort_feed(sess, xs, {}, None))
    except Exception as e:
        res["status"] = "ort_error"
        res["error"] = str(e)[:300]
        return res
    try:
        j64 = X.jax_eval(tf, xs, {}, True)
    except Exception:
        j64 = None
    c = X.compare(out, j32, j64, False, None)
    res.update(c)
    if c["status"] == "mismatch":
        res["input_shapes"] = [list(x.shape) for x in xs]
    return res


# (function, transformation) pairs every quick run executes first
ALWAYS = [("tanh", "jit_called_twice"), ("mlp", "jit_nested"), ("minimum_lowrank", "vmap_in_axes_none_last"),
          ("minimum", "vmap_in_axes_1"), ("add_bcast", "vmap_in_axes_none_last"),
          ("matmul", "grad"), ("softmax", "vmap_out_axes_last"), ("maximum_scalar", "vmap_in_axes_none_last"),
          # a non-differentiated operand in front of a differentiated one, asymmetric functions
          ("divide", "grad_argnums_last"), ("power", "grad_argnums_last"), ("atan2", "jvp_wrt_last"),
          ("subtract", "vjp_wrt_last"), ("three_operands", "grad_argnums_first_last"),
          ("three_operands", "grad_argnums_last"), ("maximum_const_first", "grad"),
          ("power_const_base", "grad"), ("divide_const_first", "jvp"),
          # reductions: non-leading batch axis x reduced axis in front of it x keepdims
          ("sum_axis0_keep", "vmap_in_axes_1"), ("sum_axisN_keep", "vmap_in_axes_2"),
          ("max_axis0_keep", "vmap_in_axes_2"), ("mean_axis0_keep", "vmap_in_axes_1_out_last"),
          ("min_axis-1_keep", "vmap_in_axes_1"), ("sum_axis0_drop", "vmap_in_axes_2"),
          ("amax_axisN_keep", "vmap_in_axes_1"), ("sum_axis-1_drop", "vmap_in_axes_2_all"),
          # own differentiation rules
          ("select_default", "jvp"), ("select_default", "grad_argnums_last"), ("select_const_default", "jvp"),
          ("select_default", "vjp_wrt_last"), ("prod_axis", "grad"), ("take_rows", "grad"), ("celu", "grad"),
          ("selu", "jvp"), ("elu", "grad"), ("leaky_relu", "jvp"), ("softsign", "grad"), ("mish", "jvp")]


def explore(chk: Check, rng: common.Rng, thorough: bool, budget_s: float) -> list[dict]:
    t0 = time.time()
    cat = fn_catalogue()
    trs = transformations()
    combos = [(c, t) for c in cat for t in trs]
    if not thorough:
        # every transformation at least twice, every function at least once; seeded choice
        sel = set()
        for ti, t in enumerate(trs):
            for _ in range(3):
                sel.add((rng.next() % len(cat), ti))
        for ci in range(len(cat)):
            sel.add((ci, rng.next() % len(trs)))
        # the aliasing / batching patterns the design names are always run
        names = {c[0]: i for i, c in enumerate(cat)}
        tn = {t[0]: i for i, t in enumerate(trs)}
        must = [(names[fn], tn[t]) for fn, t in ALWAYS]
        # the named patterns run first (they must not fall behind the deadline on a loaded machine)
        ordered = must + [c for c in sorted(sel) if c not in set(must)]
        combos = [(cat[ci], trs[ti]) for ci, ti in ordered]
    results = []
    for (name, f, shapes), (tname, T) in combos:
        if time.time() - t0 > budget_s:
            results.append({"fn": name, "transform": tname, "status": "not_run_deadline"})
            continue
        made = T(f, len(shapes))
        if made is None:
            continue
        tf, axes = made
        xs = make_inputs(shapes, axes, rng)
        r = run_transformed(name, tname, f, tf, xs)
        results.append(r)
        chk.count({"stage": "exploration", "fn": name, "transform": tname, "status": r["status"],
                   "worst_ratio": r.get("worst_ratio")}, nontrivial=r["status"] in ("ok", "mismatch"))
    by: dict[str, int] = {}
    for r in results:
        by[r["status"]] = by.get(r["status"], 0) + 1
    chk.info("exploration", {"label": "EXPLORATION (not proof): ORT(to_onnx(T f)) vs T(f)(x)",
                             "functions": len(cat), "transformations": [t[0] for t in trs],
                             "combinations_total": len(cat) * len(trs), "executed": len(results),
                             "status_counts": by, "wall_s": round(time.time() - t0, 1),
                             "export_errors": [(r["fn"], r["transform"], r.get("error", "")[:100]) for r in results
                                               if r["status"] == "export_error"][:60]})
    return results


# ----------------------------------------------------------------------------- substitutes with their own batching rule


def explore_substitutes(chk: Check, rng: common.Rng, thorough: bool, budget_s: float) -> list[dict]:
    """EXPLORATION: every leaf substitute primitive that is named after a jax function and has its OWN batching
    rule, called through the patched library function under vmap (in_axes 0 / 1 / last operand unmapped), ORT vs
    eager JAX.  thorough: all of them x all three; quick: a seeded sample.  A failure that the UNBATCHED export of
    the same call shows as well is not a transformation defect (C01/C09 territory) and is only counted."""
    import c10_rules as R2
    t0 = time.time()
    entries, skipped = R2.substitute_catalogue()
    trs = list(R2.SUB_TRANSFORMS.items())
    jobs = []
    if thorough:
        jobs = [(e, t) for e in entries for t in trs]
    else:
        idx = sorted({rng.next() % len(entries) for _ in range(14)}) if entries else []
        jobs = [(entries[i], trs[rng.next() % len(trs)]) for i in idx]
    results, exercised = [], set()
    for (name, f, specs), (tname, T) in jobs:
        if time.time() - t0 > budget_s:
            break
        made = T(f, len(specs))
        if made is None:
            if thorough:
                continue
            made = trs[0][1](f, len(specs))
            tname = trs[0][0]
        tf, axes = made
        xs = R2.substitute_inputs(specs, axes, rng)
        r = run_transformed("prim:" + name, tname, f, tf, xs)
        if r["status"] in ("mismatch", "export_error", "ort_error"):
            base = run_transformed("prim:" + name, "none", f, f, R2.substitute_inputs(specs, [None] * len(specs), rng))
            if base["status"] != "ok":
                r = dict(r, status="baseline_failure", baseline=base["status"])
        exercised.add(name)
        results.append(r)
        chk.count({"stage": "substitute_vmap", "fn": name, "transform": tname, "status": r["status"]},
                  nontrivial=r["status"] in ("ok", "mismatch"), sample_every=25)
    by: dict[str, int] = {}
    for r in results:
        by[r["status"]] = by.get(r["status"], 0) + 1
    chk.info("substitute_vmap_exploration", {
        "label": "EXPLORATION (not proof): substitute primitives with their own batching rule, under vmap",
        "primitives_with_own_batching_rule_and_generic_call": len(entries), "exercised_this_run": len(exercised),
        "runs": len(results), "status_counts": by, "not_callable_generically": skipped,
        "baseline_failures": sorted({r["fn"] for r in results if r["status"] == "baseline_failure"}),
        "wall_s": round(time.time() - t0, 1)})
    return results


# ----------------------------------------------------------------------------- the check


def run(chk: Check) -> None:
    rng = common.Rng(chk.seed)
    thorough = chk.tier == "thorough"
    t0 = time.time()
    tabs = generate()
    chk.info("tables", {"allowlist": len(tabs["allow"]), "blocklist": len(tabs["block"]),
                        "linear_transpose_allowlist": len(tabs["lin"]), "forward_decisions": len(tabs["ftable"]),
                        "forward_accepted": sum(1 for _, a in tabs["ftable"] if a),
                        "observed_shared_rule_pairs": tabs["observed"],
                        "observed_fallback_transposes": tabs["fallback"],
                        "backfill_decisions": len(tabs["btable"]),
                        "backfill_installed": sum(1 for _, b in tabs["btable"] if b)})
    for (p, a) in tabs["ftable"]:
        chk.count({"stage": "forward_table", "pair": list(p), "accepted": a}, nontrivial=a)
    proved = chk.prove(MODS, checker=thorough)
    chk.log(f"Lean done at {time.time() - t0:.1f} s")
    bat_bad = validate_batcher(chk, rng, thorough)
    chk.log(f"batcher correspondence done at {time.time() - t0:.1f} s")
    red_bad = validate_reduction_rule(chk, rng, thorough)
    chk.log(f"reduction-rule correspondence done at {time.time() - t0:.1f} s")
    import c10_rules as R2
    fn_bad = R2.validate_fn_rule(chk, rng, thorough)
    ad_bad = R2.validate_ad_pipeline(chk, rng, thorough, tabs)
    lane_bad = R2.validate_redlane(chk, rng, thorough)
    chk.log(f"round-2 correspondences (fn rule, AD registries, reduction lanes) done at {time.time() - t0:.1f} s")
    chk.info("add_forwarding_contract", {
        "pair_allowlisted": ["add", "jax.numpy.add"] in [list(p) for p in tabs["allow"]],
        "shape_pairs_accepted_by_jnp_add_only": [[list(a), list(b)] for (a, b), lx, jn in tabs["adddom"] if jn and not lx][:8],
        "note": "contract dom(new) <= dom(orig) of forwarded_rule_defined_on_new_domain is violated by this pair "
                "(F-C10-add-forwarded-ad-rule)"})
    found = False
    if fn_bad:
        wrong = [b for b in fn_bad if not b["real_result_is_lanewise_F"]]
        found = found or bool(wrong)
        chk.violation({"correspondence": "the FunctionPlugin batching rule differs from the proven model `fnBatchRule` "
                                         "(or its result is not lane-wise the per-example function)",
                       "cases": (wrong + fn_bad)[:20], "how": "harness/c10_rules.py validate_fn_rule"},
                      name="fn-batch-rule-correspondence", no_failing_input=not wrong)
    if ad_bad:
        def leaks(b):       # a rule object of another primitive on a pair that is not allow-listed
            allow = {tuple(p) for p in b["scenario"]["A"]}
            if b["real"] == "raises":
                return False
            for ent in b["real"].split(" "):
                n, rules = ent.rsplit(":", 1)
                for r in rules.split("/"):
                    if r.startswith("own.") and r[4:] != n and (r[4:], n) not in allow:
                        return True
            return False
        wrong = [b for b in ad_bad if leaks(b)]
        found = found or bool(wrong)
        chk.violation({"correspondence": "register_original_rule_forwarding + backfill_missing_transpose_rules differ from "
                                         "the proven model `adPipeline` on stub primitives (registries after the run)",
                       "cases": (wrong + ad_bad)[:12], "rule_leaked_to_non_allowlisted_pair": bool(wrong),
                       "how": "harness/c10_rules.py validate_ad_pipeline"},
                      name="ad-pipeline-correspondence", no_failing_input=not wrong)
    if lane_bad:
        found = True
        chk.violation({"correspondence": "a lane of what register_reduction_batch_rule returns is not the per-example "
                                         "reduction of that lane (tensor-model expression of reduction_batch_rule_lanewise)",
                       "cases": lane_bad[:20], "how": "harness/c10_rules.py validate_redlane"},
                      name="reduction-lanewise-correspondence")
    if red_bad:
        # a disagreement here IS a concrete failing input of the real rule (operand shape, bdim, axes, keepdims)
        found = any(not b["result_is_per_example_reduction"] for b in red_bad)
        chk.violation({"correspondence": "register_reduction_batch_rule differs from the proven model `reductionBatchRule` "
                                         "(or its result is not the per-example reduction with the batch axis where it says)",
                       "cases": red_bad[:20], "how": "harness/props/c10.py validate_reduction_rule"},
                      name="reduction-rule-correspondence", no_failing_input=not found)
    if bat_bad:
        # search the real code for a concrete failing input: the real batcher's result against vmap semantics,
        # first on the disagreeing cases that do not involve the listed lower-rank defect
        failing = []
        for b in sorted(bat_bad, key=lambda b: b["lower_rank_mapped"])[:60]:
            w = R2.batcher_lane_oracle([(tuple(s), k, off) for s, k, off in b["operands"]], _StubPrim)
            if w is not None:
                w["lower_rank_mapped_operand"] = b["lower_rank_mapped"]
                failing.append(w)
        new_fail = [w for w in failing if not w["lower_rank_mapped_operand"]]
        found = found or bool(new_fail)
        chk.violation({"correspondence": "broadcast_batcher_compat differs from the proven model `broadcastBatcher`",
                       "failing_inputs_of_the_real_batcher": (new_fail + failing)[:12],
                       "cases": bat_bad[:20], "how": "harness/c10_rules.py batcher_lane_oracle"},
                      name="batcher-correspondence", no_failing_input=not new_fail)
    res = explore(chk, rng, thorough, 1e9 if thorough else 150.0)
    res += [r for r in explore_substitutes(chk, rng, thorough, 1e9 if thorough else 45.0)
            if r["status"] != "baseline_failure"]
    for r in res:
        if r["status"] in ("mismatch", "export_error", "ort_error"):
            key = {"fn": r["fn"], "transform": r["transform"], "family": family_of(r["transform"]),
                   "status": r["status"]}
            found = True
            chk.finding(key, f"{r['transform']}({r['fn']}): {r['status']} {r.get('why') or r.get('error', '')}"[:260],
                        {"result": r, "how": "harness/props/c10.py run_transformed"})
    if not proved:
        # policy obligations broken: show the offending rows; a concrete wrong export is searched by the
        # exploration above (all listed → the break itself is still reported)
        rows = [list(p) for p, a in tabs["ftable"] if a and tuple(p) not in set(map(tuple, tabs["allow"]))]
        obs = [list(p) for p in tabs["observed"] if tuple(p) not in set(map(tuple, tabs["allow"]))]
        chk.violation({"broken": getattr(chk, "broken", []), "accepted_but_not_allowlisted": rows,
                       "shared_rule_but_not_allowlisted": obs,
                       "allow_block_overlap": [list(p) for p in tabs["allow"] if p in tabs["block"]],
                       "build_log_tail": getattr(chk, "build_log", "")[-3000:]},
                      name="obligation-broken", no_failing_input=not found)
    chk.assumptions += [
        "pointwise primitive = any function of the list of operand elements; numpy broadcasting of the plugin primitives "
        "is modelled by right-aligned index selection (bidx)",
        "mapped operands: batch dimension in range, common batch size; rank hypothesis hR (full rank or per-example scalar)",
        "jaxpr environments are shared and overwrite on bind (C01 model); renaming injective and fresh",
        "rule identity (`is`) in JAX's registries is how forwarding is observed",
        "AD registries model: rule objects by identity (own(owner) / generic fallback); initial registries hold every "
        "primitive's own rules; forwarding requests precede the backfill; no chains in the allow-list (allow_no_chain)",
        "reduction lanes: sums over a commutative monoid on the shared tensor model (exact arithmetic)",
        "FunctionPlugin rule: single-result per-example function, arbitrary (not necessarily pointwise)",
        "exploration oracle as in C01 (tolerance from JAX's own f32/f64 discrepancy)",
    ]
    chk.coverage["rule"] = ("batcher: generated operand lists (arity 1..4, per-example shape variants, every batch-dim "
                            "placement, unmapped/scalar/lower-rank) — non-trivial = the real batcher returned a value; "
                            "FunctionPlugin rule / AD registries / reduction lanes: generated operand lists and registry scenarios against "
                            "the real functions; policy: complete decision tables; exploration: (function, transformation) pairs — "
                            "non-trivial = exported and compared")
    chk.coverage["exhaustive"] = False


def replay(path: str) -> int:
    rep = json.loads(open(path).read())
    print(json.dumps(rep, indent=1, default=str)[:3000])
    r = rep.get("result")
    if r and str(r.get("fn", "")).startswith("prim:"):
        import c10_rules as R2
        ents = {e[0]: e for e in R2.substitute_catalogue()[0]}
        name, f, specs = ents[r["fn"][5:]]
        tf, axes = R2.SUB_TRANSFORMS[r["transform"]](f, len(specs))
        xs = R2.substitute_inputs(specs, axes, common.Rng(int(rep.get("seed", 0))))
        out = run_transformed(r["fn"], r["transform"], f, tf, xs)
        print(json.dumps(out, indent=1, default=str)[:2000])
        return 1 if out["status"] != "ok" else 0
    if r and "fn" in r:
        cat = {c[0]: c for c in fn_catalogue()}
        trs = dict(transformations())
        name, f, shapes = cat[r["fn"]]
        tf, axes = trs[r["transform"]](f, len(shapes))
        xs = make_inputs(shapes, axes, common.Rng(int(rep.get("seed", 0))))
        out = run_transformed(name, r["transform"], f, tf, xs)
        print(json.dumps(out, indent=1, default=str)[:2000])
        return 1 if out["status"] != "ok" else 0
    return 0
