"""C17 — cast elimination removes only value-preserving round trips.

Tie (T): the real decision function, the real rewrite on the two-Cast probe graph, the real
integer-bounds helper and the shape-only operator set are tabulated on their whole finite
domains into lean/J2O/Gen/C17.lean on every run; GenProps/C17.lean proves (decide +kernel) that
each table is included in the hand-written reference, for which Props/C17.lean proves domain
inclusion / round-trip identity over all values, and soundness of the Range bounds for all
integers.  Tie (H): the Range path (infinite domain) is compared with the Lean model through the
line-protocol driver on a box of triples.  Search: numpy/ORT round trips.
"""
from __future__ import annotations

import itertools
from typing import Optional

import warnings

import numpy as np

warnings.filterwarnings("ignore")

import common
from common import Check, LEAN, lean_bool, lean_int, lean_list, lean_str, write_if_changed

META = {
    "ready": True,
    "level": "proof",
    "technique": "Lean 4 theorems (format inclusion over Q, Range bounds over Z) + decide-checked "
                 "inclusion of tables regenerated from the live code; driver correspondence for Range",
    "level_text": "Kernel-checked theorems: castOk_dom_subset/castOk_roundtrip (every value of T survives "
                  "T->U->T for every accepted pair, any cast semantics exact on representable values), "
                  "rangeBounds_sound/knownFit_sound (all integer triples). The code's decision, the rewrite's "
                  "behaviour on the 2-Cast probe and the dtype-bounds helper are tabulated completely from "
                  "/repo each run and proved included in the reference (decide +kernel).",
    "level_note": "Trusted: Lean kernel + 3 standard axioms; the tabulating harness; ONNX dtype-code -> "
                  "format map (cross-checked against numpy/ml_dtypes finfo each run); NaN treated as one "
                  "value; Range path tied by sampling a box (one-sided: code accepts => model accepts). "
                  "Shape-only ops list validated against ORT, not proved.",
    "design_ref": "DESIGN.md §3 C17",
}

CODES = list(range(0, 32))
MODS = ["J2O.Props.C17", "J2O.GenProps.C17"]
INT_CODES = [2, 3, 4, 5, 6, 7, 12, 13, 21, 22, 25, 26]


def _opt():
    import jax2onnx.converter.ir_optimizations as opt
    return opt


# ----------------------------------------------------------------------------- probes


def _cast_attr(code: int):
    import onnx_ir as ir
    from onnx_ir import AttributeType as IRAttrType
    return ir.Attr(name="to", type=IRAttrType.INT, value=int(code))


def cast_pair_model(s: int, m: int, shape=(3,), observed: bool = False):
    import onnx_ir as ir
    import irtools
    sd, md = ir.DataType(s), ir.DataType(m)
    x = ir.val("x", sd, shape)
    mid = ir.val("mid", md, shape)
    y = ir.val("y", sd, shape)
    n1 = ir.Node(op_type="Cast", domain="", inputs=[x], outputs=[mid], name="c1",
                 attributes=[_cast_attr(m)])
    n2 = ir.Node(op_type="Cast", domain="", inputs=[mid], outputs=[y], name="c2",
                 attributes=[_cast_attr(s)])
    outs = [y, mid] if observed else [y]
    g = ir.Graph(name="castpair", inputs=[x], outputs=outs, nodes=[n1, n2],
                 opset_imports={"": 23})
    return irtools.make_model(g)


def probe_fold(s: int, m: int) -> bool:
    """Run the real pass on x:s -> Cast(m) -> Cast(s) -> y; True iff y was rewired to x."""
    opt = _opt()
    model = cast_pair_model(s, m)
    opt.remove_redundant_casts_ir(model.graph)
    out = model.graph.outputs[0]
    return out is model.graph.inputs[0] or out.name == "x"


def range_model(start: int, limit: int, delta: int, src: int, mid: int, via: str = "none"):
    """Range(start,limit,delta) [-> shape-only op] -> Cast(mid) -> Cast(src)."""
    import onnx_ir as ir
    import irtools
    sd = ir.DataType(src)
    npdt = sd.numpy()
    cs = irtools.const_val("start", np.asarray(start, dtype=npdt))
    cl = irtools.const_val("limit", np.asarray(limit, dtype=npdt))
    cd = irtools.const_val("delta", np.asarray(delta, dtype=npdt))
    length = len(range(start, limit, delta)) if delta != 0 else 0
    r = ir.val("range", sd, (length,))
    nodes = [ir.Node(op_type="Range", domain="", inputs=[cs, cl, cd], outputs=[r], name="rng")]
    inits = [cs, cl, cd]
    cur = r
    if via == "unsqueeze":
        ax = irtools.const_val("ax", np.asarray([0], dtype=np.int64))
        u = ir.val("u", sd, (1, length))
        nodes.append(ir.Node(op_type="Unsqueeze", domain="", inputs=[cur, ax], outputs=[u], name="unsq"))
        inits.append(ax)
        cur = u
    elif via == "identity":
        u = ir.val("u", sd, (length,))
        nodes.append(ir.Node(op_type="Identity", domain="", inputs=[cur], outputs=[u], name="idn"))
        cur = u
    a = ir.val("narrow", ir.DataType(mid), cur.shape)
    b = ir.val("restored", sd, cur.shape)
    nodes.append(ir.Node(op_type="Cast", domain="", inputs=[cur], outputs=[a], name="c1",
                         attributes=[_cast_attr(mid)]))
    nodes.append(ir.Node(op_type="Cast", domain="", inputs=[a], outputs=[b], name="c2",
                         attributes=[_cast_attr(src)]))
    g = ir.Graph(name="rangecast", inputs=[], outputs=[b], nodes=nodes, initializers=inits,
                 opset_imports={"": 23})
    return irtools.make_model(g), cur


# ----------------------------------------------------------------------------- tables


def tabulate() -> dict:
    import onnx_ir as ir
    opt = _opt()
    valid = [d.value for d in ir.DataType if d.value != 0]
    fold = []
    for s in valid:
        for m in valid:
            try:
                fold.append((s, m, bool(probe_fold(s, m))))
            except Exception:  # a probe the IR cannot even build is not a fold
                fold.append((s, m, False))
    # function-level tables are read through private helpers; when a refactoring renames one, the
    # behaviour-level table (what the pass really folds) stands in for it
    MISSING.clear()
    decide_fn = _priv(opt, "_cast_roundtrip_is_value_preserving")
    if decide_fn is not None:
        cast = [(s, m, bool(decide_fn(s, m))) for s in CODES for m in CODES]
    else:
        folded = {(s, m): f for s, m, f in fold}
        cast = [(s, m, bool(folded.get((s, m), False))) for s in CODES for m in CODES]
    bounds_fn = _priv(opt, "_integer_dtype_bounds")
    bounds = [(c, bounds_fn(c)) for c in CODES] if bounds_fn is not None else []
    shape_only = _priv(opt, "_INTEGER_VALUE_PRESERVING_OPS")
    return {"cast": cast, "fold": fold, "bounds": bounds,
            "shape_only": sorted(shape_only) if shape_only is not None else []}


MISSING: list[str] = []


def _priv(opt, name: str):
    v = getattr(opt, name, None)
    if v is None and name not in MISSING:
        MISSING.append(name)
    return v


def generate(tabs: Optional[dict] = None) -> dict:
    tabs = tabs or tabulate()
    def row(e):
        return f"({e[0]}, {e[1]}, {lean_bool(e[2])})"
    def brow(e):
        c, b = e
        return f"({c}, none)" if b is None else f"({c}, some ({lean_int(b[0])}, {lean_int(b[1])}))"
    src = f"""/- GENERATED by harness/props/c17.py from /repo on every run — do not edit. -/
namespace J2O.Gen.C17

/-- (source code, intermediate code, `_cast_roundtrip_is_value_preserving`) on 0..31 × 0..31. -/
def castTable : List (Nat × Nat × Bool) := {lean_list(map(row, tabs['cast']))}

/-- (s, m, did the real `remove_redundant_casts_ir` remove `Cast(s→m);Cast(m→s)`?) -/
def foldTable : List (Nat × Nat × Bool) := {lean_list(map(row, tabs['fold']))}

/-- (code, `_integer_dtype_bounds(code)`) -/
def boundsTable : List (Nat × Option (Int × Int)) := {lean_list(map(brow, tabs['bounds']), 3)}

/-- `_INTEGER_VALUE_PRESERVING_OPS` -/
def shapeOnlyOps : List String := {lean_list(map(lean_str, tabs['shape_only']))}

end J2O.Gen.C17
"""
    write_if_changed(LEAN / "J2O/Gen/C17.lean", src)
    return tabs


# ----------------------------------------------------------------------------- search


def _np_dtype(code: int):
    import onnx_ir as ir
    return ir.DataType(code).numpy()


def _all_values(code: int, rng: common.Rng, cap_bits: int = 16) -> Optional[np.ndarray]:
    """All bit patterns of the dtype when it has at most `cap_bits` bits, else structured candidates."""
    import onnx_ir as ir
    d = ir.DataType(code)
    try:
        dt = d.numpy()
        bits = d.bitwidth
    except Exception:
        return None
    if d == ir.DataType.STRING:
        return None
    if d == ir.DataType.BOOL:
        return np.array([False, True])
    if bits <= cap_bits and dt.itemsize * 8 == bits:
        raw = np.arange(2 ** bits, dtype=np.uint64).astype({8: np.uint8, 16: np.uint16}[bits])
        return raw.view(dt)
    if bits < 8:
        info_lo = -(2 ** (bits - 1)) if d.is_signed() else 0
        info_hi = 2 ** (bits - 1) - 1 if d.is_signed() else 2 ** bits - 1
        return np.arange(info_lo, info_hi + 1).astype(dt)
    # structured candidates for wide types
    cands: list = []
    if d.is_integer():
        lo = -(2 ** (bits - 1)) if d.is_signed() else 0
        hi = 2 ** (bits - 1) - 1 if d.is_signed() else 2 ** bits - 1
        pts = {lo, lo + 1, hi, hi - 1, 0, 1, -1 if lo < 0 else 2}
        for k in range(1, bits):
            for dlt in (-1, 0, 1):
                for sgn in ((1, -1) if lo < 0 else (1,)):
                    v = sgn * (2 ** k + dlt)
                    if lo <= v <= hi:
                        pts.add(v)
        for _ in range(2000):
            pts.add(rng.randint(lo, hi))
        return np.array(sorted(pts), dtype=object).astype(dt)
    if dt.kind == "c":
        base = _all_values(1 if code == 14 else 11, rng)
        k = min(len(base), 4000)
        re = base[:k]
        im = base[::-1][:k]
        return (re.astype(dt) + 1j * im.astype(dt)).astype(dt)
    # float32 / float64
    fi = np.finfo(dt)
    vals = [0.0, -0.0, 1.0, -1.0, float(fi.max), float(fi.min), float(fi.tiny), float(fi.smallest_subnormal),
            float("inf"), float("-inf"), float("nan"), 1.0 + float(fi.eps), 1.0 - float(fi.epsneg)]
    for k in range(-160 if bits == 32 else -1080, 130 if bits == 32 else 1024, 1 if bits == 32 else 7):
        for mant in (1.0, 1.5, 1.0 + float(fi.eps)):
            try:
                vals.append(float(np.ldexp(mant, k)))
            except OverflowError:
                pass
    for k in range(1, 65):
        vals += [float(2 ** k + 1), float(2 ** k - 1), float(-(2 ** k) - 1)]
    arr = np.array(vals, dtype=np.float64).astype(dt)
    rnd = np.array([rng.next() & ((1 << bits) - 1) for _ in range(4000)],
                   dtype=np.uint32 if bits == 32 else np.uint64).view(dt)
    return np.concatenate([arr, rnd])


def _same(a: np.ndarray, b: np.ndarray) -> np.ndarray:
    """elementwise: same value (NaN≡NaN, +0≢−0)."""
    if a.dtype.kind == "b" or a.dtype.kind in "iu" or "int" in a.dtype.name:
        return np.asarray(a == b)
    if a.dtype.kind == "c":
        return _same(a.real, b.real) & _same(a.imag, b.imag)
    af, bf = a.astype(np.float64), b.astype(np.float64)
    return ((af == bf) & (np.signbit(af) == np.signbit(bf))) | (np.isnan(af) & np.isnan(bf))


def numpy_roundtrip_witness(s: int, m: int, rng: common.Rng, cap_bits: int = 16):
    """A value of dtype s changed by s->m->s under numpy's conversion, or None."""
    vals = _all_values(s, rng, cap_bits)
    if vals is None:
        return None, 0
    try:
        mdt = _np_dtype(m)
        with np.errstate(all="ignore"):
            back = vals.astype(mdt).astype(vals.dtype)
    except Exception:
        return None, 0
    ok = _same(vals, back)
    bad = np.nonzero(~ok)[0]
    if len(bad) == 0:
        return None, len(vals)
    return vals[bad[0]], len(vals)


def ort_before_after(s: int, m: int, value) -> Optional[dict]:
    """Run the real optimizer on the probe and compare ORT before/after on `value`."""
    import irtools
    opt = _opt()
    before = cast_pair_model(s, m, shape=(1,))
    after = irtools.clone_model(before)
    after = opt.optimize_graph(after)
    x = np.asarray([value], dtype=_np_dtype(s))
    try:
        yb = irtools.run_ort(before, {"x": x})[0]
        ya = irtools.run_ort(after, {after.graph.inputs[0].name: x})[0]
    except Exception as e:  # ORT lacks this Cast kernel: numpy semantics stand in
        return {"ort": "unavailable: " + str(e)[:200]}
    return {"ort_before": repr(yb.tolist()), "ort_after": repr(ya.tolist()),
            "differ": not irtools.same_array(yb, ya)}


# ----------------------------------------------------------------------------- the check


def multi_pair_model(pairs: list[dict]):
    """One graph holding several independent Cast round trips (history inside one pass run).
    pair = {"kind": "input"|"range", "s": code, "m": code, ["triple": (a,l,d)]}"""
    import onnx_ir as ir
    import irtools
    nodes, inits, inputs, outputs = [], [], [], []
    for k, p in enumerate(pairs):
        sd, md = ir.DataType(p["s"]), ir.DataType(p["m"])
        if p["kind"] == "range":
            a, l, d = p["triple"]
            npdt = sd.numpy()
            cs = irtools.const_val(f"start{k}", np.asarray(a, dtype=npdt))
            cl = irtools.const_val(f"limit{k}", np.asarray(l, dtype=npdt))
            cd = irtools.const_val(f"delta{k}", np.asarray(d, dtype=npdt))
            inits += [cs, cl, cd]
            src = ir.val(f"range{k}", sd, (len(range(a, l, d)),))
            nodes.append(ir.Node(op_type="Range", domain="", inputs=[cs, cl, cd], outputs=[src], name=f"rng{k}"))
        else:
            src = ir.val(f"x{k}", sd, (4,))
            inputs.append(src)
        mid = ir.val(f"mid{k}", md, src.shape)
        out = ir.val(f"y{k}", sd, src.shape)
        nodes.append(ir.Node(op_type="Cast", domain="", inputs=[src], outputs=[mid], name=f"c1_{k}",
                             attributes=[_cast_attr(p["m"])]))
        nodes.append(ir.Node(op_type="Cast", domain="", inputs=[mid], outputs=[out], name=f"c2_{k}",
                             attributes=[_cast_attr(p["s"])]))
        outputs.append(out)
    g = ir.Graph(name="multipair", inputs=inputs, outputs=outputs, nodes=nodes, initializers=inits,
                 opset_imports={"": 23})
    return irtools.make_model(g)


def check_multi_pairs(chk: Check, rng: common.Rng, n_graphs: int) -> None:
    """Each round trip of a graph must be decided on its own merits: a pair is removed only if the
    reference accepts its types or its own Range bounds fit (no carry-over between pairs)."""
    opt = _opt()
    lines, meta = [], []
    for _ in range(n_graphs):
        pairs = []
        for _ in range(rng.randint(2, 4)):
            kind = rng.choice(["input", "range", "range", "input"])
            s = 7
            m = rng.choice([6, 6, 5, 3, 12, 11])
            p = {"kind": kind, "s": s, "m": m}
            if kind == "range":
                base = rng.choice([0, 0, 100, 2 ** 31 - 3, -(2 ** 31) - 2, 2 ** 15 - 2, 250])
                d = rng.choice([1, 2, 3, -1, -2])
                n = rng.randint(0, 5)
                p["triple"] = (base, base + n * d + (1 if d > 0 else -1) * rng.randint(0, 1), d)
            pairs.append(p)
        if rng.chance(0.5):
            # the dangerous order: provable pairs first, dynamic ones later
            pairs.sort(key=lambda q: 0 if q["kind"] == "range" else 1)
        try:
            model = multi_pair_model(pairs)
        except Exception:
            continue
        opt.remove_redundant_casts_ir(model.graph)
        remaining = {n.name for n in model.graph}
        for k, p in enumerate(pairs):
            folded = f"c2_{k}" not in remaining
            if p["kind"] == "range":
                a, l, d = p["triple"]
                lines.append(f"kf {p['s']} {p['m']} {a} {l} {d}")
            else:
                lines.append(f"ok {p['s']} {p['m']}")
            meta.append((pairs, k, folded))
    answers = common.run_driver("C17", lines) if lines else []
    bad = []
    for (pairs, k, folded), ans in zip(meta, answers):
        chk.count({"op": "multi_pair", "pairs": pairs, "k": k, "folded": folded}, nontrivial=folded)
        if folded and ans != "true":
            bad.append({"pairs": pairs, "pair_index": k})
    chk.info("multi_pair_graphs", {"pairs_checked": len(meta), "removed_without_justification": len(bad)})
    for b in bad[:3]:
        p = b["pairs"][b["pair_index"]]
        # concrete failing input: feed a value outside the intermediate type to the dynamic pair
        rep = dict(b)
        if p["kind"] == "input":
            rep["witness"] = "feed 2**40 to input x%d: before the pass the round trip wraps, after it does not" % b["pair_index"]
        chk.finding({"kind": "pair_removed_without_own_justification", "pair": p["kind"], "s": p["s"], "m": p["m"]},
                    f"in a graph with several round trips, pair {b['pair_index']} ({p['kind']} {p['s']}->{p['m']}) "
                    f"is removed although neither the type table nor its own value range justifies it", rep)


def check_shape_only_ops(chk: Check, ops: list[str]) -> list[dict]:
    """Every operator through which the code propagates integer value bounds must only move /
    replicate elements of its first input (the reference list is proved included in GenProps;
    here the claim itself is validated in ONNX Runtime, and an operator that is NOT in the
    reference list is probed for a concrete counterexample)."""
    import onnx
    from onnx import TensorProto, helper, numpy_helper
    import onnxruntime as ort
    x = np.array([[11, -7, 300], [70000, -2, 5]], dtype=np.int64)
    extra = {
        "Expand": [numpy_helper.from_array(np.array([2, 2, 3], dtype=np.int64), "p1")],
        "Reshape": [numpy_helper.from_array(np.array([3, 2], dtype=np.int64), "p1")],
        "Unsqueeze": [numpy_helper.from_array(np.array([0], dtype=np.int64), "p1")],
        "Squeeze": [],
        "Pad": [numpy_helper.from_array(np.array([0, 1, 0, 0], dtype=np.int64), "p1")],
        "Add": [numpy_helper.from_array(np.array(1, dtype=np.int64), "p1")],
        "Mul": [numpy_helper.from_array(np.array(2, dtype=np.int64), "p1")],
        "Sub": [numpy_helper.from_array(np.array(1, dtype=np.int64), "p1")],
        "Tile": [numpy_helper.from_array(np.array([1, 2], dtype=np.int64), "p1")],
        "Gather": [numpy_helper.from_array(np.array([1, 0], dtype=np.int64), "p1")],
        "Concat": [],
        "CumSum": [numpy_helper.from_array(np.array(1, dtype=np.int64), "p1")],
        "ReduceSum": [],
        "Slice": [numpy_helper.from_array(np.array([0], dtype=np.int64), "p1"),
                  numpy_helper.from_array(np.array([1], dtype=np.int64), "p2")],
    }
    attrs = {"Transpose": {"perm": [1, 0]}, "Flatten": {"axis": 1}, "Concat": {"axis": 0}}
    bad = []
    for op in ops:
        inits = extra.get(op, [])
        node = helper.make_node(op, ["x"] + [t.name for t in inits], ["y"], **attrs.get(op, {}))
        g = helper.make_graph([node], "g", [helper.make_tensor_value_info("x", TensorProto.INT64, [2, 3])],
                              [helper.make_empty_tensor_value_info("y")], initializer=inits)
        m = helper.make_model(g, opset_imports=[helper.make_opsetid("", 23)], ir_version=10)
        try:
            y = ort.InferenceSession(m.SerializeToString(), providers=["CPUExecutionProvider"]).run(None, {"x": x})[0]
        except Exception as e:  # noqa: BLE001
            bad.append({"op": op, "probe": "could not be built: " + str(e)[:120]})
            continue
        ok = set(np.asarray(y).reshape(-1).tolist()) <= set(x.reshape(-1).tolist())
        chk.count({"op": "shape_only_probe", "operator": op, "elements_of_input_only": ok}, nontrivial=True)
        if not ok:
            bad.append({"op": op, "input": x.tolist(), "output": np.asarray(y).tolist()})
    return bad


def check_finfo(chk: Check) -> None:
    """Cross-check the reference's float triples (Lean kindOf) against numpy/ml_dtypes finfo."""
    import ml_dtypes
    ref = {1: (24, -149, 127), 10: (11, -24, 15), 11: (53, -1074, 1023), 16: (8, -133, 127)}
    for code, (p, emin, emax) in ref.items():
        dt = _np_dtype(code)
        fi = ml_dtypes.finfo(dt)
        got = (fi.nmant + 1, fi.minexp - fi.nmant, fi.maxexp - 1)
        if got != (p, emin, emax):
            raise RuntimeError(f"reference format of code {code} {p, emin, emax} != finfo {got}")
    chk.info("finfo_crosscheck", "4 float formats of the Lean reference equal numpy/ml_dtypes finfo")


def run(chk: Check) -> None:
    rng = common.Rng(chk.seed)
    thorough = chk.tier == "thorough"
    opt = _opt()
    check_finfo(chk)
    tabs = generate()
    chk.info("tables", {"castTable_rows": len(tabs["cast"]),
                        "castTable_accepting": sum(1 for r in tabs["cast"] if r[2]),
                        "foldTable_rows": len(tabs["fold"]),
                        "foldTable_folded": sum(1 for r in tabs["fold"] if r[2])})
    proved = chk.prove(MODS, checker=thorough)

    # reference verdict for every table row (Lean interpreter) – used for the search and for
    # the two-sided drift information
    rows = [(s, m) for (s, m, _) in tabs["cast"]] + [(s, m) for (s, m, _) in tabs["fold"]]
    try:
        ref = common.run_driver("C17", [f"ok {s} {m}" for s, m in rows])
        refmap = {(s, m): (r == "true") for (s, m), r in zip(rows, ref)}
    except Exception as e:
        chk.log(f"driver unavailable: {e}")
        refmap = {}

    outside = []
    drift = 0
    for name in ("cast", "fold"):
        for s, m, ok in tabs[name]:
            chk.count({"table": name, "s": s, "m": m, "code_accepts": ok}, nontrivial=ok or (s, m) in refmap and refmap[(s, m)])
            if refmap and ok and not refmap[(s, m)]:
                outside.append((name, s, m))
            if refmap and (not ok) and refmap[(s, m)] and 0 < s < 27 and 0 < m < 27:
                drift += 1
    chk.info("rows_where_code_is_more_conservative_than_reference", drift)

    found_concrete = False
    for name, s, m in outside:
        w, n = numpy_roundtrip_witness(s, m, rng, cap_bits=16)
        if w is None:
            continue
        rep = {"table": name, "source_code": s, "intermediate_code": m, "value": repr(w),
               "numpy_roundtrip": repr(np.asarray([w]).astype(_np_dtype(m)).astype(_np_dtype(s)).tolist()),
               "how": "x:s -> Cast(m) -> Cast(s); optimize_graph removes the pair although the value changes"}
        oa = ort_before_after(s, m, w)
        rep["ort"] = oa
        if oa is not None and oa.get("differ") is False:
            continue  # the rewrite did not actually change this result
        found_concrete = True
        chk.finding({"kind": "lossy_pair_accepted", "source": s, "intermediate": m},
                    f"cast pair {s}->{m}->{s} is dropped but value {w!r} does not survive", rep)
    bounds_bad = []
    import onnx_ir as ir
    for c, b in tabs["bounds"]:
        if b is None:
            continue
        try:
            d = ir.DataType(c)
            lo = -(2 ** (d.bitwidth - 1)) if d.is_signed() else 0
            hi = 2 ** (d.bitwidth - 1) - 1 if d.is_signed() else 2 ** d.bitwidth - 1
            if not d.is_integer() or b[0] < lo or b[1] > hi:
                bounds_bad.append((c, b))
        except Exception:
            bounds_bad.append((c, b))

    # ---- H: Range path against the Lean model --------------------------------------------
    box = 6 if not thorough else 14
    triples = [(a, l, d) for a in range(-box, box + 1) for l in range(-box, box + 1)
               for d in range(-3, 4)]
    edges = []
    for bits in (4, 8, 16, 32):
        for base in (2 ** (bits - 1), -(2 ** (bits - 1)), 2 ** bits):
            for off in (-2, -1, 0, 1, 2):
                for d in (1, 2, 3, -1, -2, -3):
                    a = base + off
                    edges.append((a, a + 4 * d + (1 if d > 0 else -1), d))
                    edges.append((a - 4 * d, a + (1 if d > 0 else -1), d))
                    edges.append((a - 5 * d, a, d))
    for _ in range(300 if not thorough else 5000):
        a = rng.randint(-2 ** 33, 2 ** 33)
        d = rng.choice([1, -1, 2, -2, 3, 7, -7, 1000, -1000, 2 ** 20])
        n = rng.randint(0, 6)
        edges.append((a, a + n * d + rng.randint(-2, 2), d))
    triples += edges
    mids = [6, 5, 3, 2, 4, 12, 22, 21]
    src = 7
    lines, cases = [], []
    nodes_cache = {}
    kb_fn = _priv(opt, "_known_integer_value_bounds")
    kf_fn = _priv(opt, "_cast_roundtrip_known_values_fit")
    for (a, l, d) in triples:
        try:
            model, source = range_model(a, l, d, src, 6)
        except Exception:
            continue
        nodes = list(model.graph)
        if kb_fn is not None:
            code_bounds = kb_fn(nodes, source)
            lines.append(f"rb {a} {l} {d}")
            cases.append(("rb", a, l, d, None, code_bounds))
        for mid in (mids if (abs(a) > 100 or rng.chance(0.15)) else mids[:2]):
            if kf_fn is not None:
                fit = bool(kf_fn(nodes, source, src, mid))
            else:           # behaviour level: does the real pass fold this round trip?
                if len(cases) > 600:
                    break
                res = range_before_after(a, l, d, src, mid)
                fit = bool(res and res.get("folded"))
            lines.append(f"kf {src} {mid} {a} {l} {d}")
            cases.append(("kf", a, l, d, mid, fit))
    answers = common.run_driver("C17", lines)
    disagree, onesided = [], []
    for (kind, a, l, d, mid, real), ans in zip(cases, answers):
        if kind == "rb":
            model_b = None if ans == "none" else tuple(int(x) for x in ans.split())
            chk.count({"op": "rangeBounds", "start": a, "limit": l, "delta": d, "code": real},
                      nontrivial=real is not None and real[0] <= real[1])
            if real != model_b:
                disagree.append({"op": "rb", "triple": [a, l, d], "code": real, "model": model_b})
                # one-sided: code interval must contain the model's (proven) interval
                if real is not None and not (model_b is not None and (model_b[0] > model_b[1] or
                                              (real[0] <= model_b[0] and model_b[1] <= real[1]))):
                    onesided.append(disagree[-1])
        else:
            chk.count({"op": "knownFit", "start": a, "limit": l, "delta": d, "mid": mid, "code": real},
                      nontrivial=real)
            if real != (ans == "true"):
                disagree.append({"op": "kf", "triple": [a, l, d], "mid": mid, "code": real, "model": ans})
                if real:
                    onesided.append(disagree[-1])
    chk.info("range_correspondence", {"requests": len(lines), "two_sided_disagreements": len(disagree),
                                      "unsound_side_disagreements": len(onesided)})
    chk.add("traces_validated_against_impl", len(lines))

    # search on the real graph for every unsound-side disagreement
    range_found = False
    for dis in onesided[:50]:
        a, l, d = dis["triple"]
        for mid in ([dis["mid"]] if "mid" in dis else mids):
            res = range_before_after(a, l, d, src, mid)
            if res and res.get("differ"):
                range_found = True
                chk.finding({"kind": "range_roundtrip_dropped", "start": a, "limit": l, "delta": d, "mid": mid},
                            f"Range({a},{l},{d}) -> Cast({mid}) -> Cast({src}) folded but values change",
                            {"disagreement": dis, "ort": res})
                break

    # rewrite-level sample: the pass on the real graph agrees with the function-level decision
    sample = rng.sample(triples, 40 if not thorough else 400)
    for (a, l, d) in sample:
        for via in ("none", "unsqueeze", "identity"):
            mid = rng.choice(mids)
            res = range_before_after(a, l, d, src, mid, via)
            chk.count({"op": "rewrite", "triple": [a, l, d], "mid": mid, "via": via, "res": res}, nontrivial=bool(res and res.get("folded")))
            if res and res.get("differ"):
                range_found = True
                chk.finding({"kind": "range_roundtrip_dropped", "start": a, "limit": l, "delta": d, "mid": mid},
                            f"Range({a},{l},{d}) -> Cast({mid}) -> Cast({src}) optimised to a different result",
                            {"ort": res, "via": via})

    check_multi_pairs(chk, rng, 150 if not thorough else 1500)
    shape_bad = check_shape_only_ops(chk, tabs["shape_only"])
    chk.info("shape_only_ops_probe", {"operators": tabs["shape_only"], "violating": shape_bad})
    if MISSING:
        chk.info("private_helpers_not_found_behaviour_level_tie_used", sorted(MISSING))
        chk.log("private helpers not found (renamed?): " + ", ".join(sorted(MISSING)) +
                " — the behaviour-level tables (what the pass really folds) are used instead")
    for b in shape_bad:
        if "output" in b:
            range_found = True
            chk.finding({"kind": "bounds_propagated_through_value_changing_op", "op": b["op"]},
                        f"integer bounds are propagated through {b['op']}, which creates values that are not "
                        f"elements of its input", b)

    # ---- validation of the reference against the runtime (numpy conversions) --------------
    swept = validate_reference(chk, rng, thorough)
    chk.info("reference_roundtrip_sweep", swept)

    # ---- verdict for broken obligations without a concrete input -------------------------
    if not proved and not found_concrete and not range_found:
        chk.violation({"broken": getattr(chk, "broken", []),
                       "rows_outside_reference": [list(x) for x in outside][:40],
                       "bounds_rows_outside_reference": bounds_bad,
                       "build_log_tail": getattr(chk, "build_log", "")[-3000:],
                       "note": "a Lean obligation about the regenerated tables no longer checks; no value "
                               "changed by an accepted round trip was found"},
                      name="obligation-broken", no_failing_input=True)
    elif onesided and not range_found:
        chk.violation({"correspondence": "range path: real code accepts where the proven model does not",
                       "cases": onesided[:20]}, name="range-correspondence", no_failing_input=True)
    chk.assumptions += [
        "cast semantics: exact on values representable in both types (CastSem.exact)",
        "NaN payloads are not distinguished",
        "ONNX Runtime Cast agrees with numpy astype on in-range values (sampled)",
    ]
    chk.coverage["rule"] = ("tables: every (s,m) in 0..31^2 (decision) and 26^2 (rewrite probe), exhaustive; "
                            "non-trivial = accepted by code or reference. Range: box of triples + type-edge "
                            "triples + seeded large triples; non-trivial = non-empty range / accepted")
    chk.coverage["exhaustive"] = False


def range_before_after(a: int, l: int, d: int, src: int, mid: int, via: str = "none") -> Optional[dict]:
    import irtools
    opt = _opt()
    if d == 0:
        return None
    if len(range(a, l, d)) > 4096:
        return None
    try:
        before, _ = range_model(a, l, d, src, mid, via)
        after = irtools.clone_model(before)
        opt.remove_redundant_casts_ir(after.graph)
        folded = not any(n.op_type == "Cast" for n in after.graph)
        yb = irtools.run_ort(before, {})[0]
        ya = irtools.run_ort(after, {})[0]
    except Exception as e:
        return {"error": str(e)[:200]}
    return {"folded": folded, "differ": not irtools.same_array(yb, ya),
            "before": yb.reshape(-1)[:8].tolist(), "after": ya.reshape(-1)[:8].tolist()}


def validate_reference(chk: Check, rng: common.Rng, thorough: bool) -> dict:
    """For every pair the *reference* accepts, sweep the source dtype through numpy round trips:
    exhaustive for ≤16-bit sources (quick) and ≤32-bit (thorough, chunked)."""
    rows = [(s, m) for s in range(1, 27) for m in range(1, 27) if s != m and s != 8 and m != 8]
    ans = common.run_driver("C17", [f"ok {s} {m}" for s, m in rows])
    total, pairs, failures = 0, 0, []
    for (s, m), r in zip(rows, ans):
        if r != "true":
            continue
        pairs += 1
        import onnx_ir as ir
        bits = ir.DataType(s).bitwidth
        if thorough and bits == 32 and ir.DataType(s).numpy().itemsize == 4:
            n, bad = _sweep32(s, m)
        else:
            w, n = numpy_roundtrip_witness(s, m, rng, cap_bits=16)
            bad = w
        total += n
        if bad is not None:
            failures.append({"s": s, "m": m, "value": repr(bad)})
    if failures:
        # the hand-written reference itself contradicts the runtime: this is a defect of the
        # model, not of /repo -> infrastructure error, never a VIOLATION
        raise RuntimeError(f"reference accepts pairs that numpy round trips falsify: {failures[:5]}")
    return {"reference_accepted_pairs": pairs, "values_round_tripped": total,
            "mode": "exhaustive<=32bit" if thorough else "exhaustive<=16bit, structured+random above"}


def _sweep32(s: int, m: int):
    sdt, mdt = _np_dtype(s), _np_dtype(m)
    n = 0
    step = 1 << 24
    for base in range(0, 1 << 32, step):
        raw = np.arange(base, base + step, dtype=np.uint64).astype(np.uint32).view(sdt)
        with np.errstate(all="ignore"):
            back = raw.astype(mdt).astype(sdt)
        ok = _same(raw, back)
        n += len(raw)
        if not ok.all():
            return n, raw[np.nonzero(~ok)[0][0]]
    return n, None


def replay(path: str) -> int:
    import json
    rep = json.loads(open(path).read())
    print(json.dumps(rep, indent=1)[:3000])
    if "source_code" in rep:
        s, m = rep["source_code"], rep["intermediate_code"]
        print("probe_fold now:", probe_fold(s, m))
        w, _ = numpy_roundtrip_witness(s, m, common.Rng(rep.get("seed", 0)))
        print("witness now:", w)
        return 1 if (probe_fold(s, m) and w is not None) else 0
    return 0
