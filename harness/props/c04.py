"""C04 — symbolic-shape exports are correct for every binding of the symbols.

Lean (lean/J2O/Props/C04.lean), model of /repo >= 31efd88: for ALL `_DimExpr`s, bindings, memo states
  lower_correct (no proviso), floordiv_nodes_floor / ops_agree,
  cache_transparent (for keys accepted by the decidable check `keysConsistent`, which this harness
  runs on the live keys of every export), cache/call_transparent_of_faithful,
  origin_sound / origin_lookup_sound / orgSound_of_table, export_dim_correct;
  labelled regression theorems about the OLD lowering (old_div_*, old_keys_*).

Tie (H, on every run): `LowerDimExpr.__call__`, `IRContext.record_symbolic_dim_origin` and
`FunctionScope.begin` of the live /repo are wrapped; every real export of a generated program
yields, per lowering context, the chronological list of origin recordings and lowerer calls with
the LIVE `_DimExpr` objects (serialised with the very cache keys the code computes from them) and
the unfolded `dimexpr_*` chain the code emitted.  The Lean driver replays the same events through
the model (origin table + memo) and answers with its chains, its final origin table and the values
memo / no-memo / JAX of every expression on the binding lattice.  Compared: chain = chain,
table = table, Lean evalJax = live `_DimExpr._evaluate`, Lean chain value = ONNX Runtime.
Operator semantics assumed for ONNX (`Div` truncates, `Mod` follows divisor, `Pow`, `Max`, `Min`)
are compared with ONNX Runtime on a box each run.

Search / validation: every exportable program of the generator is run in ONNX Runtime on the
lattice {1,2,3,5,7}^k against eager JAX (values and run-time shapes).  A mismatch is a finding;
its class is decided with the model (real chain = model's chain value ≠ JAX, real ≠ model: unmodelled).
The three defects found earlier (floordiv truncation, factor/term key collision, jnp.concatenate
extent) are fixed in /repo (31efd88, fb42f05) and listed as `fixed`: they suppress nothing.
"""
from __future__ import annotations

import contextlib
import itertools
import json
import os
import warnings
from typing import Any, Callable, Optional

import numpy as np

warnings.filterwarnings("ignore")

import common
from common import Check

META = {
    "ready": True,
    "level": "proof",
    "technique": "Lean 4 theorems by mutual structural induction over _DimExpr (lowering = JAX value under a "
                 "floordiv proviso; memo transparent under faithful keys; origin-table invariant) with "
                 "decide-checked refutations of the two full statements; correspondence of the live "
                 "LowerDimExpr / origin recording with the model through a JSON driver; ORT-vs-JAX lattice sweep",
    "level_text": "Kernel-checked for all dimension expressions, all bindings, all memo states and all sequences "
                  "of origin recordings: lower_correct (the emitted chain, floordiv as Div(Sub(a,Mod(a,b)),b), has the "
                  "JAX value; no proviso), cache_transparent (for memo keys accepted by the decidable check "
                  "keysConsistent, run on the live keys of every export), origin_sound, export_dim_correct; over all "
                  "sequences of scope entries/exits (function bodies, Loop/If bodies): scoped_origin_sound, "
                  "scope_reuse_sound (a body reused at another call site), eval64_eq_eval (int64 side condition). Whole "
                  "programs (reshape / broadcast / concat / arange / NCHW / function and loop scopes) are validated "
                  "on the lattice {1,2,3,5,7}^k, not proved.",
    "level_note": "Partial only in the program-level part. Trusted: Lean kernel + 3 standard axioms; the "
                  "instrumentation and serialiser in harness/props/c04.py; ONNX int64 semantics relied upon — Div "
                  "truncates, Mod with fmod=0 has the sign of the divisor, Sub/Max/Min/Pow — compared with ONNX "
                  "Runtime on a box each run; no int64 overflow; a DAG equals its unfolded tree; memo keys are taken "
                  "from the live objects and the model's final memo keys are compared with the live compute_cache; "
                  "the premise of origin_sound (annotated extents are the run-time extents) is checked statically "
                  "per recording and dynamically by ORT.",
    "design_ref": "DESIGN.md §3 C04",
}

MODS = ["J2O.Props.C04", "J2O.Props.C04Scope", "J2O.Lemmas.C04"]
LATTICE = (1, 2, 3, 5, 7)


def prove_robust(chk: Check, mods, checker: bool) -> bool:
    """chk.prove, but an audit that comes back without the stated theorems (seen once under heavy load
    while other builds were running; the build itself had succeeded) is retried once and is then
    infrastructure trouble (exit 2), never a verdict about /repo."""
    def audit_trouble():
        return any(("not found by the audit" in b) or b == "audit" for b in getattr(chk, "broken", []))
    ok = chk.prove(mods, checker=checker)
    if not ok and audit_trouble():
        chk.log("Lean audit incomplete; retrying once")
        ok = chk.prove(mods, checker=checker)
        if not ok and audit_trouble():
            raise RuntimeError(f"Lean audit did not report the stated theorems (twice): {chk.broken}")
    return ok


# ----------------------------------------------------------------------------- serialisation


def key_factor(fp) -> str:
    """`LowerDimExpr._lower_factor`: memo key of a (factor, power) pair (/repo >= 31efd88)"""
    return f"factor^power:{fp}"


def key_term_coeff(tc) -> str:
    """`LowerDimExpr._lower_term_with_mult`: memo key of a (term, coeff) pair (/repo >= 31efd88)"""
    return f"term*coeff:{tc}"


def ser_expr(e: Any) -> dict:
    """live `_DimExpr` -> JSON with the cache keys `LowerDimExpr` computes for each node; a Python int
    in the lowerer's argument list is `{"int": n}` (`_lower_expr` sends it to `_get_scalar` only).
    That these ARE the keys of the running code is checked per context: the model's final memo keys
    must equal the real `compute_cache` keys."""
    if isinstance(e, (int, np.integer)):
        return {"int": int(e)}
    terms = []
    for tc in e._sorted_terms:
        term, coeff = tc
        fs = []
        for fp in term._factors:
            f, p = fp
            d: dict = {"kfp": key_factor(fp), "p": int(p)}
            if f.operation is None:
                d["var"] = str(f.var)
            else:
                d["op"] = str(f.operation)
                d["kop"] = f"{f.operation}#{tuple(f.operands)}"
                d["args"] = [ser_expr(o) if not isinstance(o, (int, np.integer)) else ser_const(int(o))
                             for o in f.operands]
            fs.append(d)
        terms.append({"ktc": key_term_coeff(tc), "kt": str(term), "c": int(coeff), "f": fs})
    return {"k": str(e), "t": terms}


def ser_const(n: int) -> dict:
    return {"k": str(n), "t": [{"ktc": f"term*coeff:(, {n})", "kt": "", "c": n, "f": []}]}


def cache_items(e: Any, out: dict) -> None:
    """key -> set of denotations (as normalised `_DimExpr` text with a kind-free meaning)."""
    if isinstance(e, (int, np.integer)):
        return
    scope = e.scope
    from jax._src.export import shape_poly as sp

    def put(key, val, kind):
        out.setdefault(key, {}).setdefault(str(val), set()).add(kind)

    put(str(e), e, "expr")
    for tc in e._sorted_terms:
        term, coeff = tc
        tval = sp._DimExpr._from_term(term, 1, scope) if term._factors else 1
        put(key_term_coeff(tc), tval * coeff, "term_coeff")
        if term._factors:
            put(str(term), tval, "term")
        for fp in term._factors:
            f, p = fp
            fval = sp._DimExpr._from_term(sp._DimTerm.from_factor(f, 1), 1, scope)
            put(key_factor(fp), fval ** p, "factor_power")
            if f.operation is not None:
                put(f"{f.operation}#{tuple(f.operands)}", fval, "op")
                for o in f.operands:
                    cache_items(o, out)
            else:
                put(str(f.var), fval, "var")


def unsafe_floordivs(e: Any, env: dict) -> list:
    """floordiv sub-terms whose truncating and flooring quotients differ under `env`."""
    res = []
    if isinstance(e, (int, np.integer)):
        return res
    for term, _ in e._sorted_terms:
        for f, _p in term._factors:
            if f.operation is None:
                continue
            for o in f.operands:
                res += unsafe_floordivs(o, env)
            if f.operation == "floordiv":
                a, b = (int(o._evaluate(env)) if not isinstance(o, int) else int(o) for o in f.operands)
                if b != 0 and (a // b) != int(a / b) and a % b != 0:
                    res.append({"floordiv": str(f), "numerator": a, "denominator": b})
    return res


# ----------------------------------------------------------------------------- instrumentation


def render_tree(v: Any, names: "Names") -> str:
    """Unfold the producer chain of an ir.Value into the text `IntProg.render` prints."""
    p = v.producer()
    if p is None or p.op_type == "Constant":
        if p is None:
            cv = v.const_value
            if cv is None:
                return f"IN({names.of(v)})"
            arr = cv.numpy()
        else:
            arr = p.attributes["value"].value.numpy()
        arr = np.asarray(arr).reshape(-1)
        return str(int(arr[0])) if arr.size == 1 else "C" + str(arr.tolist())
    if p.op_type == "Shape":
        st = p.attributes["start"].value if "start" in p.attributes else None
        en = p.attributes["end"].value if "end" in p.attributes else None
        if st is None or en is None or en != st + 1:
            return f"ShapeSlice({names.of(p.inputs[0])},{st},{en})"
        return f"S({names.of(p.inputs[0])},{st})"
    return p.op_type + "(" + ",".join(render_tree(i, names) for i in p.inputs) + ")"


class Names:
    def __init__(self):
        self.m: dict[int, str] = {}
        self.keep: list = []

    def of(self, v: Any) -> str:
        k = id(v)
        if k not in self.m:
            self.m[k] = str(v.name)
            self.keep.append(v)
        return self.m[k]


class Instr:
    """Wraps the live classes; collects per lowering context the event list of one export."""

    def __init__(self):
        self.sessions: dict[int, dict] = {}
        self.order: list[int] = []
        self.names = Names()
        self.expr_of_key: dict[str, Any] = {}
        self.static_mismatch: list = []
        # the scope machine (Model/C04Scope.lean): live contexts innermost last, the operations seen so far,
        # and the live table of a context at the moments it is created / left
        self.stack: list[int] = []
        self.ctx_of: dict[int, Any] = {}
        self.left: set = set()
        self.sops: list = []
        self.snaps: list = []
        self.non_stack: Optional[str] = None

    # ---- scope machine bookkeeping -----------------------------------------------------------
    def _live_table(self, ctx: Any) -> list:
        return sorted([key, self.names.of(o.value), int(o.axis)] for key, o in ctx._sym_origin_str.items())

    def _snap(self, k: int, what: str) -> None:
        self.sops.append({"o": "snap", "id": len(self.snaps)})
        self.snaps.append({"ctx": k, "what": what, "live": self._live_table(self.ctx_of[k])})

    def _pop(self) -> None:
        k = self.stack.pop()
        self._snap(k, "left")
        self.sops.append({"o": "exit"})
        self.left.add(k)

    def _touch(self, ctx: Any) -> None:
        """an operation happens in `ctx`: contexts above it on the stack are finished; an unknown context is a
        sub-graph context (`make_subgraph_context`): a copy of the innermost live context whose table it holds"""
        k = id(ctx)
        self.ctx_of[k] = ctx
        if k in self.stack:
            while self.stack[-1] != k:
                self._pop()
            return
        if k in self.left:
            self.non_stack = self.non_stack or "a finished context became active again"
        if not self.stack:
            if ctx._sym_origin_str:
                self.non_stack = self.non_stack or "the first context starts with a non-empty table"
            self.stack.append(k)
            return
        init = self._live_table(ctx)
        for depth in range(len(self.stack) - 1, -1, -1):
            if self._live_table(self.ctx_of[self.stack[depth]]) == init:
                while len(self.stack) - 1 > depth:
                    self._pop()
                break
        self.sops.append({"o": "sub"})
        self.stack.append(k)
        self._snap(k, "created")

    def _finish(self) -> None:
        while self.stack:
            self._pop()

    def _sess(self, ctx: Any) -> dict:
        k = id(ctx)
        if k not in self.sessions:
            init = [[key, self.names.of(o.value), int(o.axis),
                     ser_expr(self.expr_of_key[key]) if key in self.expr_of_key else None]
                    for key, o in ctx._sym_origin_str.items()]
            self.sessions[k] = {"ctx": ctx, "events": [{"ev": "init", "table": init}] if init else [],
                                "real_trees": [], "live": []}
            self.order.append(k)
        return self.sessions[k]

    def _dim_entry(self, dim: Any, axis: int) -> list:
        if isinstance(dim, (int, np.integer)):
            return [None, int(axis), None]
        key = str(dim)
        if hasattr(dim, "_sorted_terms"):
            self.expr_of_key[key] = dim
        live = dim if hasattr(dim, "_sorted_terms") else self.expr_of_key.get(key)
        return [key, int(axis), ser_expr(live) if live is not None else None]

    def __enter__(self):
        import jax2onnx.converter.lower_dimexpr as L
        import jax2onnx.converter.ir_context as C
        import jax2onnx.converter.function_scope as F
        self._L, self._C, self._F = L, C, F
        self._orig_call = L.LowerDimExpr.__call__
        self._orig_rec = C.IRContext.record_symbolic_dim_origin
        self._orig_begin = F.FunctionScope.begin
        self._orig_end = F.FunctionScope.end
        me = self

        def call(lowerer, exprs):
            me._touch(lowerer.ctx)
            s = me._sess(lowerer.ctx)
            s["lowerer"] = lowerer
            res = me._orig_call(lowerer, exprs)
            exprs = list(exprs)
            pos = [i for i, e in enumerate(exprs) if hasattr(e, "_sorted_terms") or isinstance(e, (int, np.integer))]
            if len(exprs) == 1:
                vals = [res]
            else:
                prod = res.producer()
                vals = list(prod.inputs) if prod is not None and prod.op_type == "Concat" else [None] * len(exprs)
            trees = [render_tree(vals[i], me.names) if vals[i] is not None else "?" for i in pos]
            s["events"].append({"ev": "call", "exprs": [ser_expr(exprs[i]) for i in pos]})
            s["real_trees"].append(trees)
            s["live"].append([exprs[i] for i in pos])
            return res

        def rec(ctx, dim, value, axis):
            me._touch(ctx)
            s = me._sess(ctx)
            me._orig_rec(ctx, dim, value, axis)
            ent = me._dim_entry(dim, axis)
            me.sops.append({"o": "record", "v": me.names.of(value), "dims": [[ent[0], ent[1]]]})
            prod = value.producer()
            s["events"].append({"ev": "bind", "v": me.names.of(value), "dims": [ent],
                                "producer": prod.op_type if prod is not None else "graph_input"})
            # premise of origin_sound, static part: the value's own annotation at that axis
            if ent[0] is not None:
                try:
                    ann = value.shape[int(axis)] if value.shape is not None else None
                    lab = None if ann is None else (int(ann) if isinstance(ann, int) else str(getattr(ann, "value", ann)))
                    if lab not in (None, "None", "") and str(lab) != ent[0]:
                        me.static_mismatch.append({"value": me.names.of(value), "axis": int(axis),
                                                   "recorded": ent[0], "annotated": str(lab)})
                except Exception:
                    pass

        def begin(scope, inputs):
            parent = scope.parent
            me._touch(parent)
            ptab = [[key, me.names.of(o.value), int(o.axis)] for key, o in parent._sym_origin_str.items()]
            fins = me._orig_begin(scope, inputs)
            s = me._sess(scope.ctx)
            s["function"] = (str(getattr(scope, "domain", "")), str(getattr(scope, "name", "")))
            # the child table was written directly; our `init` snapshot (taken after) must not count twice
            s["events"] = [e for e in s["events"] if e["ev"] != "init"]
            for fin, vin in zip(fins, inputs):
                dims = tuple(vin.shape.dims) if vin.shape is not None else ()
                ents = []
                for axis, dim in enumerate(dims):
                    if isinstance(dim, (int, np.integer)):
                        ents.append([None, axis, None])
                    else:
                        key = str(dim)
                        live = me.expr_of_key.get(key)
                        ents.append([key, axis, ser_expr(live) if live is not None else None])
                s["events"].append({"ev": "scope", "parent": ptab, "fin": me.names.of(fin), "dims": ents})
            # scope machine: a new context; its table is what `begin` made of the parent's
            ck = id(scope.ctx)
            me.ctx_of[ck] = scope.ctx
            me.sops.append({"o": "enter", "ins": [{"fin": e["fin"], "dims": [[d[0], d[1]] for d in e["dims"]]}
                                                  for e in s["events"] if e["ev"] == "scope"]})
            me.stack.append(ck)
            me._snap(ck, "begin")
            # static premise: a function input re-bound as the origin of a dim is annotated with that dim
            for key, o in scope.ctx._sym_origin_str.items():
                try:
                    ann = o.value.shape[int(o.axis)] if o.value.shape is not None else None
                    lab = None if ann is None else (int(ann) if isinstance(ann, int) else str(getattr(ann, "value", ann)))
                    if lab not in (None, "None", "") and str(lab) != key:
                        me.static_mismatch.append({"value": me.names.of(o.value), "axis": int(o.axis),
                                                   "recorded": key, "annotated": str(lab)})
                except Exception:
                    pass
            return fins

        def end(scope, *a, **kw):
            if id(scope.ctx) in me.stack:
                me._touch(scope.ctx)
                me._pop()
            return me._orig_end(scope, *a, **kw)

        L.LowerDimExpr.__call__ = call
        C.IRContext.record_symbolic_dim_origin = rec
        F.FunctionScope.begin = begin
        F.FunctionScope.end = end
        return self

    def __exit__(self, *a):
        self._L.LowerDimExpr.__call__ = self._orig_call
        self._C.IRContext.record_symbolic_dim_origin = self._orig_rec
        self._F.FunctionScope.begin = self._orig_begin
        self._F.FunctionScope.end = self._orig_end
        self._finish()
        return False

    def real_tables(self) -> dict[int, list]:
        out = {}
        for k, s in self.sessions.items():
            ctx = s["ctx"]
            out[k] = sorted([key, self.names.of(o.value), int(o.axis)] for key, o in ctx._sym_origin_str.items())
        return out


# ----------------------------------------------------------------------------- programs


class Prog:
    def __init__(self, name: str, fn: Callable, specs: list, syms: list[str], make_inputs: Callable,
                 ref: Optional[Callable] = None, kwargs: Optional[dict] = None, kind: str = "template",
                 feed_perm: Optional[dict] = None):
        self.name, self.fn, self.specs, self.syms = name, fn, specs, syms
        self.make_inputs, self.ref, self.kwargs, self.kind = make_inputs, ref, kwargs or {}, kind
        self.feed_perm = feed_perm or {}


def _arr(shape, salt=0):
    n = int(np.prod(shape)) if len(shape) else 1
    return ((np.arange(n, dtype=np.float32) * 3 + salt) % 11 - 4).reshape(shape)


def _concrete(spec, b):
    return tuple(b[d] if isinstance(d, str) else d for d in spec)


def std_inputs(specs):
    def mk(b):
        return [_arr(_concrete(s, b), i) for i, s in enumerate(specs)]
    return mk


# --- dimension-expression programs -------------------------------------------------------


def ev_ast(a, dims):
    from jax._src import core as jc
    k = a[0]
    if k == "sym":
        return dims[a[1]]
    if k == "const":
        return a[1]
    if k == "pow":
        return ev_ast(a[1], dims) ** a[2]
    x, y = ev_ast(a[1], dims), ev_ast(a[2], dims)
    if k == "add":
        return x + y
    if k == "sub":
        return x - y
    if k == "mul":
        return x * y
    if k == "fdiv":
        return x // y
    if k == "mod":
        return x % y
    if k == "max":
        return jc.max_dim(x, y)
    if k == "min":
        return jc.min_dim(x, y)
    raise ValueError(k)


def show_ast(a, syms):
    k = a[0]
    if k == "sym":
        return syms[a[1]]
    if k == "const":
        return str(a[1])
    if k == "pow":
        return f"({show_ast(a[1], syms)})**{a[2]}"
    op = {"add": "+", "sub": "-", "mul": "*", "fdiv": "//", "mod": "%"}.get(k)
    if op:
        return f"({show_ast(a[1], syms)} {op} {show_ast(a[2], syms)})"
    return f"{k}({show_ast(a[1], syms)}, {show_ast(a[2], syms)})"


def gen_ast(rng: common.Rng, nsym: int, depth: int):
    S = lambda: ("sym", rng.randint(0, nsym - 1))
    C = lambda lo=1, hi=5: ("const", rng.randint(lo, hi))
    if depth <= 0:
        return S() if rng.chance(0.75) else C(0, 6)
    pat = rng.choice(["add", "sub", "mul", "mul", "fdiv", "fdiv", "mod", "max", "min", "pow", "negnum", "collide",
                      "share", "leaf"])
    sub = lambda: gen_ast(rng, nsym, depth - 1)
    if pat in ("add", "sub", "mul", "max", "min"):
        return (pat, sub(), sub())
    if pat == "fdiv":
        den = rng.choice([C(1, 4), C(2, 3), S(), ("add", S(), C(1, 2)), ("const", -2)])
        return ("fdiv", sub(), den)
    if pat == "mod":
        den = rng.choice([C(2, 4), S(), ("add", S(), C(1, 2)), ("const", -3)])
        return ("mod", sub(), den)
    if pat == "pow":
        return ("pow", sub(), rng.randint(2, 3))
    if pat == "negnum":      # numerator that is negative for small sizes
        return ("fdiv", ("sub", sub(), C(2, 9)), C(2, 4))
    if pat == "collide":     # f^k + k*f
        f = rng.choice([S(), ("fdiv", S(), C(2, 3)), ("max", S(), S())])
        k = rng.randint(2, 3)
        t = ("add", ("pow", f, k), ("mul", ("const", k), f))
        return t if rng.chance(0.5) else ("add", ("mul", t, S()), C())
    if pat == "share":       # the same sub-expression twice
        s = sub()
        return ("mul", ("add", s, C()), ("add", s, S()))
    return S()


def dim_program(name: str, asts: list, nsym: int, rng: common.Rng, layout: Optional[list] = None,
                rebind: bool = False) -> Prog:
    syms = ["B", "N", "K"][:nsym]
    # where each symbol sits in its input: (rank, axis)
    layout = layout or [rng.choice([(1, 0), (2, 0), (2, 1), (3, 1)]) for _ in range(nsym)]
    specs = []
    for i, (rank, axis) in enumerate(layout):
        shp: list = [2 + j for j in range(rank)]
        shp[axis] = syms[i]
        specs.append(tuple(shp))

    def fn(*xs):
        import jax.numpy as jnp
        from jax._src import core as jc
        if rebind:
            xs = [x * 2.0 for x in xs]          # origins move to the latest value with that dim
        dims = [x.shape[layout[i][1]] for i, x in enumerate(xs)]
        vals = [jnp.asarray(jc.dimension_as_value(ev_ast(a, dims))).astype(jnp.int32) for a in asts]
        out = jnp.stack(vals)
        if rebind:
            return out, sum(x.sum() for x in xs)
        return out

    p = Prog(name, fn, specs, syms, std_inputs(specs), kind="dimexpr")
    p.asts = asts
    p.text = [show_ast(a, syms) for a in asts]
    return p


# --- template programs ---------------------------------------------------------------------


def template_programs() -> list[Prog]:
    """Curated symbolic-shape programs. `fn(xp, *xs)` is written against the array namespace so that
    numpy gives an independent reference on the whole lattice; eager JAX is the oracle on a sub-lattice."""
    T: list[Prog] = []

    def add(name, specs, body, **kw):
        syms = []
        for s in specs:
            for d in s:
                if isinstance(d, str) and d not in syms:
                    syms.append(d)

        def fn(*xs):
            import jax.numpy as jnp
            return body(jnp, *xs)

        def ref(*xs):
            return body(np, *xs)

        T.append(Prog(name, fn, specs, syms, std_inputs(specs), ref=ref, **kw))

    add("reshape_flatten", [("B", "N")], lambda xp, x: x.reshape((x.shape[0] * x.shape[1],)) * 2)
    add("reshape_merge_last", [("B", "N", 2)], lambda xp, x: x.reshape((x.shape[0], 2 * x.shape[1])))
    add("reshape_split_const", [("B", 4)], lambda xp, x: x.reshape((2 * x.shape[0], 2)))
    add("reshape_swap_BN", [("B", "N")], lambda xp, x: x.reshape((x.shape[1], x.shape[0])))
    add("reshape_minus1", [("B", "N")], lambda xp, x: x.reshape((-1,)))
    add("reshape_BN_3", [("B", "N", 3)], lambda xp, x: x.reshape((x.shape[0] * x.shape[1], 3)).sum(axis=1))
    add("reshape_add_dims", [("B", 2), ("N", 2)],
        lambda xp, x, y: xp.concatenate([x, y], axis=0).reshape((2, x.shape[0] + y.shape[0])))
    add("arange_B", [("B",)], lambda xp, x: xp.arange(x.shape[0]))
    add("arange_BN_plus", [("B",), ("N",)], lambda xp, x, y: xp.arange(x.shape[0] * y.shape[0] + 1))
    add("arange_half", [("B",)], lambda xp, x: xp.arange((x.shape[0] + 1) // 2))
    add("arange_mod", [("B",), ("N",)], lambda xp, x, y: xp.arange(x.shape[0] % 3 + y.shape[0]))
    add("bcast_B1_1N", [("B", 1), (1, "N")], lambda xp, x, y: x + y)
    add("bcast_BN_N", [("B", "N"), ("N",)], lambda xp, x, y: x * y)
    add("bcast_to", [("B", 2), ("N",)], lambda xp, x, y: xp.broadcast_to(y, (x.shape[0], y.shape[0])) + x[:, :1])
    add("bcast_B1K_N1", [("B", 1, "K"), ("N", 1)], lambda xp, x, y: x * y)
    add("outer", [("B",), ("N",)], lambda xp, x, y: x[:, None] * y[None, :])
    add("concat_axis0", [("B", 3), ("N", 3)], lambda xp, x, y: xp.concatenate([x, y], axis=0).sum(axis=1))
    add("concat_axis1", [("B", "N"), ("B", "K")], lambda xp, x, y: xp.concatenate([x, y], axis=1))
    add("concat_self", [("B", 2)], lambda xp, x: xp.concatenate([x, x * 2, x], axis=0))
    add("zeros_NB_plus_T", [("B", "N")], lambda xp, x: xp.zeros((x.shape[1], x.shape[0]), dtype=x.dtype) + x.T)
    add("full_NB", [("B",), ("N",)], lambda xp, x, y: xp.full((y.shape[0], x.shape[0]), 2.0, dtype=x.dtype) * x[None, :])
    add("ones_B_times_arange_N", [("B",), ("N",)],
        lambda xp, x, y: xp.ones((x.shape[0], 1), dtype=x.dtype) * xp.arange(y.shape[0], dtype=x.dtype)[None, :])
    # two data-dependent extents in one graph: their annotations must not name one and the same dim
    add("arange_two_lengths", [("B",), ("N",)],
        lambda xp, x, y: (xp.arange(3 * x.shape[0], dtype=x.dtype) * 2,
                          xp.arange(x.shape[0] + 2 * y.shape[0], dtype=x.dtype) * 2))
    add("tile2", [("B",)], lambda xp, x: xp.tile(x, 2))
    add("mean_axis0", [("B", "N")], lambda xp, x: x.sum(axis=0) / x.shape[0])
    add("scale_by_dims", [("B", "N")], lambda xp, x: x * (x.shape[0] * 10 + x.shape[1]))
    add("transpose_matmul", [("B", "N"), ("N", "K")], lambda xp, x, y: x @ y)
    add("expand_dims_sum", [("N", "B")], lambda xp, x: (x[None, :, :] + x.T[:, None, :1].T).sum(axis=0))
    # NCHW input: the origins of H and W are axes 2, 3 of the transposed graph input
    add("nchw_dims", [("B", "H", "W", 3)],
        lambda xp, x: x.sum(axis=(1, 2)) + (x.shape[1] * 100 + x.shape[2] * 10 + x.shape[0]),
        kwargs={"inputs_as_nchw": [0]}, feed_perm={0: (0, 3, 1, 2)})
    return T


def corpus_programs(rng: common.Rng) -> list[Prog]:
    """Always run: the two refutation witnesses of Props/C04.lean on the real code + neighbours."""
    B, N = ("sym", 0), ("sym", 1)
    c = lambda k: ("const", k)
    P = [
        dim_program("witness_floordiv", [("add", ("fdiv", ("sub", B, c(5)), c(2)), c(10))], 1, rng, [(1, 0)]),
        dim_program("witness_cachekey", [("add", ("mul", B, B), ("mul", c(2), B))], 1, rng, [(1, 0)]),
        dim_program("safe_floordiv", [("fdiv", ("add", ("mul", B, N), c(3)), c(2))], 2, rng, [(1, 0), (2, 0)]),
        dim_program("axis1_origin", [("add", ("mul", B, c(10)), N)], 2, rng, [(2, 1), (3, 1)]),
        dim_program("two_calls_share_memo", [("add", ("mul", B, N), c(1)), ("mul", ("add", ("mul", B, N), c(1)), B),
                                            ("mod", ("mul", B, N), c(3))], 2, rng, [(1, 0), (1, 0)]),
        dim_program("rebind_origin", [("sub", ("mul", B, c(3)), N), ("max", B, N)], 2, rng, [(2, 0), (2, 1)],
                    rebind=True),
        dim_program("cube_collision", [("add", ("pow", N, 3), ("mul", c(3), N))], 2, rng, [(1, 0), (1, 0)]),
        dim_program("minmax_mod", [("sub", ("max", B, N), ("mod", B, c(3))), ("min", ("mul", B, c(2)), ("add", N, c(3)))],
                    2, rng, [(1, 0), (2, 1)]),
        dim_program("neg_denominator", [("fdiv", ("add", B, N), c(-2))], 2, rng, [(1, 0), (1, 0)]),
    ]

    def arange_fd(x):
        import jax.numpy as jnp
        return jnp.arange((x.shape[0] - 5) // 2 + 10)

    P.append(Prog("arange_witness_floordiv", arange_fd, [("B",)], ["B"], std_inputs([("B",)]),
                  ref=lambda x: np.arange((x.shape[0] - 5) // 2 + 10), kind="template"))

    def arange_ck(x):
        import jax.numpy as jnp
        return jnp.arange(x.shape[0] * x.shape[0] + 2 * x.shape[0])

    P.append(Prog("arange_witness_cachekey", arange_ck, [("B",)], ["B"], std_inputs([("B",)]),
                  ref=lambda x: np.arange(x.shape[0] * x.shape[0] + 2 * x.shape[0]), kind="template"))
    P += scoped_programs()
    return P


_SCOPED: list = []


def scoped_programs() -> list[Prog]:
    """Dimension arithmetic inside an ONNX function scope and inside Loop bodies (child contexts:
    `FunctionScope.begin` re-binds origins to the function inputs, control-flow bodies inherit them)."""
    if _SCOPED:
        return list(_SCOPED)
    import jax.numpy as jnp
    from jax import lax
    from jax._src import core as jc
    from jax2onnx import onnx_function

    def dimval(e, like):
        return jnp.asarray(jc.dimension_as_value(e)).astype(like.dtype)

    @onnx_function
    def verif_c04_inner(x):
        return x.reshape((x.shape[0] * x.shape[1],)) * dimval(x.shape[1] * 3 + x.shape[0], x)

    # the function plugin patches `getattr(module, fn.__name__)`: it must be a module attribute
    # (a function that is not one leaves every later export failing — C13's finding, not ours)
    verif_c04_inner.__qualname__ = "verif_c04_inner"
    globals()["verif_c04_inner"] = verif_c04_inner

    def fn_scope(x):
        return globals()["verif_c04_inner"](x * 2.0) + 1.0

    def fori_body_dims(x, y):
        def body(i, c):
            return c + dimval(x.shape[0] * 2 + y.shape[0], c)
        return lax.fori_loop(0, 3, body, jnp.zeros((), jnp.float32)) + x.sum() + y.sum()

    def scan_body_dims(x, y):
        def step(c, row):
            return c + row.sum() * (x.shape[0] + 10 * y.shape[1]), row * 2
        c, ys = lax.scan(step, jnp.zeros((), jnp.float32), y)
        return c + x.sum(), ys

    for name, f, specs, syms in [("fn_scope_dims", fn_scope, [("B", "N")], ["B", "N"]),
                                 ("fori_body_dims", fori_body_dims, [("B",), ("N",)], ["B", "N"]),
                                 ("scan_body_dims", scan_body_dims, [("B",), (3, "N")], ["B", "N"])]:
        _SCOPED.append(Prog(name, f, specs, syms, std_inputs(specs), kind="scoped"))
    return list(_SCOPED)


_FNREUSE: dict = {}

FNREUSE_BODIES = ("grid", "dimval", "outer_flat", "arange", "nested", "loop")
# each pattern = the argument pairs of successive call sites of ONE function; x:(B,), y:(N,), z:(K,).  The FIRST call site
# is the one whose trace becomes the function body, so both orders are generated: a body traced where two extents were
# one symbol must not serve a site where they are two, and vice versa
FNREUSE_PATTERNS = ("xx_xy", "xy_xx", "xx_yy", "yx_xy", "yy_xy_xx", "xy_yx_yy", "xx_yz", "zz_xy_yz")


def _define_scope_functions() -> dict:
    """@onnx_function bodies whose lowering READS run-time extents of BOTH arguments (broadcast target, dim_as_value,
    reshape target, arange length, a nested call, a Loop body); module attributes, because the function plugin
    patches `getattr(module, fn.__name__)`."""
    if _FNREUSE:
        return _FNREUSE
    import jax.numpy as jnp
    from jax import lax
    from jax._src import core as jc
    from jax2onnx import onnx_function
    G = globals()

    def dimval(e, like):
        return jnp.asarray(jc.dimension_as_value(e)).astype(like.dtype)

    def verif_c04_grid(a, b):
        return jnp.broadcast_to(a[:, None], (a.shape[0], b.shape[0])) * jnp.sum(b)

    def verif_c04_dimval(a, b):
        return a.sum() * dimval(a.shape[0] * 10 + b.shape[0], a) + b.sum()

    def verif_c04_outer_flat(a, b):
        return (a[:, None] * b[None, :]).reshape((a.shape[0] * b.shape[0],))

    def verif_c04_arange(a, b):
        return jnp.arange(a.shape[0] + 2 * b.shape[0], dtype=a.dtype) * a.sum()

    def verif_c04_nested(a, b):
        return G["verif_c04_grid"](a, b).sum() + G["verif_c04_grid"](b, b).sum() + G["verif_c04_dimval"](b, a)

    def verif_c04_loop(a, b):
        def body(i, c):
            return c + dimval(a.shape[0] * 3 + b.shape[0], c)
        return lax.fori_loop(0, 2, body, jnp.zeros((), jnp.float32)) + a.sum()

    def verif_c04_mat(a):
        return a.reshape((a.shape[0] * a.shape[1],)) * dimval(a.shape[0] * 10 + a.shape[1], a)

    def verif_c04_nhwc(a):
        return a.sum(axis=(1, 2)) * dimval(a.shape[1] * 100 + a.shape[2] * 10 + a.shape[0], a)

    for f in (verif_c04_grid, verif_c04_dimval, verif_c04_outer_flat, verif_c04_arange, verif_c04_nested,
              verif_c04_loop, verif_c04_mat, verif_c04_nhwc):
        f.__qualname__ = f.__name__
        w = onnx_function(f)
        G[f.__name__] = w
        _FNREUSE[f.__name__[len("verif_c04_"):]] = f.__name__
    return _FNREUSE


def fnreuse_program(body: str, pattern: str) -> Prog:
    """one @onnx_function called at several sites whose arguments differ only in the PATTERN of symbols"""
    _define_scope_functions()
    G = globals()
    sites = pattern.split("_")
    letters = sorted({c for s in sites for c in s})
    sym_of = {"x": "B", "y": "N", "z": "K"}
    specs = [(sym_of[c],) for c in letters]
    syms = [sym_of[c] for c in letters]

    def fn(*xs):
        env = dict(zip(letters, xs))
        g = G["verif_c04_" + body]
        return tuple(g(env[s[0]], env[s[1]]) for s in sites)

    return Prog(f"fnreuse_{body}_{pattern}", fn, specs, syms, std_inputs(specs), kind="scoped")


def scope_identity_programs(rng: common.Rng, thorough: bool) -> list[Prog]:
    """Symbol identity across scoping mechanisms: function reuse across call sites with different symbol
    patterns, nested functions, Loop / If bodies, NCHW inputs feeding a function."""
    import jax.numpy as jnp
    from jax import lax
    from jax._src import core as jc
    _define_scope_functions()
    G = globals()
    combos = [(b, p) for b in FNREUSE_BODIES for p in FNREUSE_PATTERNS]
    if thorough:
        pick = combos
    else:
        # every body and every pattern at least once, the identifying-first patterns for every body
        pick = [(b, "xx_xy") for b in FNREUSE_BODIES]
        rest = [c for c in combos if c not in pick]
        pick += [(FNREUSE_BODIES[i % len(FNREUSE_BODIES)], p) for i, p in enumerate(FNREUSE_PATTERNS[1:])]
        pick += [c for c in rng.sample(rest, 4) if c not in pick]
    P = [fnreuse_program(b, p) for b, p in pick]

    def dimval(e, like):
        return jnp.asarray(jc.dimension_as_value(e)).astype(like.dtype)

    def mat_square_then_rect(x, y):       # (B,B) first, (B,N) second: axis pattern inside ONE argument
        return G["verif_c04_mat"](x), G["verif_c04_mat"](y)

    def mat_rect_then_T(x):               # (B,N) then (N,B)
        return G["verif_c04_mat"](x), G["verif_c04_mat"](x.T)

    def cond_dims(x, y):                  # If bodies read B and N
        return lax.cond(x.sum() > 0, lambda: dimval(x.shape[0] * 10 + y.shape[0], x),
                        lambda: dimval(y.shape[0] * 7 - x.shape[0], x))

    def loop_in_loop_dims(x, y):          # nested Loop bodies inherit the origins of both symbols
        def outer(i, c):
            def inner(j, d):
                return d + dimval(x.shape[0] * 5 + y.shape[0], d)
            return lax.fori_loop(0, 2, inner, c) + dimval(y.shape[0], c)
        return lax.fori_loop(0, 2, outer, jnp.zeros((), jnp.float32)) + x.sum() * y.sum()

    def nchw_fn(x):                       # NCHW graph input -> transposed value -> function input
        return G["verif_c04_nhwc"](x)

    P.append(Prog("fn_mat_square_then_rect", mat_square_then_rect, [("B", "B"), ("B", "N")], ["B", "N"],
                  std_inputs([("B", "B"), ("B", "N")]), kind="scoped"))
    P.append(Prog("fn_mat_rect_then_T", mat_rect_then_T, [("B", "N")], ["B", "N"], std_inputs([("B", "N")]),
                  kind="scoped"))
    P.append(Prog("cond_body_dims", cond_dims, [("B",), ("N",)], ["B", "N"], std_inputs([("B",), ("N",)]),
                  kind="scoped"))
    P.append(Prog("loop_in_loop_dims", loop_in_loop_dims, [("B",), ("N",)], ["B", "N"],
                  std_inputs([("B",), ("N",)]), kind="scoped"))
    P.append(Prog("nchw_into_function", nchw_fn, [("B", "H", "W", 3)], ["B", "H", "W"],
                  std_inputs([("B", "H", "W", 3)]), kind="scoped", kwargs={"inputs_as_nchw": [0]},
                  feed_perm={0: (0, 3, 1, 2)}))
    return P


def ast_max_abs(a, dims) -> int:
    """largest magnitude of any sub-expression under a concrete binding (Python ints)"""
    k = a[0]
    if k in ("sym", "const"):
        return abs(ev_ast(a, dims))
    subs = [x for x in a[1:] if isinstance(x, tuple)]
    try:
        here = abs(ev_ast(a, dims))
    except ZeroDivisionError:
        return 1 << 62
    return max([here] + [ast_max_abs(x, dims) for x in subs])


def int32_safe(a, nsym: int) -> bool:
    """dimension values are int32 in JAX (x64 off) and in the exported dim_as_value output: keep every
    sub-expression far below 2^31 on the whole lattice (the trusted-base assumption 'no overflow')"""
    for p in itertools.product((1, 7), repeat=nsym):
        if ast_max_abs(a, list(p)) >= (1 << 24):
            return False
    return True


def random_programs(rng: common.Rng, n: int) -> list[Prog]:
    out = []
    for i in range(n):
        nsym = rng.choice([1, 2, 2, 3])
        nexpr = rng.choice([1, 2, 3])
        asts = []
        while len(asts) < nexpr:
            a = gen_ast(rng, nsym, rng.choice([1, 2, 2, 3]))
            if int32_safe(a, nsym):
                asts.append(a)
        out.append(dim_program(f"rand{i}", asts, nsym, rng, rebind=rng.chance(0.25)))
    return out


def all_programs(rng: common.Rng, thorough: bool) -> list[Prog]:
    """the generator of `run` and `replay` (one PRNG; the scope families come last so that the
    programs generated before them are the same as before)"""
    progs = corpus_programs(rng) + template_programs() + random_programs(rng, 40 if not thorough else 400)
    return progs + scope_identity_programs(rng, thorough)


# ----------------------------------------------------------------------------- execution helpers


def lattice(k: int, limit: Optional[int] = None, rng: Optional[common.Rng] = None) -> list[tuple]:
    pts = list(itertools.product(LATTICE, repeat=k))
    if limit is not None and len(pts) > limit:
        must = [p for p in pts if len(set(p)) == 1][:3] + [tuple(LATTICE[(i + j) % 5] for j in range(k)) for i in range(3)]
        rest = [p for p in pts if p not in must]
        pts = must + (rng.sample(rest, limit - len(must)) if rng else rest[: limit - len(must)])
    return pts


def ort_session(model):
    import onnxruntime as ort
    so = ort.SessionOptions()
    so.log_severity_level = 4
    so.intra_op_num_threads = 1
    so.inter_op_num_threads = 1
    so.graph_optimization_level = ort.GraphOptimizationLevel.ORT_DISABLE_ALL
    return ort.InferenceSession(model.SerializeToString(), so, providers=["CPUExecutionProvider"])


def feeds_for(sess, prog: Prog, xs: list) -> dict:
    feeds = {}
    for i, (inp, x) in enumerate(zip(sess.get_inputs(), xs)):
        feeds[inp.name] = np.ascontiguousarray(x.transpose(prog.feed_perm[i])) if i in prog.feed_perm else x
    return feeds


def run_ort_prog(sess, prog: Prog, binding: dict):
    xs = prog.make_inputs(binding)
    return xs, sess.run(None, feeds_for(sess, prog, xs))


def as_list(r):
    if isinstance(r, (tuple, list)):
        return [np.asarray(v) for v in r]
    return [np.asarray(r)]


def same_result(a: np.ndarray, b: np.ndarray) -> bool:
    a, b = np.asarray(a), np.asarray(b)
    if a.shape != b.shape:
        return False
    if a.dtype.kind in "iub" and b.dtype.kind in "iub":
        return bool(np.array_equal(a.astype(np.int64), b.astype(np.int64)))
    return bool(np.allclose(a.astype(np.float64), b.astype(np.float64), rtol=1e-5, atol=1e-5))


def export(prog: Prog):
    from jax2onnx import to_onnx
    with Instr() as ins:
        model = to_onnx(prog.fn, list(prog.specs), **prog.kwargs)
    return model, ins


# ----------------------------------------------------------------------------- the check


OPS_PAIRS = [[a, b] for a in range(-7, 8) for b in range(-7, 8) if b != 0]
OPS_POW = [[a, b] for a in range(-5, 6) for b in range(0, 5)]


def op_semantics_requests() -> list:
    return [json.dumps({"op": "ops", "pairs": OPS_PAIRS}), json.dumps({"op": "ops", "pairs": OPS_POW})]


def check_op_semantics(chk: Check, answers: list) -> None:
    """ONNX int64 Div/Mod/Max/Min/Pow as modelled in Lean vs ONNX Runtime; Python // and % vs Lean fdiv/fmod."""
    import onnx
    from onnx import helper, TensorProto
    pairs = OPS_PAIRS
    ans = json.loads(answers[0])
    A = np.array([p[0] for p in pairs], dtype=np.int64)
    Bv = np.array([p[1] for p in pairs], dtype=np.int64)
    bad = []
    def two_in(nodes, out="c"):
        g = helper.make_graph(nodes, "g",
                              [helper.make_tensor_value_info("a", TensorProto.INT64, [None]),
                               helper.make_tensor_value_info("b", TensorProto.INT64, [None])],
                              [helper.make_tensor_value_info(out, TensorProto.INT64, [None])])
        m = helper.make_model(g, opset_imports=[helper.make_opsetid("", 21)], ir_version=10)
        return ort_session(m).run(None, {"a": A, "b": Bv})[0].tolist()
    # the primitive facts the theorems rely on: integer Div truncates; integer Mod with the default
    # fmod=0 has the sign of the divisor; Sub/Max/Min are the integer operations
    for op, key in (("Div", "tdiv"), ("Mod", "mod"), ("Sub", "sub"), ("Max", "max"), ("Min", "min")):
        if two_in([helper.make_node(op, ["a", "b"], ["c"])]) != ans[key]:
            bad.append(op)
    # ... and the three-node chain the lowerer emits for floordiv is Python's //
    comp = two_in([helper.make_node("Mod", ["a", "b"], ["r"]), helper.make_node("Sub", ["a", "r"], ["e"]),
                   helper.make_node("Div", ["e", "b"], ["c"])])
    if comp != ans["floordiv"] or comp != [a // b for a, b in pairs]:
        bad.append("Div(Sub(a,Mod(a,b)),b)")
    # Pow with non-negative exponent
    pp = OPS_POW
    ansp = json.loads(answers[1])["pow"]
    g = helper.make_graph([helper.make_node("Pow", ["a", "b"], ["c"])], "g",
                          [helper.make_tensor_value_info("a", TensorProto.INT64, [None]),
                           helper.make_tensor_value_info("b", TensorProto.INT64, [None])],
                          [helper.make_tensor_value_info("c", TensorProto.INT64, [None])])
    m = helper.make_model(g, opset_imports=[helper.make_opsetid("", 21)], ir_version=10)
    got = ort_session(m).run(None, {"a": np.array([p[0] for p in pp], np.int64),
                                    "b": np.array([p[1] for p in pp], np.int64)})[0]
    if got.tolist() != ansp:
        bad.append("Pow")
    if [a // b for a, b in pairs] != ans["fdiv"] or [a % b for a, b in pairs] != ans["fmod"]:
        bad.append("python-floordiv/mod")
    if bad:
        # the *model* of the operator semantics is wrong: infrastructure, not a verdict about /repo
        raise RuntimeError(f"modelled integer operator semantics disagree with the runtime: {bad}")
    chk.info("operator_semantics_box", {"pairs": len(pairs) + len(pp), "ops": ["Div (truncates)", "Mod fmod=0 (sign of divisor)", "Sub", "Max", "Min", "Pow",
                                                "Div(Sub(a,Mod(a,b)),b) = //", "//", "%"],
                                        "result": "Lean model = ONNX Runtime / Python on the whole box"})
    chk.add("traces_validated_against_impl", 6 * len(pairs) + len(pp))


def eval_tree(text: str, shapes: dict) -> Optional[int]:
    """ONNX meaning of a rendered chain (`Add(S(in_0,0),Mul(..))`) on real run-time shapes;
    None when a tensor it reads was not observable."""
    pos = 0

    def parse():
        nonlocal pos
        j = pos
        while j < len(text) and text[j] not in "(,)":
            j += 1
        head = text[pos:j]
        if j >= len(text) or text[j] != "(":
            pos = j
            return int(head)
        pos = j + 1
        if head == "S":
            k = text.index(")", pos)
            name, ax = text[pos:k].rsplit(",", 1)
            pos = k + 1
            arr = shapes.get(name)
            if arr is None or int(ax) >= len(arr):
                raise KeyError(name)
            return int(arr[int(ax)])
        args = []
        while True:
            args.append(parse())
            if text[pos] == ",":
                pos += 1
                continue
            pos += 1
            break
        if head == "Add":
            return args[0] + args[1]
        if head == "Sub":
            return args[0] - args[1]
        if head == "Neg":
            return -args[0]
        if head == "Abs":
            return abs(args[0])
        if head == "Mul":
            return args[0] * args[1]
        if head == "Pow":
            return args[0] ** args[1]
        if head == "Div":
            q = abs(args[0]) // abs(args[1])
            return q if (args[0] >= 0) == (args[1] >= 0) else -q
        if head == "Mod":
            return args[0] % args[1]
        if head == "Max":
            return max(args)
        if head == "Min":
            return min(args)
        raise ValueError(head)

    try:
        return parse()
    except (KeyError, ValueError, ZeroDivisionError, IndexError):
        return None


class AssumedShapes:
    """run-time extents of tensors inside nested graphs, taken from what was recorded for them"""

    def __init__(self, ins: "Instr", binding: dict, sid: Optional[int] = None):
        self.m: dict = {}
        # names such as f_in_0 recur in every function body: only the chain's OWN context says what they mean
        for s in ([ins.sessions[sid]] if sid is not None else list(ins.sessions.values())):
            for e in s["events"]:
                rows = []
                if e["ev"] == "bind":
                    rows = [(e["v"], ax, key) for key, ax, _ in e["dims"]]
                elif e["ev"] == "scope":
                    rows = [(e["fin"], ax, key) for key, ax, _ in e["dims"]]
                elif e["ev"] == "init":
                    rows = [(r[1], r[2], r[0]) for r in e["table"]]
                for v, ax, key in rows:
                    if key in ins.expr_of_key:
                        self.m.setdefault(v, {})[ax] = int(ins.expr_of_key[key]._evaluate(dict(binding)))

    def get(self, name):
        d = self.m.get(name)
        if d is None:
            return None
        return [d.get(i, 0) for i in range(max(d) + 1)]


def classify_and_report(chk: Check, prog: Prog, live: Any, binding: dict, real: int, memo: int, plain: int,
                        jaxv: int, chain: str) -> None:
    """The real chain value differs from the JAX value. If the model predicts exactly this value the
    theorems decide the class (memo != no-memo: unfaithful key; no-memo != JAX: truncating floordiv);
    otherwise the deviation is outside the model."""
    rep = {"program": prog.name, "specs": [list(s) for s in prog.specs], "dim_expr": str(live), "binding": binding,
           "real_chain": chain, "real_chain_value": real, "lean_memo": memo, "lean_nomemo": plain, "jax": jaxv,
           "how": "to_onnx(program, symbolic specs); the emitted dimexpr_* chain evaluated on the run-time shapes "
                  "ONNX Runtime reports at this binding vs the value JAX computes for the dimension"}
    if real != memo:
        chk.finding({"kind": "chain_value_unmodelled", "program": prog.name, "dim_expr": str(live), "binding": binding},
                    f"{prog.name} at {binding}: the emitted chain for {live} evaluates to {real}, JAX computes {jaxv} "
                    f"(the model of the unchanged code predicts {memo})", rep)
        return
    if memo != plain:
        items: dict = {}
        for progl in [live] + list(getattr(prog, "_all_live", [])):
            cache_items(progl, items)
        coll = {k: v for k, v in items.items() if len(v) > 1}
        kinds = sorted({kd for v in coll.values() for ks in v.values() for kd in ks})
        pattern = "factor_power_vs_term_coeff" if coll and all(
            {kd for ks in v.values() for kd in ks} <= {"factor_power", "term_coeff"} for v in coll.values()) \
            else "other:" + ",".join(kinds)
        rep["colliding_keys"] = {k: {d: sorted(ks) for d, ks in v.items()} for k, v in coll.items()}
        chk.finding({"kind": "cache_key_collision", "pattern": pattern, "program": prog.name, "dim_expr": str(live),
                     "binding": binding},
                    f"{prog.name} at {binding}: memoised chain for {live} gives {memo}, un-memoised {plain}, JAX {jaxv}", rep)
    if plain != jaxv:
        uns = unsafe_floordivs(live, binding)
        rep["unsafe_floordivs"] = uns
        kind = "floordiv_truncation" if uns else "nomemo_chain_differs_from_jax"
        chk.finding({"kind": kind, "program": prog.name, "dim_expr": str(live), "binding": binding},
                    f"{prog.name} at {binding}: chain for {live} gives {plain}, JAX {jaxv}", rep)


def origin_probe(model, ins: "Instr", sid: int, extra: tuple = ()):
    """A pruned copy of the exported model whose outputs are the run-time shapes of every tensor that
    was recorded as an origin in the top-level context and still exists in the final graph."""
    import onnx
    from onnx import helper, TensorProto
    s = ins.sessions[sid]
    recorded = []      # (value name, axis, key, serialised expr, producer op)
    for e in s["events"]:
        if e["ev"] != "bind":
            continue
        for key, axis, ex in e["dims"]:
            if key is not None and ex is not None:
                recorded.append((e["v"], axis, key, e.get("producer", "")))
    recorded += list(extra)
    present = {i.name for i in model.graph.input} | {o for n in model.graph.node for o in n.output}
    names = sorted({r[0] for r in recorded if r[0] in present})
    if not names:
        return None, recorded, []
    m = onnx.ModelProto()
    m.CopyFrom(model)
    outs = []
    for i, nm in enumerate(names):
        o = f"verif_shape_{i}"
        m.graph.node.append(helper.make_node("Shape", [nm], [o], name=f"verif_shape_node_{i}"))
        m.graph.output.append(helper.make_tensor_value_info(o, TensorProto.INT64, [None]))
        outs.append(o)
    ex = onnx.utils.Extractor(m)
    ins_names = [i.name for i in model.graph.input]
    probes = []
    for nm, o in zip(names, outs):       # one pruned probe per tensor: a failing node elsewhere does not hide it
        probes.append((nm, ort_session(ex.extract_model(ins_names, [o]))))
    return probes, recorded, names


# ----------------------------------------------------------------------------- function call sites


def _vi_dims(vi) -> Optional[list]:
    tt = vi.type.tensor_type
    if not tt.HasField("shape"):
        return None
    out = []
    for d in tt.shape.dim:
        if d.HasField("dim_value"):
            out.append(int(d.dim_value))
        elif d.HasField("dim_param") and d.dim_param:
            out.append(str(d.dim_param))
        else:
            out.append(None)
    return out


def call_sites(model) -> list:
    """Every node of the exported model (top graph, Loop/If bodies, function bodies) that calls a local function,
    with the annotated dims of its actual arguments (caller's value_info) and of the callee's formal inputs
    (the FunctionProto's value_info): the artefact itself, independent of how /repo built it."""
    import onnx
    funcs = {(f.domain, f.name): f for f in model.functions}
    formal: dict = {}
    for key, f in funcs.items():
        ann = {vi.name: _vi_dims(vi) for vi in f.value_info}
        formal[key] = [ann.get(n) for n in f.input]
    sites: list = []

    def walk(nodes, ann_stack, where, top):
        for n in nodes:
            key = (n.domain, n.op_type)
            if key in funcs:
                def look(name):
                    for ann in reversed(ann_stack):
                        if name in ann:
                            return ann[name]
                    return None
                sites.append({"caller": where, "top": top, "node": n.name, "callee": list(key),
                              "args": list(n.input), "arg_dims": [look(a) for a in n.input],
                              "formal_dims": formal[key], "formal_names": list(funcs[key].input)})
            for a in n.attribute:
                subs = [a.g] if a.type == onnx.AttributeProto.GRAPH else \
                    (list(a.graphs) if a.type == onnx.AttributeProto.GRAPHS else [])
                for g in subs:
                    ann = {vi.name: _vi_dims(vi) for vi in list(g.input) + list(g.value_info) + list(g.output)}
                    walk(g.node, ann_stack + [ann], f"{where}/{n.name}:{a.name}", False)

    g = model.graph
    top_ann = {vi.name: _vi_dims(vi) for vi in list(g.input) + list(g.value_info) + list(g.output)}
    for init in g.initializer:
        top_ann.setdefault(init.name, [int(d) for d in init.dims])
    walk(g.node, [top_ann], "graph", True)
    for key, f in funcs.items():
        ann = {vi.name: _vi_dims(vi) for vi in f.value_info}
        walk(f.node, [ann], f"function {key[0]}:{key[1]}", False)
    return sites


class DimText:
    """meaning of an annotated dim text (`B`, `2*B + N`) under a binding, through JAX's own parser/evaluator"""

    def __init__(self, syms: list, known: dict):
        self.syms, self.known, self.cache = syms, known, {}

    def expr(self, text):
        if isinstance(text, int):
            return text
        if text in self.known:
            return self.known[text]
        if text not in self.cache:
            try:
                from jax import export as jexport
                scope = next((e.scope for e in self.known.values() if hasattr(e, "scope")), None)
                self.cache[text] = jexport.symbolic_shape(text, scope=scope)[0] if scope is not None \
                    else jexport.symbolic_shape(text)[0]
            except Exception:
                self.cache[text] = None
        return self.cache[text]

    def value(self, text, binding: dict) -> Optional[int]:
        e = self.expr(text)
        if e is None:
            return None
        if isinstance(e, (int, np.integer)):
            return int(e)
        try:
            return int(e._evaluate(dict(binding)))
        except Exception:
            return None


def callsite_conflicts(sites: list, dt: DimText, bindings: list) -> list:
    """premise of `scope_reuse_sound` (Props/C04Scope.lean) at every call site, on the annotations: the extent the
    caller declares for argument i, axis a must be the extent the callee's body was lowered for (its formal input
    annotation = the symbol whose origin the body re-bound to (f_in_i, a)), for EVERY binding."""
    out = []
    for st in sites:
        for i, (ad, fd) in enumerate(zip(st["arg_dims"], st["formal_dims"])):
            if ad is None or fd is None or len(ad) != len(fd):
                continue
            for ax, (da, df) in enumerate(zip(ad, fd)):
                if da is None or df is None or da == df:
                    continue
                bad = []
                for b in bindings:
                    va, vf = dt.value(da, b), dt.value(df, b)
                    if va is not None and vf is not None and va != vf:
                        bad.append(b)
                if bad:
                    out.append({"caller": st["caller"], "top": st["top"], "node": st["node"], "callee": st["callee"],
                                "arg_index": i, "arg": st["args"][i], "axis": ax, "call_site_dim": da,
                                "body_dim": df, "formal": st["formal_names"][i], "bindings": bad})
    return out


def run(chk: Check) -> None:
    import time
    import jax
    rng = common.Rng(chk.seed)
    thorough = chk.tier == "thorough"
    proved = prove_robust(chk, MODS, thorough)

    progs = all_programs(rng, thorough)
    stats = {"programs": 0, "not_exportable": 0, "sessions": 0, "calls": 0, "exprs": 0, "tree_equal": 0,
             "table_equal": 0, "ort_runs": 0, "ort_errors": 0, "eager_jax_runs": 0,
             "numpy_ref_runs": 0, "eval_shape_checks": 0, "jax_eval_checks": 0, "chain_vs_ort_checks": 0,
             "origin_recordings": 0, "origin_runtime_checks": 0, "origins_not_in_final_graph": 0,
             "chain_value_checks": 0, "model_more_pessimistic_than_code": 0, "chain_drift_same_value": 0,
             "memo_keys_equal": 0, "memo_keys_differ": 0, "key_check_accepted": 0,
             "scope_runs": 0, "scope_ops": 0, "scope_contexts": 0, "scope_max_depth": 0, "scope_snaps_equal": 0,
             "scope_runs_not_stack_like": 0, "function_sessions": 0, "function_sessions_mapped": 0,
             "function_formal_origin_checks": 0,
             "call_sites": 0, "call_site_axes_checked": 0, "call_sites_in_function_bodies": 0,
             "call_sites_in_subgraphs": 0, "call_site_runtime_checks": 0, "chains_fit_int64": 0}
    callsite_broken: list = []
    drift: list = []
    key_drift: list = []
    inconsistent: list = []
    not_exportable: list = []
    broken_corr: list = []
    dist: dict = {}
    timing = {"export": 0.0, "driver": 0.0, "ort": 0.0, "jax": 0.0}

    # ---- phase A: real exports under instrumentation ---------------------------------------
    t0 = time.time()
    exported = []
    for prog in progs:
        try:
            model, ins = export(prog)
        except Exception as e:  # not an exportable program of the generator
            stats["not_exportable"] += 1
            not_exportable.append({"program": prog.name, "text": getattr(prog, "text", None),
                                   "error": f"{type(e).__name__}: {str(e)[:160]}"})
            continue
        stats["programs"] += 1
        dist[prog.kind] = dist.get(prog.kind, 0) + 1
        exported.append((prog, model, ins))
    timing["export"] = round(time.time() - t0, 1)
    if stats["programs"] < 0.8 * len(progs):
        raise RuntimeError(f"only {stats['programs']} of {len(progs)} generated programs exported; first errors: "
                           f"{not_exportable[:3]}")

    # ---- phase B: one driver run replays every lowering context in the Lean model ------------
    t0 = time.time()
    reqs, owner = [], []
    for pi, (prog, model, ins) in enumerate(exported):
        full = lattice(len(prog.syms))
        for sid in ins.order:
            s = ins.sessions[sid]
            if not s["events"]:
                continue
            evs = [{k: v for k, v in e.items() if k != "producer"} for e in s["events"]]
            reqs.append(json.dumps({"op": "session", "syms": prog.syms, "bindings": [list(p) for p in full],
                                    "events": evs}))
            owner.append((pi, sid))
        if ins.snaps:
            reqs.append(json.dumps({"op": "scoperun", "ops": ins.sops}))
            owner.append((pi, "scoperun"))
    pre = op_semantics_requests()          # one driver process for everything
    if os.environ.get("VERIF_DUMP_DRIVER_REQS"):
        open(os.environ["VERIF_DUMP_DRIVER_REQS"], "w").write("\n".join(pre + reqs) + "\n")
    raw = common.run_driver("C04", pre + reqs)
    check_op_semantics(chk, raw[:len(pre)])
    answers = [json.loads(a) for a in raw[len(pre):]]
    per_prog: dict[int, list] = {}
    scope_ans: dict[int, dict] = {}
    for (pi, sid), ans in zip(owner, answers):
        if sid == "scoperun":
            scope_ans[pi] = ans
        else:
            per_prog.setdefault(pi, []).append((sid, ans))
    timing["driver"] = round(time.time() - t0, 1)

    # ---- phase C: compare, then ORT vs eager JAX on the lattice ---------------------------------
    for pi, (prog, model, ins) in enumerate(exported):
        k = len(prog.syms)
        full = lattice(k)
        bindings = [dict(zip(prog.syms, p)) for p in full]
        real_tables = ins.real_tables()
        sess_ans = per_prog.get(pi, [])
        prog._all_live = [e for sid, _ in sess_ans for call in ins.sessions[sid]["live"] for e in call]
        entries: list = []       # one per lowered expression of this export
        top_sid = ins.order[0] if ins.order else None
        for sid, ans in sess_ans:
            s = ins.sessions[sid]
            stats["sessions"] += 1
            if "error" in ans:
                broken_corr.append({"program": prog.name, "driver_error": ans["error"]})
                continue
            mtab = sorted(ans["table"])
            if mtab == real_tables[sid]:
                stats["table_equal"] += 1
            else:
                broken_corr.append({"program": prog.name, "what": "origin table", "model": mtab,
                                    "real": real_tables[sid]})
            # the memo itself: same keys in the model and in the live compute_cache
            low = s.get("lowerer")
            if low is not None:
                # (the model's memo is an association list: a key written twice appears twice)
                real_keys = sorted({repr(k) for k in low.compute_cache.keys()})
                model_keys = sorted({repr(k) for k in ans["cache_keys"]})
                if real_keys == model_keys:
                    stats["memo_keys_equal"] += 1
                else:
                    stats["memo_keys_differ"] += 1
                    key_drift.append({"program": prog.name,
                                      "only_real": sorted(set(real_keys) - set(model_keys))[:6],
                                      "only_model": sorted(set(model_keys) - set(real_keys))[:6]})
            # hypothesis of cache_transparent, checked on the keys of this export
            if ans.get("consistent"):
                stats["key_check_accepted"] += 1
            else:
                inconsistent.append(prog.name)
            for ci, call in enumerate(ans["calls"]):
                stats["calls"] += 1
                for ei, (mt, rt) in enumerate(zip(call["trees"], s["real_trees"][ci])):
                    stats["exprs"] += 1
                    live = s["live"][ci][ei]
                    vals = call["vals"][ei]
                    chk.count({"program": prog.name, "dim_expr": str(live), "chain": rt},
                              nontrivial=not isinstance(live, int) and len(rt) > 12)
                    if call["missing"]:
                        broken_corr.append({"program": prog.name, "what": "symbol without origin in the model",
                                            "missing": call["missing"]})
                    if mt == rt:
                        stats["tree_equal"] += 1
                    if call.get("fits", [True] * (ei + 1))[ei]:
                        stats["chains_fit_int64"] += 1
                    else:   # hypothesis of eval64_eq_eval on the lattice: the generator keeps far below 2^63
                        raise RuntimeError(f"{prog.name}: a node of the chain for {live} leaves int64 on the lattice")
                    if not isinstance(live, int):      # Lean evalJax vs the live JAX evaluator
                        for b, (_memo, _plain, jaxv) in zip(bindings, vals):
                            stats["jax_eval_checks"] += 1
                            lv = int(live._evaluate(dict(b)))
                            if lv != jaxv:
                                raise RuntimeError(f"Lean evalJax {jaxv} != live _DimExpr._evaluate {lv} for {live} at {b}")
                    entries.append({"live": live, "vals": vals, "real": rt, "model": mt, "top": sid == top_sid,
                                    "sid": sid, "R": [None] * len(bindings)})
        # ---- the scope machine: every context's table at creation / exit, model vs live ----------------
        if pi in scope_ans:
            sa = scope_ans[pi]
            stats["scope_runs"] += 1
            stats["scope_ops"] += len(ins.sops)
            stats["scope_contexts"] += len(ins.ctx_of)
            depth, dmax = 1, 1
            for o in ins.sops:
                depth += 1 if o["o"] in ("enter", "sub") else (-1 if o["o"] == "exit" else 0)
                dmax = max(dmax, depth)
            stats["scope_max_depth"] = max(stats["scope_max_depth"], dmax)
            if ins.non_stack:
                stats["scope_runs_not_stack_like"] += 1
            elif "error" in sa:
                broken_corr.append({"program": prog.name, "driver_error": sa["error"]})
            else:
                for sid_, tab in sa["snaps"]:
                    want = ins.snaps[int(sid_)]
                    if tab is not None and sorted(tab) == want["live"]:
                        stats["scope_snaps_equal"] += 1
                    else:
                        broken_corr.append({"program": prog.name, "what": f"scope machine: table of a context when {want['what']}",
                                            "model": None if tab is None else sorted(tab), "real": want["live"]})
        # ---- function bodies and their call sites (the exported artefact) ------------------------------
        dt = DimText(prog.syms, ins.expr_of_key)
        sites = call_sites(model)
        stats["call_sites"] += len(sites)
        stats["call_sites_in_function_bodies"] += sum(1 for st in sites if st["caller"].startswith("function"))
        stats["call_sites_in_subgraphs"] += sum(1 for st in sites if "/" in st["caller"])
        stats["call_site_axes_checked"] += sum(len(fd) for st in sites for fd, ad in zip(st["formal_dims"], st["arg_dims"])
                                               if fd is not None and ad is not None)
        conflicts = callsite_conflicts(sites, dt, bindings)
        fprotos = {(f.domain, f.name): f for f in model.functions}
        for sid, _ans in sess_ans:
            fkey = ins.sessions[sid].get("function")
            if fkey is None:
                continue
            stats["function_sessions"] += 1
            fp = fprotos.get(fkey)
            if fp is None:
                continue
            stats["function_sessions_mapped"] += 1
            ann = {vi.name: _vi_dims(vi) for vi in fp.value_info}
            for key, vname, axis in real_tables[sid]:
                if vname in fp.input and ann.get(vname) is not None and axis < len(ann[vname]):
                    stats["function_formal_origin_checks"] += 1
                    lab = ann[vname][axis]
                    if lab is not None and lab != key and any(
                            dt.value(lab, b) is not None and dt.value(key, b) is not None
                            and dt.value(lab, b) != dt.value(key, b) for b in bindings):
                        broken_corr.append({"program": prog.name, "what": "function body origin vs FunctionProto annotation",
                                            "function": list(fkey), "dim": key, "origin": [vname, axis], "annotated": lab})
        for mm in ins.static_mismatch:
            chk.finding({"kind": "origin_annotation_mismatch", "program": prog.name, **mm},
                        f"origin recorded for {mm['recorded']} at {mm['value']}[{mm['axis']}] whose annotation is "
                        f"{mm['annotated']}", {"program": prog.name, **mm})
        by_text: dict = {}
        for en in entries:
            by_text.setdefault(str(en["live"]), en)
        if prog.kind == "dimexpr":
            from jax import export as jexport
            sd = jexport.symbolic_shape(", ".join(prog.syms))
            prog.sym_text = [str(ev_ast(a, list(sd))) for a in prog.asts]

        # premise of origin_sound, dynamic part: run-time extent of every recorded origin tensor
        # ... and of every argument of a function call in the top graph: the callee's body was lowered for the
        # extents annotated on its formal inputs (premise `hcall`/`hann` of scope_reuse_sound at THIS call site)
        site_extra = []
        for st in sites:
            if not st["top"]:
                continue
            for i, fd in enumerate(st["formal_dims"]):
                for ax, df in enumerate(fd or []):
                    if df is not None and i < len(st["args"]):
                        site_extra.append((st["args"][i], ax, df, "call:" + ":".join(st["callee"])))
        probes, recorded, probe_names = None, [], []
        if top_sid is not None:
            probes, recorded, probe_names = origin_probe(model, ins, top_sid, tuple(site_extra))
            stats["origin_recordings"] += len(recorded) - len(site_extra)
            stats["origins_not_in_final_graph"] += sum(1 for r in recorded if r[0] not in probe_names)
        conflict_hit = False
        out_ann = [_vi_dims(o) for o in model.graph.output]

        sess = ort_session(model)
        eager_pts = set(range(len(full))) if (prog.kind == "dimexpr" or thorough) else \
            {full.index(p) for p in lattice(k, 7, rng)}
        for bi, b in enumerate(bindings):
            t1 = time.time()
            xs = prog.make_inputs(b)
            feeds = feeds_for(sess, prog, xs)
            unsound = []
            shp: dict = {}
            if probes:
                for nm, ps in probes:
                    try:
                        shp[nm] = ps.run(None, {i.name: feeds[i.name] for i in ps.get_inputs()})[0]
                    except Exception:
                        pass
                for (v, axis, key, producer) in recorded:
                    if v not in shp:
                        continue
                    stats["call_site_runtime_checks" if producer.startswith("call:") else "origin_runtime_checks"] += 1
                    want = dt.value(key, b)
                    got = int(shp[v][axis]) if axis < len(shp[v]) else None
                    if want is not None and got != want:
                        unsound.append({"value": v, "axis": axis, "dim": key, "dim_value": want,
                                        "runtime_extent": got, "producer": producer})
            outs, ort_err = None, None
            try:
                outs = sess.run(None, feeds)
            except Exception as e:
                ort_err = str(e)[-300:]
                stats["ort_errors"] += 1
            stats["ort_runs"] += 1
            timing["ort"] += time.time() - t1
            t1 = time.time()
            exp = None
            if bi in eager_pts:
                exp = as_list(prog.fn(*xs))
                stats["eager_jax_runs"] += 1
                if prog.ref is not None:
                    stats["numpy_ref_runs"] += 1
                    if not all(same_result(a, c) for a, c in zip(as_list(prog.ref(*xs)), exp)):
                        raise RuntimeError(f"numpy reference of template {prog.name} disagrees with eager JAX at {b}")
            elif prog.ref is not None:
                exp = as_list(prog.ref(*xs))
                stats["numpy_ref_runs"] += 1
            if prog.kind != "dimexpr":
                shp_j = jax.eval_shape(prog.fn, *xs)
                stats["eval_shape_checks"] += 1
                exp_shapes = [tuple(s.shape) for s in (shp_j if isinstance(shp_j, (tuple, list)) else [shp_j])]
            else:
                exp_shapes = [e.shape for e in exp]
            timing["jax"] += time.time() - t1
            chk.count({"program": prog.name, "binding": b}, nontrivial=len(set(b.values())) > 1 or 1 in b.values())
            ok_shape = outs is not None and [tuple(o.shape) for o in outs] == [tuple(s) for s in exp_shapes]
            ok_val = outs is not None and (exp is None or (len(exp) == len(outs) and
                                                           all(same_result(o, e) for o, e in zip(outs, exp))))

            # ONNX: every dim carrying the same dim_param is ONE extent. The labels on the graph outputs against the
            # shapes JAX computes: a label with a known meaning must have that value, any label one value only
            conflated = []
            lab_ext: dict = {}
            for oi, (ann, se) in enumerate(zip(out_ann, exp_shapes)):
                if ann is None or len(ann) != len(se):
                    continue
                for ax, (lab, ext) in enumerate(zip(ann, se)):
                    if isinstance(lab, str):
                        lab_ext.setdefault(lab, []).append([oi, ax, int(ext)])
            for lab, occ in lab_ext.items():
                stats["output_label_checks"] = stats.get("output_label_checks", 0) + 1
                want = dt.value(lab, b)
                exts = sorted({o_[2] for o_ in occ})
                if len(exts) > 1 or (want is not None and exts != [want]):
                    conflated.append({"label": lab, "meaning": want, "outputs_axis_extent": occ})
            label_explained = False
            if conflated and ok_shape and ok_val:
                # the label is wrong but ONNX Runtime did not act on it here: not a failing input of the property
                stats["output_labels_shared_but_result_right"] = stats.get("output_labels_shared_but_result_right", 0) + 1
            elif conflated:
                c0 = conflated[0]
                label_explained = outs is None
                chk.finding({"kind": "dim_param_conflated", "label": c0["label"], "program": prog.name, "binding": b},
                            f"{prog.name} at {b}: the exported model annotates output dims {c0['outputs_axis_extent']} "
                            f"(output, axis, extent JAX computes) with the one dim_param {c0['label']!r}"
                            + (f" (= {c0['meaning']})" if c0["meaning"] is not None else "")
                            + f"; ORT {'rejects the model: ' + ort_err[-160:] if outs is None else 'runs'}",
                            {"program": prog.name, "binding": b, "specs": [list(s) for s in prog.specs],
                             "conflated_labels": conflated, "ort_error": ort_err,
                             "ort_shapes": None if outs is None else [list(o.shape) for o in outs],
                             "jax_shapes": [list(s) for s in exp_shapes]})

            # a function body used at a call site whose arguments carry other extents than the body was lowered for
            site_unsound = [u for u in unsound if u["producer"].startswith("call:")]
            unsound = [u for u in unsound if not u["producer"].startswith("call:")]
            conf_here = [{k_: v_ for k_, v_ in c.items() if k_ != "bindings"} for c in conflicts if b in c["bindings"]]
            site_explained = False
            if (conf_here or site_unsound) and not unsound and not (ok_shape and ok_val):
                conflict_hit = site_explained = True
                c0 = conf_here[0] if conf_here else None
                callee = c0["callee"] if c0 else site_unsound[0]["producer"].split(":")[1:]
                chk.finding({"kind": "function_body_reused_across_symbol_patterns", "program": prog.name,
                             "callee": callee[-1] if callee else None, "binding": b},
                            f"{prog.name} at {b}: the body of function {':'.join(callee)} was lowered for other "
                            f"extents than this call site passes ("
                            + (f"argument {c0['arg_index']} axis {c0['axis']} is {c0['call_site_dim']}, the body reads it as "
                               f"{c0['body_dim']}" if c0 else
                               f"{site_unsound[0]['value']}[{site_unsound[0]['axis']}] has run-time extent "
                               f"{site_unsound[0]['runtime_extent']}, the body assumes {site_unsound[0]['dim']} = "
                               f"{site_unsound[0]['dim_value']}")
                            + f"); ORT {'error' if outs is None else [tuple(o.shape) for o in outs]} vs JAX {exp_shapes}",
                            {"program": prog.name, "binding": b, "specs": [list(s) for s in prog.specs],
                             "call_site_conflicts": conf_here, "call_site_runtime": site_unsound, "ort_error": ort_err,
                             "ort_shapes": None if outs is None else [list(o.shape) for o in outs],
                             "jax_shapes": [list(s) for s in exp_shapes],
                             "ort_head": None if outs is None else [np.asarray(o).reshape(-1)[:8].tolist() for o in outs],
                             "jax_head": None if exp is None else [np.asarray(e).reshape(-1)[:8].tolist() for e in exp]})
            elif site_unsound and not unsound:
                callsite_broken.append({"program": prog.name, "binding": b, "call_site_runtime": site_unsound[:3]})

            if unsound:
                import re as _re
                root = unsound[0]           # recordings are chronological: the first false one is the root
                chk.finding({"kind": "origin_unsound", "root_producer": root["producer"],
                             "root_value": _re.sub(r"_\d+$", "", root["value"]), "program": prog.name,
                             "dim": root["dim"], "binding": b},
                            f"{prog.name} at {b}: {root['value']}[{root['axis']}] ({root['producer']}) is recorded as "
                            f"the origin of {root['dim']} (= {root['dim_value']}) but has run-time extent "
                            f"{root['runtime_extent']}",
                            {"program": prog.name, "binding": b, "specs": [list(s) for s in prog.specs],
                             "unsound_origins": unsound, "ort_error": ort_err,
                             "ort_head": None if outs is None else [np.asarray(o).reshape(-1)[:8].tolist() for o in outs],
                             "jax_head": None if exp is None else [np.asarray(e).reshape(-1)[:8].tolist() for e in exp]})

            # real chain value of every lowered expression at this binding
            explained = bool(unsound) or site_explained or label_explained
            for en in entries:
                if isinstance(en["live"], int):
                    continue
                memo, plain, jaxv = en["vals"][bi]
                R = eval_tree(en["real"], shp) if en["top"] else None
                if R is None:         # nested contexts: extents as recorded (the model's assumption)
                    R = eval_tree(en["real"], AssumedShapes(ins, b, en["sid"]))
                en["R"][bi] = R
                stats["chain_value_checks"] += 1
                if R is None or unsound:
                    continue
                if R != jaxv:
                    explained = True
                    classify_and_report(chk, prog, en["live"], b, R, memo, plain, jaxv, en["real"])
                elif memo != jaxv:
                    stats["model_more_pessimistic_than_code"] += 1

            if prog.kind == "dimexpr" and outs is not None:
                vec = np.asarray(outs[0]).reshape(-1)
                ev = np.asarray(exp[0]).reshape(-1)
                for ei in range(len(vec)):
                    ortv, jv = int(vec[ei]), int(ev[ei])
                    en = by_text.get(prog.sym_text[ei])
                    if en is not None and not isinstance(en["live"], int):
                        stats["chain_vs_ort_checks"] += 1
                        if en["vals"][bi][2] != jv:
                            raise RuntimeError(f"{prog.name}: Lean evalJax {en['vals'][bi][2]} != eager JAX {jv} at {b}")
                        if en["R"][bi] is not None and en["R"][bi] != ortv and not unsound:
                            chk.finding({"kind": "dim_as_value_path", "program": prog.name, "expr": prog.text[ei],
                                         "binding": b},
                                        f"{prog.name} at {b}: chain value {en['R'][bi]} arrives as {ortv} at the output",
                                        {"program": prog.name, "expr": prog.text[ei], "binding": b})
                    elif ortv != jv and not explained:
                        chk.finding({"kind": "dim_value_mismatch", "program": prog.name, "expr": prog.text[ei],
                                     "binding": b}, f"{prog.name}: ORT {ortv} vs JAX {jv} for {prog.text[ei]} at {b}",
                                    {"program": prog.name, "expr": prog.text[ei], "binding": b, "ort": ortv, "jax": jv})
            if not (ok_shape and ok_val) and not explained:
                chk.finding({"kind": "program_mismatch", "program": prog.name, "binding": b},
                            f"{prog.name} at {b}: ORT "
                            f"{'error ' + ort_err[-120:] if outs is None else [tuple(o.shape) for o in outs]} vs JAX "
                            f"{exp_shapes}; values equal: {ok_val}",
                            {"program": prog.name, "binding": b, "specs": [list(s) for s in prog.specs],
                             "text": getattr(prog, "text", None), "ort_error": ort_err,
                             "ort_shapes": None if outs is None else [list(o.shape) for o in outs],
                             "jax_shapes": [list(s) for s in exp_shapes],
                             "ort_head": None if outs is None else [np.asarray(o).reshape(-1)[:8].tolist() for o in outs],
                             "jax_head": None if exp is None else [np.asarray(e).reshape(-1)[:8].tolist() for e in exp]})

        if conflicts and not conflict_hit:
            callsite_broken.append({"program": prog.name, "call_site_conflicts":
                                    [{k_: (v_[:4] if k_ == "bindings" else v_) for k_, v_ in c.items()} for c in conflicts[:4]]})

        # structural drift: a chain that differs from the model's but has the model's value on the whole lattice
        for en in entries:
            if en["real"] == en["model"]:
                continue
            # one-sided: the real chain has the model's value, or the JAX value where the model (of the
            # code with its listed defects) deviates from JAX
            same = all(r is not None and (r == v[0] or r == v[2]) for r, v in zip(en["R"], en["vals"]))
            if same:
                stats["chain_drift_same_value"] += 1
                drift.append({"program": prog.name, "expr": str(en["live"]), "model": en["model"], "real": en["real"]})
            else:
                broken_corr.append({"program": prog.name, "what": "chain", "expr": str(en["live"]),
                                    "model": en["model"], "real": en["real"],
                                    "real_values": en["R"][:10], "model_values": [v[0] for v in en["vals"]][:10]})

    timing = {k: round(v, 1) for k, v in timing.items()}
    chk.add("traces_validated_against_impl", stats["exprs"] + stats["sessions"] + stats["origin_runtime_checks"])
    chk.info("correspondence", stats)
    chk.info("timing_s", timing)
    chk.info("programs", stats["programs"])
    chk.info("program_kinds", dist)
    chk.info("not_exportable", not_exportable[:20])
    chk.info("chain_drift_examples", drift[:5])
    chk.info("disagreements_checked", len(broken_corr))
    chk.log(f"programs={stats['programs']} (not exportable {stats['not_exportable']}) sessions={stats['sessions']} "
            f"exprs={stats['exprs']} chain-equal={stats['tree_equal']} table-equal={stats['table_equal']} "
            f"ort_runs={stats['ort_runs']} timing={timing}")

    chk.info("memo_key_drift_examples", key_drift[:5])
    chk.info("programs_whose_keys_fail_the_check", inconsistent[:10])
    # ---- verdicts for a broken correspondence / obligation without a concrete input ----------
    if (key_drift or inconsistent) and not chk.violations:
        chk.violation({"correspondence": "memo keys of a real export: differ from the model's, or fail keysConsistent "
                                         "(the hypothesis under which cache_transparent is proved)",
                       "key_drift": key_drift[:8], "keys_fail_check": inconsistent[:8],
                       "note": "every chain of these exports still had the JAX value on the whole lattice"},
                      name="memo-keys", no_failing_input=True)
    chk.info("call_site_premise_broken_without_failing_input", callsite_broken[:5])
    if callsite_broken and not chk.violations:
        chk.violation({"correspondence": "a function body is called with arguments whose extents are not the ones the body "
                                         "was lowered for (premise of scope_reuse_sound) ",
                       "cases": callsite_broken[:8],
                       "note": "ORT = JAX on the whole lattice for these programs: the body does not read the "
                               "conflated extents"},
                      name="call-site", no_failing_input=True)
    if broken_corr and not chk.violations:
        chk.violation({"correspondence": "live LowerDimExpr / origin recording differs from the Lean model",
                       "cases": broken_corr[:12],
                       "note": "no ORT-vs-JAX mismatch beyond the listed findings was found for these programs"},
                      name="correspondence", no_failing_input=True)
    if not proved and not chk.violations:
        chk.violation({"broken": getattr(chk, "broken", []), "build_log_tail": getattr(chk, "build_log", "")[-3000:]},
                      name="obligation-broken", no_failing_input=True)
    chk.assumptions += [
        "int64 dimension arithmetic does not overflow",
        "an ONNX DAG evaluates like its unfolded tree",
        "ONNX Div/Mod/Max/Min/Pow on int64 behave as modelled (compared with ONNX Runtime on [-7,7]^2 each run)",
        "text keys (str of live _DimExpr parts) are taken from the live objects; the model does not derive them",
        "origin_sound's premise (annotated extent = run-time extent) is C08's subject; it is checked per recording "
        "against the value's own annotation and, for every origin tensor that survives into the final graph, "
        "against its ONNX Runtime shape on the whole lattice",
        "template programs: numpy is the reference on the full lattice, eager JAX on a sub-lattice (quick tier); "
        "numpy = eager JAX is checked where both run; run-time shapes come from jax.eval_shape on every binding",
    ]
    chk.coverage["rule"] = ("programs = fixed corpus (Lean witnesses on real code) + curated symbolic-shape templates + "
                            "seeded pattern-directed dimension expressions (negative numerators, f^k + k*f, shared "
                            "sub-expressions, symbol at axis 0/1, re-bound origins); each exported once and run on "
                            "{1,2,3,5,7}^k. distinct non-trivial = distinct (program, binding) with size 1 or unequal "
                            "symbols, and distinct (program, dim expression, emitted chain) with a non-constant chain")
    chk.coverage["exhaustive"] = False


def replay(path: str) -> int:
    rep = json.loads(open(path).read())
    print(json.dumps(rep, indent=1)[:3000])
    name = rep.get("program")
    seed = int(rep.get("seed", 0))
    rng = common.Rng(seed)
    thorough = rep.get("tier") == "thorough"
    progs = all_programs(rng, thorough)
    prog = next((p for p in progs if p.name == name), None)
    if prog is None or "binding" not in rep:
        print("replay: nothing executable recorded (see the JSON above)")
        return 1
    model, ins = export(prog)
    sess = ort_session(model)
    if rep.get("unsound_origins"):
        # an origin recording that was false at run time: probe the same tensors again
        probes, recorded, names = origin_probe(model, ins, ins.order[0])
        xs = prog.make_inputs(rep["binding"])
        feeds = feeds_for(sess, prog, xs)
        still = []
        for nm, ps in (probes or []):
            try:
                shp = ps.run(None, {i.name: feeds[i.name] for i in ps.get_inputs()})[0]
            except Exception:
                continue
            for (v, axis, key, producer) in recorded:
                if v == nm and key in ins.expr_of_key:
                    want = int(ins.expr_of_key[key]._evaluate(dict(rep["binding"])))
                    if axis < len(shp) and int(shp[axis]) != want:
                        still.append((v, axis, key, want, int(shp[axis])))
        print("origins recorded for a dimension the tensor does not have at run time "
              "(value, axis, dim, dim value, run-time extent):", still)
        print("reproduced" if still else "not reproduced (all recorded origins are true now)")
        return 1 if still else 0
    try:
        xs, outs = run_ort_prog(sess, prog, rep["binding"])
    except Exception as e:
        print("specs:", prog.specs, "binding:", rep["binding"])
        print("ORT : error", str(e)[-300:])
        print("JAX :", [(np.asarray(v).shape) for v in as_list(prog.fn(*prog.make_inputs(rep["binding"])))])
        print("reproduced (ONNX Runtime rejects the model at this binding; JAX computes a result)")
        return 1
    exp = as_list(prog.fn(*xs))
    print("specs:", prog.specs, "binding:", rep["binding"])
    print("ORT :", [(o.shape, np.asarray(o).reshape(-1)[:10].tolist()) for o in outs])
    print("JAX :", [(e.shape, np.asarray(e).reshape(-1)[:10].tolist()) for e in exp])
    same = len(exp) == len(outs) and all(same_result(o, e) for o, e in zip(outs, exp))
    print("reproduced" if not same else "not reproduced (ORT = JAX now)")
    return 1 if not same else 0
