"""C01 — the exported model computes the same function as the JAX callable (partial).

PROOF part (kernel-checked every run):
  * Props/C01.lean      dispatch_compositional / lowered_outputs_correct / bind_returned_correct
                        (composition over any number of equations), fixed_eq_ideal_of_noOverflow,
                        rounding / arg-reduction tie-breaking / cumulative-sum / one-hot facts.
  * GenProps/C01*.lean  one obligation per catalogue entry about the recipe REGENERATED from the
                        real `to_onnx` on this run (Gen/C01*.lean): ∀ inputs of the exact domain,
                        evaluating the emitted ONNX sub-graph = the JAX-side semantics.
TIE, every run:
  T  recipes are translated from the graphs the live exporter emits (true translation);
  H  the Lean operator semantics (Op.eval, Onnx.*) against ONNX Runtime on single-operator models,
     the Lean JAX-side semantics (jaxSem) against eager JAX, the translated recipes against ORT on
     the real exported model, `bindReturned` against the real `bind_returned_lowering_values`
     — all on generated exact inputs through drivers/C01.lean;
     8-bit entries are swept over ALL values (model: Lean interpreter; code: ORT vs eager JAX).
EXPLORATION part (labelled as such in the evidence): every registered plugin/example testcase of
tests/t_generator (quick: seeded ~5 % sample; thorough: all) ORT vs eager JAX on an adversarial
input distribution, tolerance derived from JAX's own f32/f64 (and one-ulp input perturbation)
discrepancy — see harness/c01_explore.py.
"""
from __future__ import annotations

import hashlib
import json
import os
import time
import warnings
from fractions import Fraction
from pathlib import Path
from typing import Any, Optional

import numpy as np

warnings.filterwarnings("ignore")

import common
from common import Check, LEAN, write_if_changed

META = {
    "ready": True,
    "level": "proof",
    "technique": "Lean 4 theorems: compositionality of plugin dispatch (induction over equations), "
                 "per-primitive recipe = JAX semantics for a catalogue of value-dependent lowerings, "
                 "recipes regenerated from the live exporter each run; driver correspondence of operator "
                 "/ JAX semantics against ORT / eager JAX; ORT-vs-JAX exploration of all plugin testcases",
    "level_text": "Kernel-checked: dispatch_compositional, lowered_outputs_correct, bind_returned_correct, "
                  "fixed_eq_ideal_of_noOverflow, onnxRound_eq_jaxRoundEven, roundAwayFix_correct (lax.round "
                  "AWAY_FROM_ZERO, repaired in /repo 3e0a3fd, is proved at full strength on the regenerated "
                  "recipe), onnxArgMax/ArgMin_eq_jax, onnxCumSum_eq_jaxCumsum, "
                  "oneHot_agree_partial (+ refutation), and one theorem per catalogue entry (≈75 regenerated "
                  "recipes: integer div/rem/floor_divide/mod/sign/abs/neg/max/min/clamp/clip/integer_pow, "
                  "comparisons, select_n, boolean and bitwise ops, shifts, conversions, round/floor/ceil, "
                  "argmax/argmin, cumsum, one_hot) quantified over all inputs of the stated exact domain; "
                  "round 2: 27 tensor-level entries as whole dataflow graphs (rev/flip, roll, pad of either sign, iota/arange, "
                  "reduce max/min/sum/prod/all/any incl. the empty reduction, cummax/cummin through MaxPool, dynamic_slice "
                  "(partial + refuted), take clip/wrap, x[idx] (partial + refuted), sort/argsort/top_k tie order) with "
                  "all-length operator theorems in Props/C01Tensor (onnxPad_eq_jaxPad, onnxTopK_eq_stableSort, "
                  "maxPool_prefix_eq_cummax, reduceMin_of_bits_eq_all …). "
                  "PARTIAL: everything outside the catalogue (≈1770 plugin testcases) is executed, not proved.",
    "level_note": "Proof covers composition + the catalogue; ℤ statements carry the formal no-overflow "
                  "hypothesis (noOverflow ⇒ fixed = ideal); floats are modelled over ℚ (exact on the inputs "
                  "that decide the discrete choices). popcnt/clz/shra_i8 recipes are swept over all 2^8/2^16 "
                  "inputs by the Lean interpreter and by ORT-vs-JAX, not kernel-proved. Trusted: Lean kernel, "
                  "the graph→Lean translator (validated against ORT each run), ONNX operator and JAX "
                  "semantics (validated against ORT / eager JAX each run). The remaining plugins are "
                  "exploration: seeded sample in quick, all in thorough; fraction reported in the evidence.",
    "design_ref": "DESIGN.md §3 C01",
}

MODS = ["J2O.Props.C01", "J2O.Props.C01Tensor", "J2O.GenProps.C01", "J2O.GenProps.C01Bits",
        "J2O.GenProps.C01Tensor", "J2O.GenProps.C01Index"]
CORPUS = common.VERIF / "corpus"
COSTS = CORPUS / "C01-costs.json"

INT_INFO = {"i8": (-128, 127), "u8": (0, 255), "i32": (-2 ** 31, 2 ** 31 - 1)}
NP_OF = {"i8": np.int8, "u8": np.uint8, "i32": np.int32, "f32": np.float32, "bool": np.bool_}


# ----------------------------------------------------------------------------- generate


_GEN_CACHE: dict = {}


def generate() -> dict:
    import logging
    logging.disable(logging.CRITICAL)
    import c01_catalogue as C
    es = C.entries()
    bits, main, info = C.generate_sources(es)
    write_if_changed(LEAN / "J2O/Gen/C01Bits.lean", bits)
    write_if_changed(LEAN / "J2O/Gen/C01.lean", main)
    ges = C.gentries()
    gsrc, ginfo = C.generate_graph_source(ges)
    write_if_changed(LEAN / "J2O/Gen/C01Tensor.lean", gsrc)
    _GEN_CACHE.update({"entries": es, "info": info, "models": info.pop("__models__"), "gentries": ges,
                       "ginfo": ginfo})
    return _GEN_CACHE


# ----------------------------------------------------------------------------- values


def lean_val(v) -> str:
    if isinstance(v, (bool, np.bool_)):
        return f"b:{1 if v else 0}"
    if isinstance(v, (int, np.integer)):
        return f"i:{int(v)}"
    if isinstance(v, Fraction):
        return f"q:{v.numerator}/{v.denominator}"
    if isinstance(v, (float, np.floating)):
        fr = Fraction(float(v))
        return f"q:{fr.numerator}/{fr.denominator}"
    raise TypeError(type(v))


def canon(v) -> str:
    """numpy scalar -> the canonical string the driver prints for the same value."""
    if isinstance(v, (bool, np.bool_)):
        return f"b:{1 if v else 0}"
    if isinstance(v, (int, np.integer)):
        return f"i:{int(v)}"
    f = float(v)
    if f != f or f in (float("inf"), float("-inf")):
        return "nonfinite"
    fr = Fraction(f)
    return f"q:{fr.numerator}/{fr.denominator}"


def int_points(lo: int, hi: int, small: bool = False) -> list[int]:
    pts = {lo, lo + 1, hi, hi - 1, 0, 1, -1, 2, -2, 3, -3, 4, 5, -5, 7, -7, 8, -8, 9, 10, -10, 100, -100,
           31, 32, 33, 63, 64, 127, 128, 255, 256, -127, -128, -129, 46340, 46341, -46341, 65535, 65536}
    if small:
        pts = {lo, lo + 1, hi, hi - 1, 0, 1, -1, 2, -2, 3, -3, 5, -5, 7, -7, 8, -8, 10, -10, 100, -100, 32, 33,
               46341, -46341, 65536}
    return sorted(p for p in pts if lo <= p <= hi)


HALVES = [Fraction(n, 2) for n in range(-9, 10)] + [Fraction(n, 4) for n in (-7, -5, -3, -1, 1, 3, 5, 7)] + \
         [Fraction(2 ** 23 + 1, 2), Fraction(-(2 ** 23 + 1), 2), Fraction(2 ** 24), Fraction(-2 ** 24),
          Fraction(16777215, 2 ** 25), Fraction(-16777215, 2 ** 25),
          Fraction(100), Fraction(-100), Fraction(1, 1024), Fraction(-1, 1024), Fraction(2147483520),
          Fraction(-2147483648)]


for _h in HALVES:       # every float point must be an exact float32
    assert Fraction(float(np.float32(float(_h)))) == _h, _h


def entry_inputs(e, rng: common.Rng, thorough: bool) -> list[tuple]:
    """Exact input tuples for one scalar catalogue entry (before domain filtering)."""
    cols = []
    for dt in e.in_dts:
        name = np.dtype(dt).name
        if name == "bool":
            cols.append([False, True])
        elif name in ("int8", "uint8"):
            lo, hi = (-128, 127) if name == "int8" else (0, 255)
            cols.append(list(range(lo, hi + 1)))
        elif name == "int32":
            cols.append(int_points(-2 ** 31, 2 ** 31 - 1, small=len(e.in_dts) >= 2 and not thorough))
        else:
            cols.append(list(HALVES) + ([Fraction(2 ** 31), Fraction(3 * 10 ** 9), Fraction(-3 * 10 ** 9),
                                         Fraction(2 ** 33), Fraction(-2 ** 33)] if e.key == "f2i" else []))
    if len(cols) == 1:
        return [(a,) for a in cols[0]]
    if all(np.dtype(d).name in ("int8", "uint8") for d in e.in_dts) and len(cols) == 2:
        # (all pairs are covered by the exhaustive sweep; here: the jaxSem-vs-JAX / recipe-vs-ORT tie)
        lo, hi = cols[1][0], cols[1][-1]
        ss = sorted({s for s in [0, 1, 2, 3, 4, 5, 6, 7, 8, 9, 15, 16, 31, 32, 33, 64, 127, 128, 200, 254, 255,
                                 -1, -2, -7, -8, -9, -128] if lo <= s <= hi} | {rng.randint(lo, hi) for _ in range(6)})
        xs = sorted({x for x in [lo, lo + 1, hi, hi - 1, 0, 1, 2, 3, 7, 8, 15, 16, 64, 100, 127, 128, 129, 200, -1, -2,
                                 -8, -64, -100, -127] if lo <= x <= hi} | {rng.randint(lo, hi) for _ in range(16)})
        if thorough:
            xs = cols[0]
        return [(a, b) for a in xs for b in ss]
    # product, thinned deterministically when large
    out = [()]
    for c in cols:
        out = [t + (a,) for t in out for a in c]
    cap = 6000 if thorough else 1500
    if len(out) > cap:
        keep = set(range(0, len(out), max(1, len(out) // (cap // 2))))
        extra = {rng.randint(0, len(out) - 1) for _ in range(cap // 4)}
        out = [out[i] for i in sorted(keep | extra)]
    return out


def in_domain(e, t: tuple) -> bool:
    """Oracle domain (ORT on the real model vs eager JAX): every finite input on which eager JAX is
    defined and ONNX Runtime does not bring the process down."""
    k = e.key
    dts = [np.dtype(d).name for d in e.in_dts]
    if k in ("div", "rem", "floor_divide", "mod") and dts[0].startswith("int"):
        x, y = t
        if y == 0:
            return False            # ORT: integer division by zero (SIGFPE); JAX: -1 / x — undefined domain
        if x == -2 ** 31 and y == -1:
            return False            # INT_MIN / -1 overflows (ORT dies with SIGFPE)
    if k == "rem" and dts[0] == "float32":
        return t[1] != 0
    if k == "select_n3":
        return 0 <= t[0] < 3        # lax.select_n: selector must index a case
    return True


def tie_domain(e, t: tuple) -> bool:
    """Where the Lean model claims exactness (recipe / jaxSem are compared with ORT / JAX there)."""
    k = e.key
    dts = [np.dtype(d).name for d in e.in_dts]
    if k == "rem" and dts[0] == "float32":
        # small dyadics: x/y is then exact in f32 (ORT does not use an exact fmod)
        return all(Fraction(v).denominator <= 4 and abs(v) <= 100 for v in t)
    if k == "f2i":
        return -2 ** 31 <= int(t[0]) <= 2 ** 31 - 1 - 128      # truncation fits int32
    if k.startswith("ipow"):
        return abs(int(t[0])) ** int(k[4:]) < 2 ** 31          # ORT's integer Pow does not wrap (finding)
    return True


def classify(e, t: tuple) -> str:
    """Kind of input of a catalogue mismatch (used as the key of known findings)."""
    k = e.key
    if k == "round_away":
        return "tie"
    if k in ("shl", "shrl") and e.t in ("i8", "i32"):
        return "signed_operand"
    if k == "shra" and e.t in ("i8", "i32"):
        return "negative_shift" if t[1] < 0 else "other"
    if k == "shra" and e.t == "u8":
        return "top_bit_set" if t[0] >= 128 else "other"
    if k.startswith("ipow"):
        return "overflow"
    if k == "f2i":
        return "out_of_range"
    return "other"


# ----------------------------------------------------------------------------- ORT helpers


def _ort_session(model):
    import onnxruntime as ort
    so = ort.SessionOptions()
    so.graph_optimization_level = ort.GraphOptimizationLevel.ORT_DISABLE_ALL
    so.log_severity_level = 4
    return ort.InferenceSession(model.SerializeToString(), so, providers=["CPUExecutionProvider"])


def run_model_lanes(sess, cols: list[np.ndarray], vec: int) -> np.ndarray:
    """Feed the columns through a model exported for 1-D tensors of length `vec`, chunk by chunk."""
    n = len(cols[0])
    names = [i.name for i in sess.get_inputs()]
    outs = []
    for a in range(0, n, vec):
        feed = {}
        for nm, c in zip(names, cols):
            ch = c[a:a + vec]
            if len(ch) < vec:
                ch = np.concatenate([ch, np.repeat(ch[-1:], vec - len(ch))])
            feed[nm] = ch
        outs.append(sess.run(None, feed)[0])
    return np.concatenate(outs)[:n]


def single_op_model(op_type: str, in_types: list[int], out_type: int, attrs: dict, n: int, opset: int = 23):
    import onnx
    from onnx import helper, TensorProto
    ins = [helper.make_tensor_value_info(f"x{i}", t, [n]) for i, t in enumerate(in_types)]
    out = helper.make_tensor_value_info("y", out_type, [n])
    node = helper.make_node(op_type, [f"x{i}" for i in range(len(in_types))], ["y"], **attrs)
    g = helper.make_graph([node], "g", ins, [out])
    m = helper.make_model(g, opset_imports=[helper.make_opsetid("", opset)])
    m.ir_version = 10
    return m


ONNX_T = {"f32": 1, "u8": 2, "i8": 3, "i32": 6, "i64": 7, "bool": 9, "u32": 12}

# (onnx op, attrs, lean op token, input dtypes, output dtype)
OP_TABLE = [
    ("Div", {}, "div", ["i32", "i32"], "i32"), ("Div", {}, "div", ["i8", "i8"], "i8"),
    ("Mod", {"fmod": 1}, "mod1", ["i32", "i32"], "i32"), ("Mod", {"fmod": 0}, "mod0", ["i32", "i32"], "i32"),
    ("Mod", {"fmod": 1}, "mod1", ["f32", "f32"], "f32"),
    ("Add", {}, "add", ["i32", "i32"], "i32"), ("Sub", {}, "sub", ["i32", "i32"], "i32"),
    ("Mul", {}, "mul", ["i32", "i32"], "i32"), ("Add", {}, "add", ["u8", "u8"], "u8"),
    ("Sub", {}, "sub", ["u8", "u8"], "u8"), ("Mul", {}, "mul", ["u8", "u8"], "u8"),
    ("Neg", {}, "neg", ["i32"], "i32"), ("Neg", {}, "neg", ["i8"], "i8"), ("Abs", {}, "abs", ["i32"], "i32"),
    ("Abs", {}, "abs", ["i8"], "i8"), ("Sign", {}, "sign", ["i32"], "i32"), ("Sign", {}, "sign", ["f32"], "f32"),
    ("Max", {}, "max", ["i32", "i32"], "i32"), ("Min", {}, "min", ["i32", "i32"], "i32"),
    ("Max", {}, "max", ["f32", "f32"], "f32"), ("Min", {}, "min", ["f32", "f32"], "f32"),
    ("Clip", {}, "clip", ["i32", "i32", "i32"], "i32"), ("Clip", {}, "clip", ["f32", "f32", "f32"], "f32"),
    ("Round", {}, "round", ["f32"], "f32"), ("Floor", {}, "floor", ["f32"], "f32"),
    ("Ceil", {}, "ceil", ["f32"], "f32"), ("Abs", {}, "abs", ["f32"], "f32"), ("Neg", {}, "neg", ["f32"], "f32"),
    ("Pow", {}, "pow", ["i32", "i32"], "i32"),
    ("BitShift", {"direction": "LEFT"}, "shl", ["u8", "u8"], "u8"),
    ("BitShift", {"direction": "RIGHT"}, "shr", ["u8", "u8"], "u8"),
    ("BitShift", {"direction": "LEFT"}, "shl", ["u32", "u32"], "u32"),
    ("BitShift", {"direction": "RIGHT"}, "shr", ["u32", "u32"], "u32"),
    ("BitwiseAnd", {}, "bitAnd", ["i8", "i8"], "i8"), ("BitwiseOr", {}, "bitOr", ["u8", "u8"], "u8"),
    ("BitwiseXor", {}, "bitXor", ["i32", "i32"], "i32"), ("BitwiseNot", {}, "bitNot", ["i8"], "i8"),
    ("BitwiseNot", {}, "bitNot", ["u8"], "u8"),
    ("And", {}, "and", ["bool", "bool"], "bool"), ("Or", {}, "or", ["bool", "bool"], "bool"),
    ("Xor", {}, "xor", ["bool", "bool"], "bool"), ("Not", {}, "not", ["bool"], "bool"),
    ("Equal", {}, "eq", ["i32", "i32"], "bool"), ("Less", {}, "lt", ["i32", "i32"], "bool"),
    ("LessOrEqual", {}, "le", ["i32", "i32"], "bool"), ("Greater", {}, "gt", ["i32", "i32"], "bool"),
    ("GreaterOrEqual", {}, "ge", ["i32", "i32"], "bool"), ("Less", {}, "lt", ["f32", "f32"], "bool"),
    ("Equal", {}, "eq", ["bool", "bool"], "bool"),
    ("Where", {}, "where", ["bool", "i32", "i32"], "i32"),
    ("Cast", {"to": 6}, "cast", ["f32"], "i32"), ("Cast", {"to": 9}, "cast", ["f32"], "bool"),
    ("Cast", {"to": 9}, "cast", ["i32"], "bool"), ("Cast", {"to": 6}, "cast", ["bool"], "i32"),
    ("Cast", {"to": 3}, "cast", ["i32"], "i8"), ("Cast", {"to": 2}, "cast", ["i32"], "u8"),
    ("Cast", {"to": 12}, "cast", ["i32"], "u32"), ("Cast", {"to": 1}, "cast", ["i32"], "f32"),
    ("Cast", {"to": 2}, "cast", ["i8"], "u8"), ("Cast", {"to": 3}, "cast", ["u8"], "i8"),
]

NPT = {"f32": np.float32, "u8": np.uint8, "i8": np.int8, "i32": np.int32, "bool": np.bool_, "u32": np.uint32,
       "i64": np.int64}


def op_points(dt: str, rng: common.Rng) -> list:
    if dt == "bool":
        return [False, True]
    if dt in ("i8", "u8"):
        lo, hi = (-128, 127) if dt == "i8" else (0, 255)
        return sorted({lo, lo + 1, hi, hi - 1, 0, 1, 2, 3, 7, 8, 9, 15, 16, 31, 32, 33, 64, 100, 127, 128, 200, -1,
                       -2, -7, -8, -100} & set(range(lo, hi + 1)))
    if dt == "u32":
        return [0, 1, 2, 7, 8, 31, 32, 33, 255, 65536, 2 ** 31, 2 ** 32 - 1, 4000000000]
    if dt == "i32":
        return [p for p in int_points(-2 ** 31, 2 ** 31 - 1) if abs(p) < 2 ** 31 - 2 or True][:]
    return list(HALVES)


def op_domain(lean: str, dts: list, t: tuple, odt: str = "") -> bool:
    if lean == "cast" and odt == "f32" and dts[0] != "bool":
        return abs(int(t[0])) <= 2 ** 24        # exactly representable in float32
    if lean in ("div", "mod1", "mod0"):
        if t[1] == 0:
            return False
        if dts[0] == "i32" and t[0] == -2 ** 31 and t[1] == -1:
            return False
        if dts[0] == "i8" and t[0] == -128 and t[1] == -1:
            return False
    if lean == "mod1" and dts[0] == "f32":
        return t[1] != 0 and all(Fraction(v).denominator <= 4 and abs(v) <= 100 for v in t)
    if lean == "pow":
        x, k = t
        return 0 <= k <= 5 and abs(x) ** k < 2 ** 31      # ORT's integer Pow does not wrap (finding); in-range only
    if lean == "cast" and dts[0] == "f32":
        return abs(t[0]) < 2 ** 31 - 200
    if lean == "clip":
        return True
    return True


# ----------------------------------------------------------------------------- validation stages


def validate_operators(chk: Check, rng: common.Rng) -> list[dict]:
    """Lean `Op.eval` (fixed mode) against ONNX Runtime on single-operator models."""
    lines, meta, results = [], [], []
    for (op, attrs, lean, dts, odt) in OP_TABLE:
        cols = [op_points(d, rng) for d in dts]
        tuples = [()]
        for c in cols:
            tuples = [t + (a,) for t in tuples for a in c]
        tuples = [t for t in tuples if op_domain(lean, dts, t, odt)]
        if len(tuples) > 1500:
            tuples = [tuples[i] for i in sorted({rng.randint(0, len(tuples) - 1) for _ in range(1200)} |
                                                set(range(0, len(tuples), max(1, len(tuples) // 300))))]
        n = len(tuples)
        arrs = [np.asarray([float(t[i]) if dts[i] == "f32" else t[i] for t in tuples], dtype=NPT[dts[i]])
                for i in range(len(dts))]
        try:
            m = single_op_model(op, [ONNX_T[d] for d in dts], ONNX_T[odt], attrs, n)
            out = _ort_session(m).run(None, {f"x{i}": a for i, a in enumerate(arrs)})[0]
        except Exception as ex:
            results.append({"op": op, "dts": dts, "error": str(ex)[:200]})
            continue
        for j, t in enumerate(tuples):
            lines.append(f"op fixed {odt} {dts[0]} {lean} " + " ".join(lean_val(v) for v in t))
            meta.append((op, attrs, dts, t, canon(out[j])))
    ans = yield lines
    bad = []
    per_op: dict[str, int] = {}
    for (op, attrs, dts, t, ortv), a in zip(meta, ans):
        per_op[op] = per_op.get(op, 0) + 1
        chk.count({"stage": "operator", "op": op, "attrs": attrs, "dtypes": dts, "input": [str(v) for v in t],
                   "ort": ortv, "lean": a}, nontrivial=True)
        if a != ortv:
            bad.append({"op": op, "attrs": attrs, "dtypes": dts, "input": [str(v) for v in t], "ort": ortv, "lean": a})
    chk.info("operator_semantics_vs_ort", {"cases": len(lines), "disagreements": len(bad), "per_operator": per_op,
                                           "ort_errors": results})
    return bad


def validate_catalogue(chk: Check, rng: common.Rng, gen: dict, thorough: bool):
    """Per scalar entry: ORT(real exported model) vs eager JAX (the property oracle), and both
    against the Lean side (recipe in fixed mode / jaxSem) through the driver."""
    import c01_catalogue as C
    import jax.numpy as jnp
    lines: list[str] = []
    meta: list = []
    oracle_mismatch: list[dict] = []
    stats: dict[str, dict] = {}
    for e in gen["entries"]:
        if e.kind != "scalar":
            continue
        model = gen["models"].get(e.name)
        st = stats.setdefault(e.name, {"inputs": 0, "oracle_mismatch": 0})
        if model is None:
            st["export_error"] = gen["info"][e.name].get("export_error")
            continue
        tuples = [t for t in entry_inputs(e, rng, thorough) if in_domain(e, t)]
        st["inputs"] = len(tuples)
        cols = []
        for i, dt in enumerate(e.in_dts):
            if np.dtype(dt).kind == "f":
                cols.append(np.asarray([float(t[i]) for t in tuples], dtype=dt))
            else:
                cols.append(np.asarray([t[i] for t in tuples], dtype=dt))
        jax_out = np.asarray(e.fn(*[jnp.asarray(c) for c in cols]))
        try:
            sess = _ort_session(model)
            ort_out = run_model_lanes(sess, cols, C.VEC)
            st["ort"] = "ok"
        except Exception as ex:
            ort_out = None
            st["ort"] = "rejected: " + str(ex)[:160]
        for j, t in enumerate(tuples):
            jv = canon(jax_out[j])
            ov = canon(ort_out[j]) if ort_out is not None else "model-rejected"
            if ov != jv and ort_out is not None:
                st["oracle_mismatch"] += 1
                oracle_mismatch.append({"entry": e.name, "key": e.key, "dtype": e.t, "input": [str(v) for v in t],
                                        "ort": ov, "jax": jv, "kind": classify(e, t)})
            if not tie_domain(e, t):
                continue
            lines.append(f"recipe {e.name} fixed " + " ".join(lean_val(v) for v in t))
            meta.append(("recipe", e, t, ov))
            lines.append(f"jax {e.key} {e.t} " + " ".join(lean_val(v) for v in t))
            meta.append(("jax", e, t, jv))
    ans = yield lines
    tie_bad = []
    def wrap_to(a: str, t: str) -> str:
        # jaxSem is stated over ℤ; eager JAX wraps (ring operations commute with the wrap)
        if a.startswith("i:") and t in ("i8", "u8", "i32"):
            lo, hi = INT_INFO[t]
            n = (int(a[2:]) - lo) % (hi - lo + 1) + lo
            return f"i:{n}"
        return a

    for (what, e, t, real), a in zip(meta, ans):
        if what == "jax":
            a = wrap_to(a, e.t)
        ok = (a == real) or (what == "recipe" and real == "model-rejected" and a == "err")
        chk.count({"stage": "catalogue-" + what, "entry": e.name, "input": [str(v) for v in t], "real": real,
                   "lean": a}, nontrivial=True, sample_every=2000)
        if not ok:
            tie_bad.append({"what": what, "entry": e.name, "key": e.key, "input": [str(v) for v in t],
                            "real": real, "lean": a})
    chk.info("catalogue_entries", stats)
    return oracle_mismatch, tie_bad


def validate_sweeps(chk: Check, gen: dict) -> list[dict]:
    """8-bit entries: all 2^8 / 2^16 inputs. Model side: recipe (fixed) vs jaxSem in the Lean
    interpreter. Code side: ORT on the real model vs eager JAX. The two sets of disagreeing inputs
    must coincide."""
    import c01_catalogue as C
    import jax.numpy as jnp
    bits = [e for e in gen["entries"] if e.bits]
    lines = [f"sweep {e.name} {e.key} {e.t} {len(e.in_dts)}" for e in bits]
    ans = yield lines
    out = []
    summary = {}
    for e, a in zip(bits, ans):
        parts = a.split(" ", 2)
        n, nbad = int(parts[0]), int(parts[1])
        lean_bad = set(parts[2].split(";")) if len(parts) > 2 and parts[2] else set()
        lo, hi = INT_INFO[e.t][0], INT_INFO[e.t][1]
        vals = list(range(lo, hi + 1))
        if len(e.in_dts) == 1:
            tuples = [(v,) for v in vals]
        else:
            tuples = [(a_, b_) for a_ in vals for b_ in vals]
        cols = [np.asarray([t[i] for t in tuples], dtype=e.in_dts[i]) for i in range(len(e.in_dts))]
        model = gen["models"].get(e.name)
        real_bad: Optional[set] = None
        rejected = None
        if model is not None:
            jax_out = np.asarray(e.fn(*[jnp.asarray(c) for c in cols]))
            try:
                ort_out = run_model_lanes(_ort_session(model), cols, C.VEC if len(tuples) <= 256 else C.VEC)
                neq = np.nonzero(ort_out.astype(np.int64) != jax_out.astype(np.int64))[0]
                real_bad = {",".join(str(v) for v in tuples[i]) for i in neq}
            except Exception as ex:
                rejected = str(ex)[:160]
        chk.count({"stage": "sweep", "entry": e.name, "cases": n, "lean_disagreements": nbad,
                   "real_disagreements": None if real_bad is None else len(real_bad), "ort_rejects": rejected},
                  nontrivial=True)
        summary[e.name] = {"cases": n, "model_recipe_vs_jaxSem": nbad,
                           "ort_vs_jax": None if real_bad is None else len(real_bad), "ort_rejects": rejected}
        out.append({"entry": e, "lean_bad": lean_bad, "real_bad": real_bad, "rejected": rejected, "cases": n})
    chk.info("exhaustive_8bit_sweeps", summary)
    return out


def validate_tensor(chk: Check, rng: common.Rng, gen: dict):
    """argmax/argmin (ties), cumsum (direction), one_hot (index handling): ORT(real model) vs JAX
    vs Lean recipe / JAX-side; plus the ONNX operators themselves with the other attribute values."""
    import itertools
    import c01_catalogue as C
    import jax.numpy as jnp
    from onnx import helper
    n = C.VEC
    lists = [list(t) for t in itertools.product([0, 1, 2], repeat=n)][::7]
    lists += [[rng.randint(-3, 3) for _ in range(n)] for _ in range(60)]
    lists += [[5] * n, [-(2 ** 31)] * n, [2 ** 31 - 1, -2 ** 31] * (n // 2), list(range(n)), list(range(n, 0, -1))]
    lines, meta, mism = [], [], []
    for e in gen["entries"]:
        if e.kind == "scalar":
            continue
        model = gen["models"].get(e.name)
        if model is None:
            continue
        sess = _ort_session(model)
        name_in = sess.get_inputs()[0].name
        if e.kind in ("arg", "cum"):
            for l in lists:
                if e.kind == "cum":      # ℤ statement: no-overflow domain
                    l = [max(-10 ** 6, min(10 ** 6, v)) for v in l]
                x = np.asarray(l, dtype=np.int32)
                o = np.asarray(sess.run(None, {name_in: x})[0])
                j = np.asarray(e.fn(jnp.asarray(x)))
                os_, js = " ".join(str(int(v)) for v in o.reshape(-1)), " ".join(str(int(v)) for v in j.reshape(-1))
                if os_ != js:
                    mism.append({"entry": e.name, "input": l, "ort": os_, "jax": js, "kind": "ties"})
                cmd = "targ" if e.kind == "arg" else "tcum"
                lines.append(f"{cmd} {e.name} " + " ".join(map(str, l)))
                meta.append((e.name, l, os_))
                if e.kind == "arg":
                    lines.append(f"jarg {'max' if e.key == 'argmax' else 'min'} " + " ".join(map(str, l)))
                else:
                    lines.append(f"jcum {1 if e.extra.get('reverse') else 0} " + " ".join(map(str, l)))
                meta.append((e.name + ":jax", l, js))
        else:
            depth = e.extra["depth"]
            idxs = list(range(-2 * depth - 1, 2 * depth + 2)) + [2 ** 31 - 1, -2 ** 31]
            for a in range(0, len(idxs), n):
                ch = idxs[a:a + n]
                ch = ch + [0] * (n - len(ch))
                x = np.asarray(ch, dtype=np.int32)
                o = np.asarray(sess.run(None, {name_in: x})[0])
                j = np.asarray(e.fn(jnp.asarray(x)))
                for r, i in enumerate(ch):
                    os_ = "".join("1" if v else "0" for v in (o[r] != 0))
                    js = "".join("1" if v else "0" for v in (j[r] != 0))
                    if os_ != js:
                        mism.append({"entry": e.name, "input": [i], "ort": os_, "jax": js,
                                     "kind": "negative_index" if i < 0 else "other"})
                    lines.append(f"thot {e.name} {i}")
                    meta.append((e.name, [i], os_))
                    lines.append(f"jhot {depth} {i}")
                    meta.append((e.name + ":jax", [i], js))
    # the ONNX operators with every attribute value (model of the operator, not of a recipe)
    for last in (0, 1):
        for which in ("ArgMax", "ArgMin"):
            m = single_op_model(which, [6], 7, {"axis": 0, "keepdims": 0, "select_last_index": last}, n)
            m.graph.output[0].type.tensor_type.shape.Clear()
            s = _ort_session(m)
            for l in lists[:120]:
                o = s.run(None, {"x0": np.asarray(l, dtype=np.int32)})[0]
                lines.append(f"oarg {'max' if which == 'ArgMax' else 'min'} {last} " + " ".join(map(str, l)))
                meta.append((f"{which}(select_last_index={last})", l, str(int(o))))
    for ex in (0, 1):
        for rev in (0, 1):
            import onnx
            from onnx import TensorProto
            g = helper.make_graph(
                [helper.make_node("CumSum", ["x0", "ax"], ["y"], exclusive=ex, reverse=rev)], "g",
                [helper.make_tensor_value_info("x0", 6, [n])], [helper.make_tensor_value_info("y", 6, [n])],
                initializer=[helper.make_tensor("ax", TensorProto.INT64, [], [0])])
            m = helper.make_model(g, opset_imports=[helper.make_opsetid("", 23)])
            m.ir_version = 10
            s = _ort_session(m)
            for l in lists[:120]:
                l2 = [max(-1000, min(1000, v)) for v in l]
                o = s.run(None, {"x0": np.asarray(l2, dtype=np.int32)})[0]
                lines.append(f"ocum {ex} {rev} " + " ".join(map(str, l2)))
                meta.append((f"CumSum(exclusive={ex},reverse={rev})", l2, " ".join(str(int(v)) for v in o)))
    for depth in (1, 3, 5):
        from onnx import TensorProto
        g = helper.make_graph(
            [helper.make_node("OneHot", ["x0", "d", "v"], ["y"], axis=-1)], "g",
            [helper.make_tensor_value_info("x0", 7, [n])], [helper.make_tensor_value_info("y", 1, [n, depth])],
            initializer=[helper.make_tensor("d", TensorProto.INT64, [], [depth]),
                         helper.make_tensor("v", TensorProto.FLOAT, [2], [0.0, 1.0])])
        m = helper.make_model(g, opset_imports=[helper.make_opsetid("", 23)])
        m.ir_version = 10
        s = _ort_session(m)
        idxs = list(range(-2 * depth - 1, 2 * depth + 2))
        for a in range(0, len(idxs), n):
            ch = idxs[a:a + n]
            ch = ch + [0] * (n - len(ch))
            o = s.run(None, {"x0": np.asarray(ch, dtype=np.int64)})[0]
            for r, i in enumerate(ch):
                lines.append(f"ohot {depth} {i}")
                meta.append((f"OneHot(depth={depth})", [i], "".join("1" if v else "0" for v in (o[r] != 0))))
    ans = yield lines
    tie_bad = []
    for (name, inp, real), a in zip(meta, ans):
        chk.count({"stage": "tensor", "what": name, "input": inp, "real": real, "lean": a}, nontrivial=True,
                  sample_every=500)
        if a != real:
            tie_bad.append({"what": name, "input": inp, "real": real, "lean": a})
    chk.info("tensor_level", {"cases": len(lines), "tie_disagreements": len(tie_bad),
                              "oracle_mismatches": len(mism)})
    return mism, tie_bad



# ----------------------------------------------------------------------------- round 2: dataflow recipes


def tn_str(a) -> str:
    """numpy array -> the driver's tensor syntax (booleans 0/1, integer-valued floats as integers)."""
    a = np.asarray(a)
    flat = a.reshape(-1)
    if a.dtype.kind == "f":
        if not all(np.isfinite(v) and float(v) == int(v) for v in flat):
            return "nonint"
    return "x".join(str(int(d)) for d in a.shape) + ":" + ",".join(str(int(v)) for v in flat)


def graph_inputs(e, rng: common.Rng, thorough: bool, extent: Optional[int] = None) -> list[list]:
    """Input lists for one dataflow entry (pattern-directed: ties, extremes, every index around the
    bounds, every boolean vector)."""
    import itertools
    cols = []
    for gi, g in enumerate(e.gens):
        kind, n = g[0], g[1]
        if gi == 0 and extent is not None:
            n = extent
        isf = np.dtype(e.in_dts[gi]).kind == "f"
        big = 2 ** 24 if isf else 2 ** 31 - 1
        if kind in ("vals", "ties", "small", "mid"):
            base = [list(t) for t in itertools.product([0, 1, 2], repeat=n)]
            base = base[::max(1, len(base) // (60 if not thorough else 300))]
            r = 3 if kind in ("small", "ties") else 9
            base += [[rng.randint(-r, r) for _ in range(n)] for _ in range(40)]
            if kind in ("vals", "ties"):
                base += [[big, -big - (0 if isf else 1)] * (n // 2) + [0] * (n % 2), [-big - (0 if isf else 1)] * n,
                         [big] * n, [0, -big - (0 if isf else 1), 5, 1, -5, 9][:n] + [0] * max(0, n - 6)]
            if kind == "mid":
                base += [[10 ** 6, -10 ** 6] * (n // 2) + [7] * (n % 2)]
            base += [list(range(n)), list(range(n, 0, -1)), [5] * n]
            cols.append([b[:n] for b in base] if n else [[]])
        elif kind == "bools":
            cols.append([list(t) for t in itertools.product([0, 1], repeat=n)])
        elif kind == "idx":
            ext = g[2]
            pts = list(range(-2 * ext - 1, 2 * ext + 2)) + [2 ** 31 - 1, -2 ** 31]
            rows = [pts[a:a + n] + [0] * (n - len(pts[a:a + n])) for a in range(0, len(pts), n)]
            rows += [[rng.randint(-ext, ext - 1) for _ in range(n)] for _ in range(20)]
            cols.append(rows)
        elif kind == "start":
            ext = g[1]
            cols.append([[v] for v in list(range(-2 * ext - 1, 2 * ext + 2)) + [2 ** 31 - 1 - 2 * ext, -2 ** 31, 100, -100]])
        else:
            raise ValueError(kind)
    if len(cols) == 1:
        return [[c] for c in cols[0]]
    # data column × index column: every index row with a few data rows
    data = cols[0][-8:] + cols[0][:4]
    out = []
    for k, row in enumerate(cols[1]):
        out.append([data[k % len(data)], row])
        out.append([data[(k + 5) % len(data)], row])
    return out


def _model_with_intermediates(model):
    import onnx
    m = onnx.ModelProto()
    m.CopyFrom(model)
    try:
        inferred = onnx.shape_inference.infer_shapes(m, strict_mode=False)
    except Exception:
        return m, []
    have = {o.name for o in m.graph.output}
    vis = {vi.name: vi for vi in inferred.graph.value_info}
    extra = []
    for n in m.graph.node:
        for o in n.output:
            if o and o not in have and o in vis and vis[o].type.tensor_type.elem_type != 0:
                m.graph.output.append(vis[o])
                extra.append(o)
                have.add(o)
    return m, extra


def validate_graphs(chk: Check, rng: common.Rng, gen: dict, thorough: bool):
    """Dataflow entries: ORT on the real exported model (every intermediate value) vs the Lean evaluation
    of the regenerated recipe (tie), ORT vs eager JAX (the property oracle), jaxSemT vs eager JAX (tie)."""
    import jax.numpy as jnp
    lines, meta, oracle = [], [], []
    stats: dict[str, dict] = {}
    for e in gen["gentries"]:
        gi = gen["ginfo"][e.name]
        st = stats.setdefault(e.name, {"inputs": 0, "oracle_mismatch": 0, "nodes": gi["nodes"]})
        if gi["generic_bad"]:
            st["not_length_generic"] = gi["generic_bad"]
        variants = [(None, gi["model"], gi["tr"])] + [(n, m, None) for n, m in sorted(gi["other_models"].items())]
        for extent, model, tr in variants:
            if model is None:
                st["export_error"] = gi["export_error"]
                continue
            sess, names, rejected = None, [], None
            try:
                m2, _ = _model_with_intermediates(model)
                sess = _ort_session(m2)
                names = [o.name for o in sess.get_outputs()]
            except Exception as ex:
                try:        # the intermediates themselves may be the problem: plain model
                    sess = _ort_session(model)
                    names = [o.name for o in sess.get_outputs()]
                except Exception as ex2:
                    rejected = str(ex2)[:200]
            if extent is None:
                st["ort"] = "ok" if rejected is None else "rejected: " + rejected
            n_out = len(model.graph.output)
            all_inputs = graph_inputs(e, rng, thorough, extent)
            if extent is not None:
                all_inputs = all_inputs[:: max(1, len(all_inputs) // 25)]
            for ins in all_inputs:
                arrs = [np.asarray(v, dtype=dt) for v, dt in zip(ins, e.in_dts)]
                arrs = [a.reshape(-1) for a in arrs]
                try:
                    jo = e.fn(*[jnp.asarray(a) for a in arrs])
                    jo = [np.asarray(v) for v in (jo if isinstance(jo, (tuple, list)) else [jo])]
                    jv = " ".join(tn_str(v) for v in jo)
                except Exception as ex:
                    jv = "jax-error"
                ort_vals: Optional[dict] = None
                ov = "model-rejected"
                if sess is not None:
                    try:
                        res = sess.run(None, {i.name: a for i, a in zip(sess.get_inputs(), arrs)})
                        ort_vals = {nm: tn_str(v) for nm, v in zip(names, res)}
                        ov = " ".join(ort_vals[o.name] for o in model.graph.output)
                    except Exception as ex:
                        ov = "ort-error"
                st["inputs"] += 1
                kind = e.kinds(ins) if e.kinds else "other"
                ideal = e.ideal_ok(ins) if e.ideal_ok else True
                if not ideal:
                    kind = "overflow"
                if rejected is not None:
                    kind = "ort_rejects_model"
                if ov != jv and jv != "jax-error":
                    st["oracle_mismatch"] += 1
                    oracle.append({"entry": e.name, "jax_key": e.jax, "input": ins, "ort": ov, "jax": jv, "kind": kind,
                                   "extent": extent})
                if not ideal:       # outside the no-overflow domain of the ℤ statement: oracle only
                    continue
                tline = " ".join(tn_str(a) for a in arrs)
                lines.append(f"grecipe {e.name} {tline}")
                meta.append(("recipe", e, ins, (ov, ort_vals, tr or gi["tr"], n_out)))
                if jv != "jax-error":
                    lines.append(f"gjax {e.jax} / {tline}")
                    meta.append(("jax", e, ins, jv))
    ans = yield lines
    tie_bad, jax_bad = [], []
    for (what, e, ins, real), a in zip(meta, ans):
        if what == "jax":
            ok = a == real
            chk.count({"stage": "graph-jax", "entry": e.name, "input": ins, "real": real, "lean": a}, nontrivial=True,
                      sample_every=500)
            if not ok:
                jax_bad.append({"entry": e.name, "input": ins, "jax": real, "lean": a})
            continue
        ov, ort_vals, tr, n_out = real
        parts = a.split(" ")
        status, vals = parts[0], parts[1:]
        bad = None
        if ort_vals is None:
            if status != "fail":
                bad = f"ORT {ov}, the Lean recipe evaluates"
        elif status != "ok":
            bad = f"ORT runs, the Lean recipe fails at value {len(vals)} ({tr['names'][len(vals)] if len(vals) < len(tr['names']) else '?'})"
        else:
            for pos, nm in enumerate(tr["names"]):
                if nm in ort_vals and pos < len(vals) and ort_vals[nm] != "nonint" and vals[pos] != ort_vals[nm]:
                    bad = f"value {nm}: ORT {ort_vals[nm]} Lean {vals[pos]}"
                    break
        chk.count({"stage": "graph-recipe", "entry": e.name, "input": ins, "ort": ov, "lean": status,
                   "values_compared": 0 if ort_vals is None else len(ort_vals)}, nontrivial=True, sample_every=500)
        if bad:
            tie_bad.append({"what": "graph-recipe", "entry": e.name, "input": ins, "why": bad})
    chk.info("dataflow_entries", stats)
    return oracle, tie_bad, jax_bad


# (onnx op, attrs, driver op tokens, [(dtype, value)…] inputs) — operator models with attribute / argument
# values the current recipes do not use (the recipes' own use is compared on every intermediate value)
def gop_table():
    I64, I32, F32 = 7, 6, 1
    v = [3, -1, 4, 1, -5, 9]
    t = []
    for lo, hi in [(2, 1), (-2, 1), (1, -3), (0, 0), (-3, -3), (-1, 4), (-6, 0)]:
        t.append(("Pad", {"mode": "constant"}, "pad", [(I32, v), (I64, [lo, hi]), (I32, 7)], I32))
    for s, e_ in [(4, 6), (0, 4), (-2, 6), (2, -1), (-9, 3), (4, 99), (5, 2), (-1, -9), (7, 9), (2 ** 31, 2 ** 33)]:
        t.append(("Slice", {}, "slice", [(I32, v), (I64, [s]), (I64, [e_]), (I64, [0]), (I64, [1])], I32))
        t.append(("Slice", {}, "slice", [(I32, v), (I64, [s]), (I64, [e_])], I32))
    for s, l, d in [(0, 6, 1), (2, 14, 2), (2, 13, 2), (5, 0, -1), (5, 0, 1), (0, 0, 1), (-3, 4, 3), (7, -8, -4)]:
        t.append(("Range", {}, "range", [(I64, s), (I64, l), (I64, d)], I64))
    for idx in [[0, 5], [-1, -6], [3], [2, -2, 2]]:
        t.append(("Gather", {"axis": 0}, "gather 0", [(I32, v), (I64, idx)], I32))
        t.append(("GatherElements", {"axis": 0}, "gatherElements 0", [(I32, v), (I64, idx)], I32))
    t.append(("Gather", {"axis": 0}, "gather 0", [(I32, v), (I64, 4)], I32))
    for data in [[2, 1, 2, 1, 0, 2], [5, 5, 5, 5, 5, 5], v, [0, -1, 0, -1, 7, 7]]:
        for lg in (0, 1):
            for k in (1, 3, 6):
                for idx in (0, 1):
                    t.append(("TopK", {"axis": 0, "largest": lg, "sorted": 1}, f"topk {idx} 0 {lg} 1",
                              [(I32, data), (I64, [k])], (I32, I64)[idx], idx))
    for op, k in [("ReduceMax", "max"), ("ReduceMin", "min"), ("ReduceSum", "sum"), ("ReduceProd", "prod")]:
        for data in [v, [4], []]:
            for dt in (I32, I64):
                for keep in (0, 1):
                    t.append((op, {"keepdims": keep}, f"reduce {k} {keep}", [(dt, data)], dt))
    for k, pl, pr in [(6, 5, 0), (6, 0, 5), (3, 2, 0), (3, 1, 1), (2, 0, 0), (1, 0, 0), (4, 3, 3)]:
        t.append(("MaxPool", {"kernel_shape": [k], "strides": [1], "pads": [pl, pr]}, f"maxPool {k} {pl} {pr}",
                  [(F32, np.asarray(v, np.float32).reshape(1, 1, 6))], F32))
    for f, tok in [("Add", "add"), ("Sub", "sub"), ("Mul", "mul"), ("Div", "div"), ("Max", "max"), ("Min", "min"),
                   ("Less", "less"), ("Greater", "greater"), ("Equal", "equal")]:
        t.append((f, {}, f"bin {tok}", [(I32, v), (I32, [2, -1, 4, -3, 2, 9])], 9 if f in ("Less", "Greater", "Equal") else I32))
        t.append((f, {}, f"bin {tok}", [(I32, v), (I32, 2)], 9 if f in ("Less", "Greater", "Equal") else I32))
        t.append((f, {}, f"bin {tok}", [(I32, -2), (I32, v)], 9 if f in ("Less", "Greater", "Equal") else I32))
    t.append(("Where", {}, "where", [(9, [1, 0, 1, 0, 0, 1]), (I32, v), (I32, 7)], I32))
    t.append(("Where", {}, "where", [(9, [1, 0, 1, 0, 0, 1]), (I32, -7), (I32, v)], I32))
    t.append(("Expand", {}, "expand", [(I64, 3), (I64, [4])], I64))
    t.append(("Expand", {}, "expand", [(I64, np.asarray([[1], [2]])), (I64, [2, 1])], I64))
    t.append(("Reshape", {}, "reshape", [(I32, v), (I64, [3, 2])], I32))
    t.append(("Squeeze", {}, "squeeze", [(I64, [6]), (I64, [0])], I64))
    t.append(("Unsqueeze", {}, "unsqueeze", [(I64, 6), (I64, [0])], I64))
    t.append(("Unsqueeze", {}, "unsqueeze", [(I64, [6, 2]), (I64, [1])], I64))
    t.append(("Shape", {}, "shape", [(I32, np.zeros((2, 3), np.int32))], I64))
    t.append(("Concat", {"axis": 0}, "concat 0", [(I32, v), (I32, [1]), (I32, [])], I32))
    return t


_NP_OF_ONNX = {1: np.float32, 6: np.int32, 7: np.int64, 9: np.bool_}
_DT_NAME = {1: "f32", 6: "i32", 7: "i64", 9: "bool"}


def validate_gops(chk: Check):
    """Lean `GOp.eval` against ONNX Runtime on single-operator models (inputs as initializers)."""
    from onnx import helper, numpy_helper
    lines, meta = [], []
    for row in gop_table():
        op, attrs, tok, ins, odt = row[:5]
        which = row[5] if len(row) > 5 else 0
        arrs = [np.asarray(v, dtype=_NP_OF_ONNX[dt]) for dt, v in ins]
        inits = [numpy_helper.from_array(a, f"c{i}") for i, a in enumerate(arrs)]
        n_out = 2 if op == "TopK" else 1
        node = helper.make_node(op, [f"c{i}" for i in range(len(arrs))], [f"y{j}" for j in range(n_out)], **attrs)
        outs = [helper.make_tensor_value_info(f"y{j}", (odt if j == which else (7 if j == 1 else ins[0][0])), None)
                for j in range(n_out)]
        g = helper.make_graph([node], "g", [], outs, initializer=inits)
        m = helper.make_model(g, opset_imports=[helper.make_opsetid("", 23)])
        m.ir_version = 10
        try:
            res = _ort_session(m).run(None, {})
            real = tn_str(res[which])
        except Exception as ex:
            real = "none"
        lines.append(f"gop {_DT_NAME[odt]} {_DT_NAME[ins[0][0]]} {tok} / " + " ".join(tn_str(a) for a in arrs))
        meta.append((op, attrs, [np.asarray(a).tolist() for a in arrs], real))
    ans = yield lines
    bad = []
    for (op, attrs, ins, real), a in zip(meta, ans):
        chk.count({"stage": "tensor-operator", "op": op, "attrs": {k: str(v) for k, v in attrs.items()}, "input": ins,
                   "ort": real, "lean": a}, nontrivial=True)
        if a != real:
            bad.append({"op": op, "attrs": attrs, "input": ins, "ort": real, "lean": a})
    chk.info("tensor_operator_semantics_vs_ort", {"cases": len(lines), "disagreements": len(bad)})
    return bad


class _DropVar:     # `is_drop_var` falls back on the class name
    pass


_DropVar.__name__ = "DropVar"


def validate_bind_returned(chk: Check) -> list[dict]:
    """H: the real `bind_returned_lowering_values` with a stub context against `bindReturned`,
    for every outvar configuration up to 4 outvars and every returned arity 0..5 / None."""
    import itertools
    import onnx_ir as ir
    from jax2onnx.converter import output_binding as ob

    class Builder:
        def __init__(self):
            self._var2val = {}
            self.inputs, self.initializers, self.nodes = [], [], []

    class Ctx:
        def __init__(self):
            self.builder = Builder()
            self.bound = []

        def bind_value_for_var(self, var, value):
            self.builder._var2val[var] = value
            self.bound.append((var, value))

    class Var:
        pass

    lines, cases = [], []
    kinds = ["dn", "dN", "dM", "Dn"]       # bound+connected, unbound, bound-to-disconnected, drop
    for n in range(0, 5):
        for cfg in itertools.product(kinds, repeat=n):
            for ret in [None, 0, 1, 2, 3, 4, 5]:
                ctx = Ctx()
                outvars = []
                for i, k in enumerate(cfg):
                    if k == "Dn":
                        outvars.append(_DropVar())
                        continue
                    v = Var()
                    outvars.append(v)
                    if k == "dn":
                        val = ir.val(f"pre{i}", ir.DataType.FLOAT, (1,))
                        ctx.builder.inputs.append(val)
                        ctx.builder._var2val[v] = val
                    elif k == "dM":
                        ctx.builder._var2val[v] = ir.val(f"loose{i}", ir.DataType.FLOAT, (1,))
                rvals = None if ret is None else [ir.val(f"r{j}", ir.DataType.FLOAT, (1,)) for j in range(ret)]
                for rv in rvals or []:
                    ctx.builder.inputs.append(rv)
                eqn = type("E", (), {"outvars": outvars})()
                result = None if rvals is None else (rvals[0] if ret == 1 else list(rvals))
                try:
                    ob.bind_returned_lowering_values(ctx, eqn, result, primitive_name="stub")
                    if not ctx.bound:
                        real = "unchanged"
                    else:
                        real = "bound " + ",".join(f"{outvars.index(v)}:{rvals.index(val)}" for v, val in ctx.bound)
                except RuntimeError:
                    real = "error"
                enc = ",".join("dN" if k == "dM" else k for k in cfg) or "-"
                lines.append(f"bind {enc} {'none' if ret is None else ret}")
                cases.append((cfg, ret, real))
    ans = yield lines
    bad = []
    for (cfg, ret, real), a in zip(cases, ans):
        if real == "bound ":
            real = "unchanged"
        a_norm = "unchanged" if a == "bound " else a
        chk.count({"stage": "bind_returned", "outvars": list(cfg), "returned": ret, "real": real, "lean": a_norm},
                  nontrivial=(ret is not None and any(k in ("dN", "dM") for k in cfg)))
        if a_norm != real:
            bad.append({"outvars": list(cfg), "returned": ret, "real": real, "lean": a})
    chk.info("bind_returned_correspondence", {"cases": len(lines), "disagreements": len(bad)})
    chk.add("traces_validated_against_impl", len(lines))
    return bad


# ----------------------------------------------------------------------------- fixed program suite


def programs():
    """Small well-typed compositions outside the plugin metadata (fixed, seed-independent): weak-typed
    literals against integer arrays, crossed clamp bounds, index clamping, fusions of arithmetic patterns."""
    import jax
    import jax.numpy as jnp
    from jax import lax
    f, I = np.float32, np.int32
    xi = np.array([1, 2, 3, -4], I)
    sq = (np.arange(9, dtype=f).reshape(3, 3) - 3.5)
    a, b = np.array([1, 2, 7, -3, -7], I), np.array([2, 5, 8, -4, 2], I)
    v6 = np.arange(6, dtype=I)
    P = [
        ("maximum_int_floatlit", lambda v: jnp.maximum(v, 1.5), [xi]),
        ("minimum_int_floatlit", lambda v: jnp.minimum(v, 1.5), [xi]),
        ("add_int_floatlit", lambda v: jnp.add(v, 0.5), [xi]),
        ("subtract_int_floatlit", lambda v: jnp.subtract(v, 0.5), [xi]),
        ("multiply_int_floatlit", lambda v: v * 0.5, [xi]),
        ("clip_int_floatlit", lambda v: jnp.clip(v, -0.5, 2.5), [xi]),
        ("power_int_floatlit", lambda v: jnp.power(v, 1.5), [np.array([1, 4, 9], I)]),
        ("where_int_floatlit", lambda v: jnp.where(v > 1, v, 0.5), [xi]),
        ("where_floatlit_int", lambda v: jnp.where(v > 1, 2.5, v), [xi]),
        ("where_int_intlit", lambda v: jnp.where(v > 1, v, 7), [xi]),
        ("clamp_crossed_i32", lambda lo, v, hi: lax.clamp(lo, v, hi),
         [np.array([3, 3, 3, -1], I), np.array([0, 2, 5, 9], I), np.array([1, 1, 1, -5], I)]),
        ("clamp_crossed_f32", lambda lo, v, hi: lax.clamp(lo, v, hi),
         [np.array([3, 3, 3, -1], f), np.array([0, 2, 5, 9], f), np.array([1, 1, 1, -5], f)]),
        ("clip_crossed", lambda v: jnp.clip(v, 3, 1), [np.array([0, 2, 5], I)]),
        ("clamp_scalar_bounds", lambda v: lax.clamp(-1.5, v, 2.5), [np.array([-4.0, -1.5, 0.0, 2.5, 7.0], f)]),
        ("norm_axis1_square", lambda m: m / jnp.linalg.norm(m, axis=1), [sq]),
        ("norm_axis1_keepdims", lambda m: m / jnp.linalg.norm(m, axis=1, keepdims=True), [sq]),
        ("norm_axis0_square", lambda m: m / jnp.linalg.norm(m, axis=0), [sq]),
        ("div_sum_2_int", lambda p_, q: lax.div(p_ + q, 2), [a, b]),
        ("floor_divide_sum_2_int", lambda p_, q: (p_ + q) // 2, [a, b]),
        ("mean_of_two_float", lambda p_, q: (p_ + q) / 2, [a.astype(f), b.astype(f)]),
        ("dynamic_slice_in_range", lambda v, i: lax.dynamic_slice(v, (i[0],), (3,)), [v6, np.array([2], I)]),
        ("dynamic_slice_start_too_large", lambda v, i: lax.dynamic_slice(v, (i[0],), (3,)), [v6, np.array([5], I)]),
        ("dynamic_slice_start_negative", lambda v, i: lax.dynamic_slice(v, (i[0],), (3,)), [v6, np.array([-2], I)]),
        ("dynamic_update_slice_start_too_large", lambda v, u, i: lax.dynamic_update_slice(v, u, (i[0],)),
         [v6, np.array([7, 8, 9], I), np.array([5], I)]),
        ("take_clip", lambda v, i: jnp.take(v, i, mode="clip"), [v6, np.array([-1, 7, 3], I)]),
        ("index_negative", lambda v, i: v[i], [v6, np.array([-1, 5, 3, -6], I)]),
        ("divmod_identity", lambda p_, q: jnp.floor_divide(p_, q) * q + jnp.mod(p_, q), [a, b]),
        ("truncdiv_identity", lambda p_, q: lax.div(p_, q) * q + lax.rem(p_, q), [a, b]),
        ("sign_abs", lambda v: lax.sign(v) * lax.abs(v), [xi]),
        ("select_compare_chain", lambda p_, q: lax.select(lax.lt(p_, q), lax.max(p_, q), lax.min(p_, q)) - lax.neg(p_), [a, b]),
        ("round_half_cases", lambda v: (lax.round(v), jnp.round(v), lax.floor(v), lax.ceil(v)),
         [np.array([0.5, 1.5, 2.5, -0.5, -1.5, -2.5, 0.49999997, -0.49999997], f)]),
        # vmapped while_loop, per-example trip counts, predicate not monotone along the trajectory
        ("vmap_while_nonmonotone_pred",
         lambda s0: jax.vmap(lambda s: lax.while_loop(lambda t: (t != 3) & (t < 8), lambda t: t + 1, s))(s0),
         [np.array([2, 1, 0, 5, 3, 9], I)]),
        ("vmap_while_monotone_pred",
         lambda s0: jax.vmap(lambda s: lax.while_loop(lambda t: t < 3.0, lambda t: t * 1.5 + 0.25, s))(s0),
         [np.array([0.0, 1.0, 2.5, 7.0], f)]),
        ("argmax_cumsum", lambda v: (jnp.argmax(v), jnp.cumsum(v)[::-1], lax.cumsum(v, reverse=True)),
         [np.array([1, 3, 3, 2, 3], I)]),
    ]
    # @onnx_function boundaries with twin call sites differing in exactly one aspect (harness/c01_functions.py)
    import c01_functions
    P += c01_functions.function_programs()
    return P


def validate_programs(chk: Check) -> list[dict]:
    """ORT(to_onnx(program)) vs eager JAX (evaluated first) on the program's fixed inputs: values, dtype kind,
    shapes."""
    import jax
    import jax.numpy as jnp
    import c01_explore as X
    from jax2onnx import to_onnx
    out = []
    for name, fn, xs in programs():
        res: dict[str, Any] = {"program": name}
        try:
            j32 = X._flat_outputs(fn(*[jnp.asarray(x) for x in xs]))
            try:
                j64 = X.jax_eval(fn, xs, {}, True)
            except Exception:
                j64 = None
            try:
                model = to_onnx(fn, [jax.ShapeDtypeStruct(x.shape, x.dtype) for x in xs], model_name=name)
            except Exception as e:
                res.update({"status": "export_error", "cls": "export_error", "error": f"{type(e).__name__}: {e}"[:200]})
                raise StopIteration
            try:
                sess = X.ort_session(model)
                o = sess.run(None, X.ort_feed(sess, xs, {}, None))
            except Exception as e:
                res.update({"status": "ort_error", "cls": "ort_rejects_or_fails", "error": str(e)[:200]})
                raise StopIteration
            c = X.compare(o, j32, j64, False, None)
            res.update(c)
            if c["status"] == "mismatch":
                res["cls"] = failure_class({"status": "mismatch", **c})
                res["ort_outputs"] = [np.asarray(v).reshape(-1)[:8].tolist() for v in o]
                res["jax_outputs"] = [np.asarray(v).reshape(-1)[:8].tolist() for v in j32]
                res["inputs"] = [np.asarray(x).reshape(-1)[:12].tolist() for x in xs]
        except StopIteration:
            pass
        chk.count({"stage": "program", "program": name, "status": res.get("status"), "cls": res.get("cls")},
                  nontrivial=res.get("status") in ("ok", "mismatch"))
        out.append(res)
    by: dict[str, int] = {}
    for r in out:
        by[r.get("status", "?")] = by.get(r.get("status", "?"), 0) + 1
    chk.info("program_suite", {"programs": len(out), "status_counts": by})
    return out


# ----------------------------------------------------------------------------- exploration


def load_costs() -> dict:
    try:
        return json.loads(COSTS.read_text())
    except Exception:
        return {}


def explore(seed: int, rng: common.Rng, thorough: bool, budget_s: float) -> dict:
    """Runs in a background thread, concurrently with the Lean build and the catalogue validation
    (the work itself is done by worker processes).  Touches no shared state."""
    import c01_explore as X
    import subprocess, sys
    t0 = time.time()
    r = subprocess.run([sys.executable, str(Path(X.__file__).resolve()), "--list"], capture_output=True, text=True,
                       timeout=600, env=dict(os.environ))
    txt = r.stdout
    cases = json.loads(txt[txt.index("["):])
    costs = load_costs()
    pool = [c for c in cases if (thorough or not c["f64"])]
    if thorough:
        sel = pool
    else:
        # seeded ~5 % sample of the f32 variants; cases known to be heavy (> 25 s) are left to thorough
        sel = [c for c in pool if rng.chance(0.05) and costs.get(c["id"], 0) <= 25]
    # the draws themselves do not depend on VERIF_SEED (closed world: thorough enumerates every outcome a quick
    # run can see); VERIF_SEED only selects which testcases the quick tier runs
    kinds = X.KINDS if thorough else X.KINDS[:4]
    jobs = [{"index": c["index"], "seed": 0, "kinds": kinds, "symval": 2} for c in sel]
    nw = min(12, max(2, (os.cpu_count() or 4) - 4)) if thorough else min(8, max(2, (os.cpu_count() or 4) // 2))
    deadline = None if thorough else t0 + budget_s
    res = X.run_pool(jobs, nw, per_case_timeout=600.0 if thorough else 90.0, deadline=deadline)
    for c, r_ in zip(sel, res):
        r_.setdefault("id", c["id"])
    return {"cases": len(cases), "pool": len(pool), "sel": sel, "res": res, "kinds": kinds, "workers": nw,
            "wall_s": round(time.time() - t0, 1)}


def record_exploration(chk: Check, ex: dict, thorough: bool) -> list[dict]:
    import c01_explore as X
    sel, res = ex["sel"], ex["res"]
    by_status: dict[str, int] = {}
    n_border = 0
    n_declared = 0
    n_jaxerr = 0
    n_draws = 0
    for c, r_ in zip(sel, res):
        by_status[r_["status"]] = by_status.get(r_["status"], 0) + 1
        n_border += sum(1 for d in r_.get("draws", []) if d.get("borderline"))
        n_declared += sum(1 for d in r_.get("draws", []) if d.get("declared_tolerance_fallback"))
        n_jaxerr += sum(1 for d in r_.get("draws", []) if d.get("status") == "jax_error")
        n_draws += len(r_.get("draws", []))
        draws = r_.get("draws", [])
        chk.count({"stage": "exploration", "testcase": c["id"], "status": r_["status"],
                   "draws": [{k: d.get(k) for k in ("kind", "status", "inputs_digest", "worst_ratio")} for d in draws]},
                  nontrivial=r_["status"] in ("ok", "mismatch") and len(draws) > 1, sample_every=40)
    done = sum(v for k, v in by_status.items() if k not in ("not_run_deadline", "not_run"))
    chk.info("exploration", {
        "label": "EXPLORATION (not proof): ORT vs eager JAX on adversarial inputs",
        "registered_testcase_variants": ex["cases"], "eligible": ex["pool"], "selected": len(sel), "executed": done,
        "fraction_executed": round(done / max(1, ex["pool"]), 4), "draw_kinds": ex["kinds"],
        "status_counts": by_status, "draws": n_draws, "borderline_draws": n_border, "declared_tolerance_fallback_draws": n_declared,
        "draws_rejected_by_the_jax_callable": n_jaxerr,
        "workers": ex["workers"], "wall_s": ex["wall_s"],
        "tolerance": "K_D*max(|jax32-jax64|,|jax32(x)-jax32(x(1+-eps))|) + K_E*eps*|ref| + K_N*(rms terms) + K_A*eps "
                     f"with K_D={X.K_D}, K_E={X.K_E}, K_N={X.K_N}, K_A={X.K_A}; finding only beyond {X.BORDERLINE} x that; "
                     "integers/bools bit-identical",
    })
    if thorough:
        try:
            c = load_costs()
            for r_ in res:
                if r_.get("wall_s"):
                    c[r_["id"]] = max(float(r_["wall_s"]), 0.0)
                elif r_["status"] == "timeout":
                    c[r_["id"]] = 999.0
            CORPUS.mkdir(exist_ok=True)
            COSTS.write_text(json.dumps(c, indent=0, sort_keys=True))
        except Exception:
            pass
    return res


# ----------------------------------------------------------------------------- the check


def run(chk: Check) -> None:
    rng = common.Rng(chk.seed)
    thorough = chk.tier == "thorough"
    t_start = time.time()
    # exploration runs in worker processes, started now, collected at the end
    from concurrent.futures import ThreadPoolExecutor
    pool_ex = ThreadPoolExecutor(1)
    fut = pool_ex.submit(explore, chk.seed, common.Rng(chk.seed ^ 0x5EED), thorough, 1e9 if thorough else 175.0)
    gen = generate()
    chk.log(f"regenerated {len(gen['entries'])} recipes in {time.time() - t_start:.1f} s")
    untranslated = {k: v["unknown"] for k, v in gen["info"].items() if v.get("unknown")}
    chk.info("recipes", {"entries": len(gen["entries"]), "with_untranslatable_nodes": untranslated,
                         "export_errors": {k: v["export_error"] for k, v in gen["info"].items() if v.get("export_error")}})
    proved = chk.prove(MODS, checker=thorough)
    chk.log(f"Lean done at {time.time() - t_start:.1f} s")

    def measure(rng):
        # all driver requests of the validation stages go through ONE driver process
        stages = [validate_operators(chk, rng), validate_catalogue(chk, rng, gen, thorough), validate_sweeps(chk, gen),
                  validate_tensor(chk, rng, gen), validate_bind_returned(chk),
                  validate_graphs(chk, rng, gen, thorough), validate_gops(chk)]
        reqs = [next(g) for g in stages]
        chk.log(f"real-code side of the correspondence done at {time.time() - t_start:.1f} s "
                f"({sum(len(r) for r in reqs)} driver requests)")
        answers = common.run_driver("C01", [l for r in reqs for l in r], timeout=1800)
        outs, pos = [], 0
        for g, r in zip(stages, reqs):
            try:
                g.send(answers[pos:pos + len(r)])
                raise RuntimeError("validation stage did not finish")
            except StopIteration as st:
                outs.append(st.value)
            pos += len(r)
        return outs

    rng_state = common.Rng(chk.seed)
    rng_state.__dict__.update(rng.__dict__)          # the stages of a re-measurement see the same inputs
    outs = measure(rng)
    op_bad, (oracle_mm, tie_bad), sweeps, (t_mm, t_tie), bind_bad, (g_mm, g_tie, g_jax), gop_bad = outs
    if [b for b in tie_bad if b["what"] == "recipe"] or t_tie or g_tie:
        # A disagreement between the Lean evaluation of a regenerated recipe and ONNX Runtime is measured a
        # second time (fresh sessions, same inputs): a change of /repo reproduces, a transient hiccup of the
        # runtime does not. Only what both measurements show is kept.
        chk.log("recipe correspondence: disagreement measured, measuring again")
        outs2 = measure(rng_state)
        _, (_, tie_bad2), _, (_, t_tie2), _, (_, g_tie2, _), _ = outs2
        same = lambda xs, ys: [x for x in xs if any(json.dumps(x, sort_keys=True, default=str) ==
                                                    json.dumps(y, sort_keys=True, default=str) for y in ys)]
        dropped = (len(tie_bad) - len(same(tie_bad, tie_bad2)), len(t_tie) - len(same(t_tie, t_tie2)),
                   len(g_tie) - len(same(g_tie, g_tie2)))
        tie_bad, t_tie, g_tie = same(tie_bad, tie_bad2), same(t_tie, t_tie2), same(g_tie, g_tie2)
        chk.info("recipe_tie_remeasured", {"not_reproduced": dropped})
        chk.log(f"recipe correspondence: {sum(dropped)} disagreement(s) did not reproduce and were dropped")
    chk.log(f"catalogue validation done at {time.time() - t_start:.1f} s")

    # ---- infrastructure-level disagreement: the hand-written semantics contradict the runtime
    if op_bad:
        raise RuntimeError(f"Lean operator semantics disagree with ONNX Runtime: {op_bad[:5]}")
    jax_tie = [b for b in tie_bad if b["what"] == "jax"]
    if jax_tie:
        raise RuntimeError(f"Lean JAX-side semantics disagree with eager JAX: {jax_tie[:5]}")
    ttie_model = [b for b in t_tie if "(" in b["what"] or b["what"].endswith(":jax")]
    if ttie_model:
        raise RuntimeError(f"Lean tensor-operator / JAX semantics disagree with the runtime: {ttie_model[:5]}")
    if gop_bad:
        raise RuntimeError(f"Lean tensor-operator semantics (GOp.eval) disagree with ONNX Runtime: {gop_bad[:5]}")
    if g_jax:
        raise RuntimeError(f"Lean JAX-side tensor semantics (jaxSemT) disagree with eager JAX: {g_jax[:5]}")

    # ---- findings of the property oracle on the catalogue (real code: ORT vs eager JAX)
    found_input = False
    groups: dict[tuple, list] = {}
    for m in oracle_mm:
        groups.setdefault((m["entry"], m["kind"]), []).append(m)
    for (entry, kind), ms in sorted(groups.items()):
        e = next(x for x in gen["entries"] if x.name == entry)
        key = {"where": "catalogue", "entry": entry, "primitive": PRIM_OF.get(e.key, e.key), "dtype": e.t, "kind": kind}
        if e.key == "round_away":
            key["rounding_method"] = "AWAY_FROM_ZERO"
        found_input = True
        chk.finding(key, f"{entry}: ORT {ms[0]['ort']} vs JAX {ms[0]['jax']} at {ms[0]['input']} ({len(ms)} inputs, kind={kind})",
                    {"first": ms[:5], "count": len(ms), "how": "harness/props/c01.py replay"})
    for m in t_mm:
        key = {"where": "catalogue", "entry": m["entry"], "primitive": m["entry"].rsplit("_", 1)[0], "kind": m["kind"]}
        found_input = True
        chk.finding(key, f"{m['entry']}: ORT {m['ort']} vs JAX {m['jax']} at {m['input']}", {"first": m})
    ggroups: dict[tuple, list] = {}
    for m in g_mm:
        ggroups.setdefault((m["entry"], m["kind"]), []).append(m)
    for (entry, kind), ms in sorted(ggroups.items()):
        found_input = True
        chk.finding({"where": "catalogue", "entry": entry, "primitive": ms[0]["jax_key"].split(" ")[0], "kind": kind},
                    f"{entry}: ORT {ms[0]['ort']} vs JAX {ms[0]['jax']} at {ms[0]['input']} ({len(ms)} inputs, kind={kind})",
                    {"first": ms[:5], "count": len(ms), "how": "harness/props/c01.py replay"})
    for sw in sweeps:
        e = sw["entry"]
        if sw["rejected"] is not None:
            found_input = True
            chk.finding({"where": "catalogue", "entry": e.name, "primitive": PRIM_OF.get(e.key, e.key), "dtype": e.t,
                         "kind": "ort_rejects_model"},
                        f"{e.name}: ONNX Runtime rejects the exported model: {sw['rejected']}", {"error": sw["rejected"]})
            continue
        if sw["real_bad"] is None:
            continue
        if sw["real_bad"] != sw["lean_bad"]:
            d1 = sorted(sw["real_bad"] - sw["lean_bad"])[:5]
            d2 = sorted(sw["lean_bad"] - sw["real_bad"])[:5]
            tie_bad.append({"what": "sweep", "entry": e.name, "only_real": d1, "only_model": d2})
        kinds: dict[str, list] = {}
        for s in sw["real_bad"]:
            t = tuple(int(v) for v in s.split(","))
            kinds.setdefault(classify(e, t), []).append(t)
        for kind, ts in sorted(kinds.items()):
            found_input = True
            chk.finding({"where": "catalogue", "entry": e.name, "primitive": PRIM_OF.get(e.key, e.key), "dtype": e.t,
                         "kind": kind},
                        f"{e.name}: ORT differs from eager JAX on {len(ts)} of {sw['cases']} inputs (kind={kind}), e.g. {sorted(ts)[:3]}",
                        {"examples": sorted(ts)[:10], "count": len(ts)})
    rejected_models = {k: v.get("ort") for k, v in chk.coverage.get("catalogue_entries", {}).items()
                       if str(v.get("ort", "")).startswith("rejected")}
    for name, why in sorted(rejected_models.items()):
        e = next(x for x in gen["entries"] if x.name == name)
        if e.bits:
            continue
        found_input = True
        chk.finding({"where": "catalogue", "entry": name, "primitive": PRIM_OF.get(e.key, e.key), "dtype": e.t,
                     "kind": "ort_rejects_model"}, f"{name}: ONNX Runtime rejects the exported model: {why}",
                    {"error": why})

    # ---- correspondence broken (translator / recipe / binding rule) -----------------------
    recipe_tie = [b for b in tie_bad if b["what"] in ("recipe", "sweep")] + \
                 [b for b in t_tie if b not in ttie_model] + g_tie + \
                 [{"what": "recipe-not-length-generic", "entry": k, "extents": v["not_length_generic"]}
                  for k, v in chk.coverage.get("dataflow_entries", {}).items() if v.get("not_length_generic")]
    if recipe_tie:
        for b in recipe_tie[:4]:
            chk.log("recipe correspondence broken: " + json.dumps(b, default=str)[:700])
        chk.violation({"correspondence": "regenerated recipe (Lean evaluation) differs from ONNX Runtime on the real "
                                         "exported model — the translator or the operator vocabulary no longer covers "
                                         "what /repo emits", "cases": recipe_tie[:20]},
                      name="recipe-correspondence", no_failing_input=not found_input)
    if bind_bad:
        chk.violation({"correspondence": "bind_returned_lowering_values differs from the proven model `bindReturned`",
                       "cases": bind_bad[:20]}, name="bind-returned-correspondence", no_failing_input=True)

    # ---- fixed program suite (compositions outside the plugin metadata) -----------------------
    for r in validate_programs(chk):
        if r.get("status") not in ("ok",):
            found_input = True
            chk.finding({"where": "programs", "program": r["program"], "cls": r.get("cls")},
                        f"program {r['program']}: {r.get('status')} {r.get('why') or r.get('error', '')}"[:240]
                        + (f" ort={r.get('ort_outputs')} jax={r.get('jax_outputs')}" if r.get("ort_outputs") else ""),
                        {"result": r, "how": "harness/props/c01.py validate_programs"})
    chk.log(f"program suite done at {time.time() - t_start:.1f} s")

    # ---- exploration -----------------------------------------------------------------------
    ex = fut.result()
    pool_ex.shutdown(wait=False)
    res = record_exploration(chk, ex, thorough)
    chk.log(f"exploration collected at {time.time() - t_start:.1f} s")
    n_find = 0
    for r in res:
        st = r.get("status")
        if st in ("mismatch", "ort_load_error", "ort_run_error", "crash"):
            found_input = True
            for key, what, rep in exploration_findings(r):
                n_find += 1
                chk.finding(key, what, rep)
    chk.info("exploration_findings", n_find)

    # ---- a broken Lean obligation without any concrete failing input ----------------------
    if not proved and not found_input:
        chk.violation({"broken": getattr(chk, "broken", []),
                       "build_log_tail": getattr(chk, "build_log", "")[-4000:],
                       "note": "a Lean obligation about the regenerated recipes no longer checks; ORT and eager JAX "
                               "agreed on every generated input"},
                      name="obligation-broken", no_failing_input=True)
    elif not proved:
        # the obligation is broken AND concrete failing inputs exist: they were reported above; if all of
        # them are listed findings the broken obligation itself must still be reported
        if not chk.violations:
            chk.violation({"broken": getattr(chk, "broken", []),
                           "build_log_tail": getattr(chk, "build_log", "")[-4000:],
                           "note": "Lean obligation broken; every concrete mismatch found is a listed finding, so the "
                                   "break is not explained by them"},
                          name="obligation-broken", no_failing_input=True)
    chk.assumptions += [
        "ℤ statements: no intermediate overflow (formal: noOverflow ⇒ fixed = ideal); INT_MIN / -1 and division by "
        "zero are outside the domain (ONNX Runtime raises SIGFPE there)",
        "floats are modelled over ℚ: statements are exact on inputs whose results are representable "
        "(half-integers, small dyadics); NaN/±inf/−0 are not modelled",
        "ONNX operator semantics = Op.eval/Onnx.* (validated against ONNX Runtime on this run, sampled)",
        "JAX primitive semantics = jaxSem/Jax.* (validated against eager JAX on this run, sampled; exhaustive for 8-bit)",
        "ONNX graphs are SSA (FreshFor) — hypothesis of dispatch_compositional",
        "exploration oracle: float tolerance from JAX's own f32/f64 and 1-ulp-perturbation discrepancy plus an absolute "
        "floor of K_A·eps (unit round-off at scale 1); elements where eager JAX returns NaN are skipped",
    ]
    chk.coverage["rule"] = (
        "catalogue: every entry × generated exact inputs (extremes, ±powers of two, half-integers; all values for 8-bit "
        "unary, all pairs in thorough) — distinct = distinct (entry,input); operators: single-operator ONNX models; "
        "bind_returned: all configurations ≤ 4 outvars × arities; exploration: one case per (testcase, draw kinds), "
        "non-trivial = exported, ran in ORT and compared on ≥ 2 draws")
    chk.coverage["exhaustive"] = False


PRIM_OF = {"round_away": "round", "round_even": "round", "shl": "shift_left", "shrl": "shift_right_logical",
           "shra": "shift_right_arithmetic", "f2i": "convert_element_type", "i2i": "convert_element_type",
           "ipow0": "integer_pow", "ipow1": "integer_pow", "ipow2": "integer_pow", "ipow3": "integer_pow",
           "ipow4": "integer_pow", "popcnt": "population_count", "wneg": "neg", "wabs": "abs",
           "bnot": "not", "band": "and", "bor": "or", "bxor": "xor"}


def failure_class(d: dict) -> str:
    import math
    if d.get("status") == "ort_run_error":
        return "ort_run_error"
    why = d.get("why", "")
    if "shape ORT" in why or "output count" in why:
        return "shape"
    if "dtype kind" in why:
        return "dtype_kind"
    if "integer/bool" in why:
        return "int_values"
    o, j = d.get("ort"), d.get("jax")
    try:
        of, jf = float(o), float(j)
        if not math.isfinite(of) and math.isfinite(jf):
            return "ort_nonfinite_jax_finite"
        if math.isfinite(of) and not math.isfinite(jf):
            return "ort_finite_jax_inf"
    except Exception:
        pass
    return "float_values"


def exploration_findings(r: dict):
    """(key, what, replay) for each failing (draw kind, failure class) of one explored testcase."""
    cid = r.get("id") or ""
    comp = "/".join(cid.split("/")[:2])
    prec = "f64" if r.get("f64") else "f32"
    st = r.get("status")
    if st in ("ort_load_error", "crash"):
        yield ({"where": "exploration", "component": comp, "testcase": cid, "cls": st, "precision": prec},
               f"{cid}: {st} {r.get('error', '')[:160]}", {"result": r})
        return
    seen = set()
    for d in r.get("draws", []):
        if d.get("status") in ("mismatch", "ort_run_error"):
            cls = failure_class(d)
            k = (d["kind"], cls)
            if k in seen:
                continue
            seen.add(k)
            what = d.get("why") or d.get("error", "")
            yield ({"where": "exploration", "component": comp, "testcase": cid, "kind": d["kind"], "cls": cls,
                    "precision": prec},
                   f"{cid} [{d['kind']}, {cls}]: {what[:110]} ort={d.get('ort')} jax={d.get('jax')}",
                   {"index": r.get("index"), "draw": d,
                    "how": f"VERIF_SEED=<seed> /venv/bin/python harness/c01_explore.py {r.get('index')}"})


def replay(path: str) -> int:
    rep = json.loads(open(path).read())
    print(json.dumps(rep, indent=1, default=str)[:4000])
    if "index" in rep:
        import c01_explore as X
        X._setup_paths()
        r = X.run_case(int(rep["index"]), int(rep.get("seed", 0)), X.KINDS)
        print(json.dumps(r, indent=1, default=str)[:3000])
        return 1 if r["status"] != "ok" else 0
    if rep.get("finding_key", {}).get("where") == "catalogue":
        gen = generate()
        if rep["finding_key"].get("entry") in {e.name for e in gen["gentries"]}:
            chk = Check("C01", "quick", int(rep.get("seed", 0)))
            stage = validate_graphs(chk, common.Rng(int(rep.get("seed", 0))), gen, False)
            lines = next(stage)
            try:
                stage.send(common.run_driver("C01", lines))
                mm = []
            except StopIteration as st:
                mm = st.value[0]
            hits = [m for m in mm if m["entry"] == rep["finding_key"]["entry"]]
            print("mismatches now:", hits[:5])
            return 1 if hits else 0
        chk = Check("C01", "quick", int(rep.get("seed", 0)))
        stage = validate_catalogue(chk, common.Rng(int(rep.get("seed", 0))), gen, False)
        lines = next(stage)
        try:
            stage.send(common.run_driver("C01", lines))
            mm = []
        except StopIteration as st:
            mm, _ = st.value
        ent = rep["finding_key"].get("entry")
        hits = [m for m in mm if m["entry"] == ent]
        print("mismatches now:", hits[:5])
        return 1 if hits else 0
    return 0
