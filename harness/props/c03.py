"""C03 — every export is a well-formed, loadable ONNX model.

Lean (Props/C03.lean): `checkScopes_sound` — the executable scope/SSA/call checker accepts only
models that are `WellScoped` (every scope at every nesting depth: names defined once, no shadowing,
definition before use, outputs local, calls resolve with matching arity and imported domain,
function bodies closed and without initializers); `visible_names_unique`; the two `fresh_name`
formats are injective (`renderB_injective`, `renderC_injective` for bases not ending in `_`), a
call sequence on one counter dictionary mints pairwise distinct names (`fresh_injective`), names of
child contexts with different prefixes never collide (`child_names_disjoint`, `root_child_disjoint`).
Round 2 — Props/C03Rename.lean: `rename_preserves_scopes` / `renameM_preserves` (acceptance is preserved by
any renaming that is injective per scope chain), the NameFixPass contract on the model `pickName`/`fixList`
(`fixList_sound`, `fixList_keep`, `fixList_head`); Props/C03Calls.lean: `callsBound_sound` (no absent operand for
a formal input that the callee reads, also for calls from inside function bodies), `acyclic_sound` /
`no_self_call` (no recursion among model-local functions), `func_body_closed`.

Tie (H): (a) the naming model is driven with the same random call sequences as the real
`IRContext.fresh_name`, `IRBuilder.fresh_name` and `make_subgraph_context` (nested); (b) the NameFixPass model
predicts the real `_run_name_fix_pass` on real IR models with forced collisions, which are then re-checked
(harness/c03_namefix.py); (c) every export of the program × configuration generators — including a pairwise
COVERING ARRAY construct × dim × opset × dp × layout × mode × names (harness/c03_cover.py) — is translated to a
ModelTree and checked by the proven checkers through the Lean driver.  That every program yields an accepted
model is SAMPLED (systematically: every pair of factor values occurs).
Search / oracle: onnx.checker(full_check), strict shape inference, ORT session construction.
"""
from __future__ import annotations

import json
import time
import warnings

warnings.filterwarnings("ignore")

import common
from common import Check

META = {
    "ready": True,
    "level": "proof",
    "technique": "Lean 4: verified scope/SSA/call checker over an unbounded model tree + injectivity "
                 "theorems for the fresh_name schemes; driver correspondence with the real naming code; "
                 "the proven checker is run on real exports (program × configuration generators)",
    "level_text": "Kernel-checked: checkScopes_sound (accepted ⇒ WellScoped at every nesting depth, main graph "
                  "and function bodies), visible_names_unique, renderB/renderC_injective, fresh_injective, "
                  "child_names_disjoint, root_child_disjoint; rename_preserves_scopes / renameM_preserves (per-scope "
                  "injective renaming keeps acceptance), NameFixPass contract (fixList_sound/keep/head), "
                  "callsBound_sound (absent operands), acyclic_sound / no_self_call, func_body_closed. The naming "
                  "model agrees with the real fresh_name/make_subgraph_context on generated call sequences and the "
                  "NameFixPass model predicts the real pass on models with forced collisions.",
    "level_note": "PARTIAL: the checker is proved, so no accepted model is ill-scoped; that EVERY program × "
                  "configuration yields an accepted, loadable model is SAMPLED (generated nested programs, "
                  "named programs, plugin testcases × configs, pairwise covering array of construct × "
                  "configuration factors), not proved. Uniqueness in the final model rests on onnx_ir's NameFixPass "
                  "(library code; its contract is modelled, proved on the model and tied by prediction); explicit "
                  "_outputs/name_hint names bypass the counters. Trusted: the ModelProto→ModelTree translator, Lean's interpreter for per-model runs, "
                  "onnx.checker / ORT as oracles (ORT limitations are classified and reported, not hidden). Five genuine "
                  "defects of the unchanged tree (well-scoped but ill-typed / undefined operator / illegal attribute value "
                  "exports) are listed in known_findings.d/C03.json and exported on every run.",
    "design_ref": "DESIGN.md §3 C03",
}

MODS = ["J2O.Props.C03", "J2O.Props.C03Rename", "J2O.Props.C03Calls", "J2O.Props.C03Acyclic"]

BASES = ["v", "Add", "in", "out", "loop_body", "cond_then", "Constant", "const_val", "x", "x_", "a/",
         "", "q1", "a_1", "a_1_", "Reshape", "in_", "v_0", "scan", "é", "a b", "0", "_", "/",
         "fori_loop_iter", "b/c"]


# ----------------------------------------------------------------------------- naming tie


def _real_ctx():
    from jax2onnx.converter.ir_context import IRContext
    return IRContext(opset=23, enable_double_precision=False, input_specs=[])


def naming_sequences(rng: common.Rng, n_seq: int, length: int) -> list[list]:
    seqs = []
    for s in range(n_seq):
        calls: list = []
        n_ctx = 1
        pattern = s % 4        # 0 random, 1 single base hammered, 2 prefix pairs x / x_, 3 deep nesting
        for _ in range(length):
            ctx = rng.randint(0, n_ctx - 1)
            r = rng.randint(0, 99)
            if (r < 12 or (pattern == 3 and r < 30)) and n_ctx < 7:
                calls.append(["child", ctx, rng.choice(["loop_body", "cond_then", "cond_else", "scan_body",
                                                         "while_body", "b/c", "p_"]), n_ctx])
                n_ctx += 1
                continue
            if pattern == 1:
                base = BASES[s % len(BASES)]
            elif pattern == 2:
                base = rng.choice(["x", "x_", "x_1", "x/", "x"])
            else:
                base = rng.choice(BASES)
            calls.append([rng.choice(["C", "C", "B"]), ctx, base])
        seqs.append(calls)
    return seqs


def real_names(calls: list) -> list[str]:
    from jax2onnx.plugins.jax.lax._control_flow_utils import make_subgraph_context
    ctxs = {0: _real_ctx()}
    out = []
    for c in calls:
        if c[0] == "C":
            out.append(ctxs[c[1]].fresh_name(c[2]))
        elif c[0] == "B":
            out.append(ctxs[c[1]].builder.fresh_name(c[2]))
        else:
            parent = ctxs[c[1]]
            before = dict(parent._name_counters)
            child = make_subgraph_context(parent, prefix=c[2])
            ctxs[c[3]] = child
            # the prefix minted from the parent's counter = the one name added by this call
            minted = [k for k, v in parent._name_counters.items() if before.get(k, 0) != v]
            key = minted[0] if minted else c[2]
            idx = parent._name_counters[key] - 1
            sep = "" if key.endswith(("_", "/")) else "_"
            out.append(f"{key}{sep}{idx}")
    return out


def check_naming(chk: Check, rng: common.Rng, thorough: bool) -> list[dict]:
    seqs = naming_sequences(rng, 60 if not thorough else 600, 40)
    lines = [json.dumps({"op": "names", "calls": s}, ensure_ascii=False) for s in seqs]
    answers = common.run_driver("C03", lines)
    bad = 0
    disagreements: list[dict] = []
    collisions_under_hyp = 0
    for s, a in zip(seqs, answers):
        real = real_names(s)
        if not a.startswith("["):
            raise RuntimeError(f"driver C03 names: {a[:200]}")
        model = json.loads(a)
        nontrivial = any(c[0] == "child" for c in s)
        chk.count({"op": "names", "calls": s[:6], "n": len(s)}, nontrivial=nontrivial)
        if real != model:
            bad += 1
            k = next(i for i, (x, y) in enumerate(zip(real, model)) if x != y)
            disagreements.append({"calls": s[:k + 1], "real": real[k], "model": model[k]})
        # consequence of the theorems, observed on the REAL names: per counter dictionary, calls whose
        # bases satisfy the hypotheses (no trailing '_') never mint the same name twice
        seen: dict = {}
        for c, nm in zip(s, real):
            if c[0] == "child":
                continue
            if c[2].endswith("_"):
                continue
            k = (c[1], c[0])
            if nm in seen.setdefault(k, set()):
                collisions_under_hyp += 1
            seen[k].add(nm)
    chk.add("traces_validated_against_impl", len(seqs))
    chk.info("naming_correspondence", {"sequences": len(seqs), "calls": sum(len(s) for s in seqs),
                                       "disagreements": bad,
                                       "real_collisions_under_theorem_hypotheses": collisions_under_hyp})
    if collisions_under_hyp:
        disagreements.append({"what": "the real fresh_name minted one name twice from one counter although the "
                                      "bases satisfy the hypotheses of fresh_injective",
                              "count": collisions_under_hyp})
    return disagreements


# ----------------------------------------------------------------------------- exports

import re

_BLAME = [r"No Op registered for (\w+)", r"Optype \((\w+)\)", r"op_type:\s*(\w+)", r'In Node, \("[^"]*", (\w+),',
          r"onnxruntime::(\w+)::\1\(", r"implementation for (\w+)\(", r"node \(node_([A-Za-z]+)_\d+\)",
          r"node_([A-Za-z]+)_\d+"]


def blamed_op(msg: str) -> str:
    """Operator an oracle message puts the blame on (part of the finding key)."""
    for pat in _BLAME:
        m = re.search(pat, msg)
        if m:
            return m.group(1)
    return ""


# exports of the listed defects: part of every run so that the KNOWN-FINDING lines are printed
CORPUS = [("primitives.lax", "cumprod_i32_axis2"), ("primitives.lax", "bitcast_scalar_f32_to_i32"),
          ("primitives.random", "random_bits_uint32_f64"), ("primitives.lax", "reduce_sum_dtype_f64"),
          ("primitives.lax", "dus_tensorscatter_axis1_opset24")]



def export_set(chk: Check, rng: common.Rng, thorough: bool):
    import progs
    plan = []
    by_key = {(p.get("context"), p["testcase"]): p for p in progs.plugin_params()}
    for key in CORPUS:
        if key in by_key:
            plan.append((progs.plugin_desc(by_key[key]), progs.plugin_cfg(by_key[key])))
    plan.append((progs.gated_desc("softmax", "top", "f16"), progs.default_cfg()))      # listed float16 defect
    core = progs.core_programs(rng, n_random=12 if not thorough else 120, max_depth=3 if not thorough else 5,
                               n_dimuse=6 if not thorough else 90)
    for d in core:
        plan.append((d, progs.default_cfg()))
        for _ in range(1 if not thorough else 4):
            plan.append((d, progs.random_cfg(rng, d)))
    # round 2: pairwise covering array construct × dim × opset × dp × layout × mode × names (harness/c03_cover.py)
    import c03_cover
    cover_plan, cover_info = c03_cover.plan(rng, arrays=1 if not thorough else 4)
    if cover_info["uncovered_pairs"]:
        raise RuntimeError(f"covering array construction left pairs uncovered: {cover_info}")
    plan += cover_plan
    chk.cover_rows = cover_info.pop("_rows")
    chk.info("covering_array", cover_info)
    params = progs.plugin_params()
    if thorough:
        chosen = rng.shuffle(params)        # seeded order: a budget cut drops a different tail per seed
    else:
        light = [p for p in params if not str(p.get("context", "")).startswith("examples.")]
        heavy = [p for p in params if str(p.get("context", "")).startswith("examples.onnx_functions")]
        chosen = rng.sample(light, 70) + rng.sample(heavy, 10)
    for tp in chosen:
        d = progs.plugin_desc(tp)
        plan.append((d, progs.plugin_cfg(tp, mode=rng.choice(["proto", "proto", "ir"]))))
    return plan


def run(chk: Check) -> None:
    import modeltree
    import oracles
    import progs
    rng = common.Rng(chk.seed)
    thorough = chk.tier == "thorough"
    proved = chk.prove(MODS, checker=thorough)
    if not proved:
        # no table is regenerated for C03: a broken obligation is a broken proof, not a code change
        raise RuntimeError(f"Lean obligations of C03 do not build: {chk.broken}")

    t_ph = time.time()
    chk.log(f"phase prove done at {round(t_ph - chk.t0, 1)} s")
    naming_bad = check_naming(chk, rng, thorough)
    chk.log(f"phase naming done at {round(time.time() - chk.t0, 1)} s")
    import c03_namefix
    namefix_bad = c03_namefix.check(chk, rng, thorough)
    chk.log(f"phase namefix done at {round(time.time() - chk.t0, 1)} s")
    naming_bad = naming_bad + namefix_bad
    if naming_bad:
        chk.log(f"naming / name-fix correspondence broken in {len(naming_bad)} cases; searching the exports for a "
                "concrete ill-formed model")

    plan = export_set(chk, rng, thorough)
    t0 = time.time()
    budget = 170 if not thorough else 1500
    import c03_cover
    cover_rows = getattr(chk, "cover_rows", {})
    cover_seen: dict = {}
    cover_refused: dict = {}
    errors: dict = {}
    limitations: dict = {}
    depth_hist: dict = {}
    rejected = 0
    n_done = 0
    for chunk in progs.export_in_chunks(plan, max_models=400, deadline=t0 + budget):
        done, lines = [], []
        for ex in chunk:
            ckey = c03_cover.plan_key(ex.desc, ex.cfg) if ex.desc.get("kind") == "cover" else None
            if ckey in cover_rows:
                cover_seen[ckey] = ex.ok
            if not ex.ok:
                errors[ex.error.split(":")[0]] = errors.get(ex.error.split(":")[0], 0) + 1
                if ckey is not None:
                    cover_refused[ex.desc["name"]] = ex.error[:80]
                continue
            tree = modeltree.from_ir(ex.ir_model, with_vinfo=False) if ex.ir_model is not None \
                else modeltree.from_proto(ex.proto, with_vinfo=False)
            done.append((ex, tree))
            lines.append(modeltree.request("scopes", tree))
        answers = common.run_driver("C03", lines)
        n_done += len(done)
        for (ex, tree), ans in zip(done, answers):
            st = modeltree.stats(tree)
            depth_hist[st["depth"]] = depth_hist.get(st["depth"], 0) + 1
            case = {"program": progs.describe(ex.desc), "config": ex.cfg, **st}
            chk.count(case, nontrivial=st["depth"] > 0 or st["functions"] > 0 or st["nodes"] > 3)
            fails, lims = oracles.loadable(ex.proto)
            for l in lims:
                limitations[l.split(":")[0]] = limitations.get(l.split(":")[0], 0) + 1
            if ans != "true":
                rejected += 1
                if not ans.startswith("false"):
                    raise RuntimeError(f"driver C03: {ans[:300]}")
                diag = modeltree.scope_diagnosis(tree)
                chk.finding({"kind": "ill_scoped", "program": progs.describe(ex.desc), "why": ans[6:]},
                            f"export rejected by the proven scope checker: {ans[6:]} {diag[:2]}",
                            {"program": ex.desc, "config": ex.cfg, "checker": ans, "diagnosis": diag[:10],
                             "oracles": fails})
            for f in fails:
                chk.finding({"kind": "not_loadable", "oracle": f["oracle"], "blamed_op": blamed_op(f["msg"]),
                             "program": progs.describe(ex.desc), "context": ex.desc.get("context", "program"),
                             "component": ex.desc.get("component", ex.desc.get("name", ""))},
                            f"{f['oracle']} rejects the export of {progs.describe(ex.desc)}: {f['msg'][:160]}",
                            {"program": ex.desc, "config": ex.cfg, "oracle": f})
        chk.log(f"{n_done} models checked at {round(time.time() - chk.t0, 1)} s")
    chk.info("exports", {"planned": len(plan), "exported": n_done, "export_raised": errors,
                         "wall_s": round(time.time() - t0, 1)})
    chk.coverage["programs"] = n_done
    ok_rows = [cover_rows[k] for k, ok in cover_seen.items() if ok]
    chk.info("covering_array_outcome", {
        "rows_run": len(cover_seen), "rows_exported": len(ok_rows), "rows_not_reached_budget": len(cover_rows) - len(cover_seen),
        "pairs_not_covered_by_an_exported_row": len(c03_cover.uncovered_pairs(ok_rows)),
        "refused_by_exporter_loudly": cover_refused})
    if naming_bad and not chk.violations:      # (listed known findings are unrelated to naming)
        chk.violation({"correspondence": "fresh_name / make_subgraph_context vs the Lean naming model",
                       "disagreements": naming_bad[:10],
                       "note": "the real naming code left the proven model, but no exported model of this run "
                               "was ill-scoped or unloadable"},
                      name="naming-correspondence", no_failing_input=True)
    chk.add("traces_validated_against_impl", n_done)
    chk.info("nesting_depth_histogram", {str(k): v for k, v in sorted(depth_hist.items())})
    chk.info("runtime_limitations_not_counted_as_failures", limitations)
    chk.info("rejected_by_checker", rejected)
    chk.coverage["disagreements_checked"] = rejected
    chk.coverage["rule"] = (
        "naming: seeded call sequences (random / one base hammered / x,x_,x/ pairs / deep nesting) on a real "
        "IRContext, its builder and nested make_subgraph_context children; non-trivial = uses a child context. "
        "exports: fixed nested trees + random trees (depth<=3 quick, <=5 thorough) + named programs + plugin "
        "testcases (seeded sample quick, all thorough) × (opset 21..max, double precision, symbolic batch, "
        "nchw flags, proto/ir/file) + a pairwise covering array over construct(13) × dim(3) × opset(3) × dp(2) × "
        "layout(4) × mode(3) × input_names(2) (53-60 rows, seeded; 4 arrays in thorough); name-fix: real pass on 7 "
        "(56 thorough) real IR models with forced collisions (4 patterns); non-trivial = nested scope, function, "
        "or >3 nodes; distinct by (program, config, size)")
    chk.coverage["exhaustive"] = False
    chk.assumptions += [
        "ModelProto/ir.Model → ModelTree translation (harness/modeltree.py) is faithful",
        "an initializer that is also listed as a graph input counts as one definition (ONNX IR ≥ 4)",
        "ORT limitations (opset newer than the installed ORT supports; operator legal at the opset but without "
        "an ORT CPU kernel; failures that vanish with graph optimisations disabled) are reported in "
        "`runtime_limitations_not_counted_as_failures`, not as violations",
        "exports that raise are outside this property (loud failure is C16)",
    ]
    progs.cleanup()


def replay(path: str) -> int:
    import modeltree
    import oracles
    import progs
    rep = json.loads(open(path).read())
    print(json.dumps(rep, indent=1)[:3000])
    if "program" not in rep:
        return 0
    import c03_cover  # noqa: F401  (registers the program kind "cover")
    ex = progs.export(rep["program"], rep.get("config"))
    if not ex.ok:
        print("export raises now:", ex.error)
        return 0
    tree = modeltree.from_ir(ex.ir_model, False) if ex.ir_model is not None else modeltree.from_proto(ex.proto, False)
    ans = common.run_driver("C03", [modeltree.request("scopes", tree)])[0]
    fails, lims = oracles.loadable(ex.proto)
    print("checker:", ans, "| oracle failures:", fails, "| limitations:", lims)
    progs.cleanup()
    return 1 if (ans != "true" or fails) else 0
