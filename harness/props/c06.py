"""C06 — control flow is preserved for every branch choice and trip count.

Lean (lean/J2O/Props/C06.lean): for EVERY trip count / branch index / state / body
  while_scheme, while_trips, while_zero_trip, while_batched_scheme, whileFuel_res/_of_res,
  fori_scheme, fori_zero_trip, scan_scheme, scan_stacked_extent, scan_empty,
  cond_scheme, switch2_scheme, reject_iff_unsupported, and three tightness theorems.

Tie (H + T, on every run):
* the `lower` methods of the four live plugins (while_loop, fori_loop, scan, cond) are wrapped; for
  every control-flow equation of every generated program the REAL `Loop`/`If` node is inspected the
  moment it is created and its wiring schema is extracted by data-flow analysis of the body graph
  (trip-count source, initial condition, whether the body's condition output is the passed-through
  input / computed from the NEW state / from the old state, which carried slot holds which equation
  operand, which carried outputs are pass-throughs, which slots are `Gather`ed with the iteration
  number, the iteration offset, which Loop outputs are bound to the equation's results, which
  jaxpr branch became `then`).  The Lean driver prints the wiring the proved scheme prescribes for
  the same construct and arities; they must be equal.
* the ONNX `Loop` semantics the theorems are about (`loopO`) is compared with ONNX Runtime on a box
  of hand-built Loop models (trip limit, initial condition, condition after the body, stacked
  outputs, zero trips); the model's `whileFuel` with Python.
* T: the accept/reject behaviour of the live plugins on a table of variants is regenerated into
  lean/J2O/Gen/C06.lean and `GenProps/C06.lean` proves (decide) that it equals `accepts`, which
  `reject_iff_unsupported` equates with "scheme proved".

Round 2 (lean/J2O/Props/C06R2.lean + ties): tensor-level vmapped while (freeze mask = Unsqueeze(pred, range(p, n)),
broadcast by ONNX rules; extracted from every real batched Loop body), scan trip count = sequence length for every body
(trip-count source compared for bodies with their own static extents), body identity (each exported Loop/If body carries
its own closure's constants; shared code objects within and across exports).  See notes/C06.md "Round 2".

Search / validation: every generated program is exported once and run in ONNX Runtime against eager
JAX over steering inputs (0, 1, 2, k trips, data-dependent exits, both branches, all clamped switch
indices, symbolic scan lengths incl. the smallest): values, dtypes' kinds and run-time shapes.
"""
from __future__ import annotations

import json
import warnings
from typing import Any, Callable, Optional

import numpy as np

warnings.filterwarnings("ignore")

import common
from common import Check, LEAN, lean_bool, lean_list, write_if_changed

META = {
    "ready": True,
    "level": "proof",
    "technique": "Lean 4 theorems by induction over the trip count for the Loop/If lowering schemes (while, "
                 "vmapped while, fori, scan, cond/switch) over arbitrary state and body functions; wiring schema "
                 "extracted from the live plugins' Loop/If nodes compared with the scheme's prescription (driver); "
                 "accept/reject table regenerated from the live plugins and decide-checked; ORT-vs-JAX sweeps over "
                 "steering inputs",
    "level_text": "Kernel-checked for every trip count, branch index, carried state, captured value and body: "
                  "while_scheme (+ exact number of body executions, zero-trip), while_batched_scheme, fori_scheme, "
                  "scan_scheme, scan_stacked_extent, cond_scheme, switch2_scheme, reject_iff_unsupported. The tie "
                  "checks on every run that the Loop/If nodes the live plugins emit are wired as the schemes "
                  "prescribe and that the plugins accept exactly the variants of the proved table. Round 2 "
                  "(Props/C06R2): while_batched_tensor_scheme (carried tensors of every rank; freeze mask broadcast), "
                  "scan_trip_iff_length (trip count = sequence length for every body), scan_noxs_scheme, memo_sound / "
                  "fori_export_faithful (every loop gets its own closure's body), with refutations of the mis-lowerings; "
                  "tied by the freeze-mask extraction, the trip-count source and the body-identity marks.",
    "level_note": "Trusted: Lean kernel + 3 standard axioms; the wiring extractor in harness/props/c06.py (data-flow "
                  "analysis of onnx_ir graphs); ONNX Loop/If semantics as modelled (compared with ONNX Runtime on a "
                  "box each run); bodies/conditions are opaque functions (their own lowering is C01's scope); trip "
                  "counts below 2^63-1. The implicit Expand/Pad heuristics driven by loop_axis0_override are only "
                  "validated by the ORT-vs-JAX sweeps, not modelled.",
    "design_ref": "DESIGN.md §3 C06",
}

MODS = ["J2O.Props.C06", "J2O.Lemmas.C06", "J2O.GenProps.C06", "J2O.Props.C06R2", "J2O.Lemmas.C06R2"]
INT64_MAX = int(np.iinfo(np.int64).max)


def prove_robust(chk: Check, mods, checker: bool) -> bool:
    """chk.prove, but an audit that comes back without the stated theorems (seen once under heavy load
    while other builds were running; the build itself had succeeded) is retried once and is then
    infrastructure trouble (exit 2), never a verdict about /repo."""
    def audit_trouble():
        return any(("not found by the audit" in b) or b == "audit" for b in getattr(chk, "broken", []))
    ok = chk.prove(mods, checker=checker)
    if not ok and audit_trouble():
        chk.log("Lean audit incomplete; retrying once")
        ok = chk.prove(mods, checker=checker)
        if not ok and audit_trouble():
            raise RuntimeError(f"Lean audit did not report the stated theorems (twice): {chk.broken}")
    return ok


# ----------------------------------------------------------------------------- wiring extraction


def _const_of(v: Any):
    """numpy value of an ir.Value that is a constant (initializer / Constant node), else None."""
    if v is None:
        return None
    cv = getattr(v, "const_value", None)
    if cv is not None:
        try:
            return np.asarray(cv.numpy())
        except Exception:
            return None
    p = v.producer()
    if p is not None and p.op_type == "Constant" and "value" in p.attributes:
        try:
            return np.asarray(p.attributes["value"].value.numpy())
        except Exception:
            return None
    return None


_TRANSPARENT = ("Identity", "Cast", "CastLike")


def _strip(v: Any, ops=_TRANSPARENT):
    """follow Identity/Cast producers back to the value they forward"""
    seen = 0
    while v is not None and seen < 64:
        p = v.producer()
        if p is None or p.op_type not in ops or not p.inputs:
            return v
        v = p.inputs[0]
        seen += 1
    return v


def _ancestors(v: Any) -> set:
    """ids of all values the value is computed from (within its own graph; outer-scope values have
    producers in other graphs and are simply included)"""
    out, todo = set(), [v]
    while todo:
        x = todo.pop()
        if x is None or id(x) in out:
            continue
        out.add(id(x))
        p = x.producer()
        if p is not None:
            todo.extend(p.inputs)
            for a in p.attributes.values():           # nested graphs capture outer values
                g = getattr(a, "value", None)
                if hasattr(g, "outputs") and hasattr(g, "inputs"):
                    try:
                        for node in g:
                            todo.extend(node.inputs)
                    except Exception:
                        pass
    return out


def extract_loop_wiring(node: Any, invar_vals: list, outvar_vals: list, roles: list,
                        pred_slots: tuple = ()) -> dict:
    """Wiring schema of a real Loop node. `invar_vals[j]` is the ir.Value bound to the equation's j-th
    operand (None for literals), `roles[j]` its role by JAX's own operand layout, `outvar_vals` the
    values bound to the equation's results after lowering."""
    body = node.attributes["body"].value
    b_in, b_out = list(body.inputs), list(body.outputs)
    n_carried = len(node.inputs) - 2
    iter_in, cond_in = b_in[0], b_in[1]
    carried_in = b_in[2:2 + n_carried]
    cond_out = b_out[0]
    carried_out = b_out[1:1 + n_carried]
    n_scan = len(b_out) - 1 - n_carried

    # trip count
    tc = _const_of(node.inputs[0])
    if tc is not None:
        n = int(np.asarray(tc).reshape(-1)[0])
        trip: list = ["max"] if n == INT64_MAX else ["static", n]
    else:
        trip = ["computed"]
        src = _strip(node.inputs[0], ops=_TRANSPARENT + ("Squeeze", "Reshape", "Gather"))
        p = src.producer() if src is not None else None
        if p is not None and p.op_type == "Shape":
            for k in range(n_carried):
                if node.inputs[2 + k] is p.inputs[0]:
                    # which axis? Gather index / Shape start must select axis 0
                    g = node.inputs[0]
                    axis0 = True
                    q = _strip(g, ops=_TRANSPARENT + ("Squeeze", "Reshape")).producer()
                    if q is not None and q.op_type == "Gather":
                        idx = _const_of(q.inputs[1])
                        axis0 = idx is not None and int(np.asarray(idx).reshape(-1)[0]) == 0
                    trip = ["dim", k] if axis0 else ["dim-other-axis", k]
    # initial condition
    c0 = _const_of(node.inputs[1])
    cond0 = "true" if (c0 is not None and bool(np.asarray(c0).reshape(-1)[0])) else \
        ("false" if c0 is not None else "computed")

    # carried outputs
    outs = []
    for k in range(n_carried):
        outs.append("passthrough" if _strip(carried_out[k]) is carried_in[k] else "computed")
    # condition output: walk up from it, stopping at the body's (changed) carried outputs. Reaching
    # one of them = the condition reads the NEW state; reaching the carried INPUT of a slot whose
    # output is a different value = it reads the OLD state of that slot.
    if _strip(cond_out) is cond_in:
        cond_kind = "pass"
    else:
        # `pred_slots`: carried slots that hold the per-lane predicate of a vmapped while. Their output IS
        # the condition under analysis, so the walk looks through them: what matters is whether the
        # predicate is computed from the MASKED next state (the carried state outputs) or from something
        # upstream of the mask (raw body results / old state).
        changed = [k for k in range(n_carried) if outs[k] == "computed" and k not in pred_slots]
        stop = {}
        for k in changed:
            stop[id(carried_out[k])] = k
            stop.setdefault(id(_strip(carried_out[k])), k)
        hit_new, hit_old, seen, todo = set(), set(), set(), [cond_out]
        while todo:
            x = todo.pop()
            if x is None or id(x) in seen:
                continue
            seen.add(id(x))
            if id(x) in stop:
                hit_new.add(stop[id(x)])
                continue
            for k in changed:
                if x is carried_in[k]:
                    hit_old.add(k)
            p = x.producer()
            if p is not None:
                todo.extend(p.inputs)
                for a in p.attributes.values():
                    g = getattr(a, "value", None)
                    if hasattr(g, "outputs") and hasattr(g, "inputs") and not isinstance(g, (str, bytes)):
                        try:
                            for sub in g:
                                todo.extend(sub.inputs)
                        except Exception:
                            pass
        if hit_old:
            cond_kind = "old"
        elif hit_new or any(carried_in[k] is not None and id(carried_in[k]) in seen for k in range(n_carried)):
            cond_kind = "new"          # (unchanged slots: old and new state coincide)
        else:
            cond_kind = "other"
    # gathers with the iteration number on axis 0
    gathered = []
    for n in body:
        if n.op_type == "Gather" and len(n.inputs) == 2 and _strip(n.inputs[1]) is iter_in:
            ax = n.attributes["axis"].value if "axis" in n.attributes else 0
            for k in range(n_carried):
                if _strip(n.inputs[0]) is carried_in[k] and int(ax) == 0:
                    gathered.append(k)
    # iteration offset (fori: Add(iter, lower)). The lowering's own Add carries a name hint today; a
    # refactoring may rename it, so every Add that combines the RAW iteration number (possibly through a
    # Cast/Identity) with a scalar constant is recorded as a candidate and `wiring_equal` accepts the
    # prescribed offset if it is the hinted one OR among the candidates (with lower = 0 no Add is needed).
    offset = None
    offset_candidates = []
    for n in body:
        if n.op_type == "Add" and any(i is iter_in or _strip(i) is iter_in for i in n.inputs):
            other = [i for i in n.inputs if not (i is iter_in or _strip(i) is iter_in)]
            c = _const_of(other[0]) if other else None
            if c is not None and np.asarray(c).size == 1:
                cv = int(np.asarray(c).reshape(-1)[0])
                offset_candidates.append(cv)
                if "fori_iter_offset" in (n.outputs[0].name or ""):
                    offset = cv
    if offset is None:
        offset = 0 if not offset_candidates else ("one-of", sorted(set(offset_candidates + [0])))
    # which equation operand sits in which carried slot
    slots = []
    for k in range(n_carried):
        v = node.inputs[2 + k]
        role = "?"
        for j, iv in enumerate(invar_vals):
            if iv is not None and (iv is v or _strip(v) is iv or _strip(v) is _strip(iv)):
                role = roles[j]
                break
        slots.append(role)
    # which Loop outputs carry the equation's results
    results = []
    for ov in outvar_vals:
        hit = None
        if ov is not None:
            base = _strip(ov)
            for k, o in enumerate(node.outputs):
                if o is ov or o is base:
                    hit = k
        results.append(hit)
    return {"trip": trip, "cond0": cond0, "condOut": cond_kind, "slots": slots, "outs": outs,
            "nScanOut": n_scan, "gathered": sorted(gathered), "iterOffset": offset, "results": results}


def _graph_floats(g: Any, recurse: bool = True) -> set:
    vals = set()
    try:
        for n in g:
            if n.op_type == "Constant" and "value" in n.attributes:
                try:
                    vals.update(float(x) for x in np.asarray(n.attributes["value"].value.numpy()).reshape(-1)[:4])
                except Exception:
                    pass
            for i in n.inputs:
                c = _const_of(i)
                if c is not None and c.size <= 4 and c.dtype.kind in "fiu":
                    vals.update(float(x) for x in c.reshape(-1))
            for a in n.attributes.values():
                sub = getattr(a, "value", None)
                if recurse and hasattr(sub, "outputs") and hasattr(sub, "inputs") and not isinstance(sub, (str, bytes)):
                    vals |= _graph_floats(sub)
    except Exception:
        pass
    return vals


def extract_freeze(node: Any, n_state: int, pshape: tuple, state_shapes: list) -> list:
    """vmapped while: how the body freezes a finished lane.  For every state slot: the shape of the mask the
    `Where` that produces the carried output is given (from the Unsqueeze axes / a constant Reshape target /
    the value's static shape), and whether the frozen alternative is the slot's OLD carried value."""
    body = node.attributes["body"].value
    b_in, b_out = list(body.inputs), list(body.outputs)
    n_carried = len(node.inputs) - 2
    carried_in = b_in[2:2 + n_carried]
    carried_out = b_out[1:1 + n_carried]
    pred_in = carried_in[0]
    res = []
    for j in range(n_state):
        k = n_carried - n_state + j
        entry: dict = {"stateRank": len(state_shapes[j]), "select": "other", "axes": None, "maskShape": None,
                       "elseOld": None}
        v = _strip(carried_out[k])
        p = v.producer() if v is not None else None
        if p is not None and p.op_type == "Where" and len(p.inputs) == 3:
            entry["select"] = "Where"
            entry["elseOld"] = _strip(p.inputs[2]) is carried_in[k]
            mask = _strip(p.inputs[0])
            q = mask.producer() if mask is not None else None
            if mask is pred_in:
                entry["axes"], entry["maskShape"] = [], [int(d) for d in pshape]
            elif q is not None and q.op_type == "Unsqueeze" and _strip(q.inputs[0]) is pred_in:
                ax = _const_of(q.inputs[1]) if len(q.inputs) > 1 else None
                if ax is None and "axes" in q.attributes:
                    ax = np.asarray(list(q.attributes["axes"].value))
                if ax is not None:
                    rank = len(pshape) + int(np.asarray(ax).size)
                    entry["axes"] = sorted(int(a) % rank for a in np.asarray(ax).reshape(-1))
            elif q is not None and q.op_type == "Reshape" and _strip(q.inputs[0]) is pred_in:
                tgt = _const_of(q.inputs[1])
                if tgt is not None and all(int(d) > 0 for d in np.asarray(tgt).reshape(-1)):
                    entry["maskShape"] = [int(d) for d in np.asarray(tgt).reshape(-1)]
            if entry["axes"] is None and entry["maskShape"] is None:
                dims = getattr(getattr(mask, "shape", None), "dims", None)
                if dims is not None and all(isinstance(d, (int, np.integer)) for d in dims):
                    entry["maskShape"] = [int(d) for d in dims]
        res.append(entry)
    return res


def _jaxpr_floats(jaxpr_like: Any) -> set:
    jaxpr = getattr(jaxpr_like, "jaxpr", jaxpr_like)
    vals = set()
    for c in getattr(jaxpr_like, "consts", ()):
        try:
            a = np.asarray(c)
            if a.size <= 4:
                vals.update(float(x) for x in a.reshape(-1))
        except Exception:
            pass
    for e in jaxpr.eqns:
        for v in e.invars:
            if hasattr(v, "val"):
                try:
                    a = np.asarray(v.val)
                    if a.size <= 4:
                        vals.update(float(x) for x in a.reshape(-1))
                except Exception:
                    pass
        for p in e.params.values():
            if hasattr(p, "jaxpr") or hasattr(p, "eqns"):
                vals |= _jaxpr_floats(p)
    return vals


MAGIC = (1001.0, 1002.0, 1003.0, 1004.0)
MARKS = tuple(2001.0 + j for j in range(40))      # closed-over constants that identify a body (round 2)
ALLMARKS = frozenset(MAGIC) | frozenset(MARKS)


def extract_if_wiring(node: Any, eqn: Any) -> dict:
    """then/else -> index of the jaxpr branch, identified by the magic constant each generated branch
    multiplies with."""
    cond_v = node.inputs[0]
    p = cond_v.producer()
    cast = p is not None and p.op_type == "Cast" and int(p.attributes["to"].value) == 9
    branches = eqn.params.get("branches")
    marks = [(_jaxpr_floats(b) & ALLMARKS) for b in branches]
    res = {"castToBool": bool(cast) or str(getattr(getattr(cond_v, "type", None), "dtype", "")) .endswith("BOOL")}
    for key, attr in (("thenBranch", "then_branch"), ("elseBranch", "else_branch")):
        fl = _graph_floats(node.attributes[attr].value) & ALLMARKS
        hit = [i for i, m in enumerate(marks) if m and m <= fl]
        res[key] = hit[0] if len(hit) == 1 else None
    return res


class Instr:
    """wraps the four plugin `lower` methods for one export"""

    def __init__(self):
        self.records: list[dict] = []

    def __enter__(self):
        import jax2onnx.plugins.jax.lax.while_loop as W
        import jax2onnx.plugins.jax.lax.scan as S
        import jax2onnx.plugins.jax.lax.cond as C
        import jax2onnx.plugins.jax.lax.fori_loop as F
        self._saved = []
        for cls, kind in ((W.WhileLoopPlugin, "while"), (S.ScanPlugin, "scan"), (C.CondPlugin, "cond"),
                          (F.ForiLoopPlugin, "fori")):
            orig = cls.lower
            self._saved.append((cls, orig))
            cls.lower = self._wrap(orig, kind)
        return self

    def __exit__(self, *a):
        for cls, orig in self._saved:
            cls.lower = orig
        return False

    def _wrap(self, orig, kind):
        me = self

        def lower(plugin, ctx, eqn):
            nodes_before = len(list(ctx.builder.graph))
            invar_vals = []
            for v in eqn.invars:
                if hasattr(v, "val"):          # literal: the plugin will create its own constant
                    invar_vals.append(None)
                else:
                    try:
                        invar_vals.append(ctx.get_value_for_var(v))
                    except Exception:
                        invar_vals.append(None)
            res = orig(plugin, ctx, eqn)
            new = [n for n in list(ctx.builder.graph)[nodes_before:] if n.op_type in ("Loop", "If")]
            rec: dict = {"kind": kind, "depth": getattr(ctx, "_verif_depth", 0)}
            try:
                node = new[-1]
                outvar_vals = []
                for v in eqn.outvars:
                    try:
                        outvar_vals.append(ctx.get_value_for_var(v) if type(v).__name__ != "DropVar" else None)
                    except Exception:
                        outvar_vals.append(None)
                p = eqn.params
                if kind == "while":
                    a, b = int(p.get("cond_nconsts", 0)), int(p.get("body_nconsts", 0))
                    n_state = len(eqn.invars) - a - b
                    cj = p["cond_jaxpr"]
                    pshape = tuple(getattr(cj, "jaxpr", cj).outvars[0].aval.shape)
                    roles = ["condConst"] * a + ["bodyConst"] * b + ["state"] * n_state
                    rec["params"] = {"kind": "while", "nCondConst": a, "nBodyConst": b, "nState": n_state,
                                     "batched": bool(pshape)}
                    rec["real"] = extract_loop_wiring(node, invar_vals, outvar_vals, roles,
                                                      pred_slots=(0,) if pshape else ())
                    if pshape:
                        bj = p["body_jaxpr"]
                        st_shapes = [tuple(ov.aval.shape) for ov in getattr(bj, "jaxpr", bj).outvars]
                        if all(isinstance(d, (int, np.integer)) for d in pshape):
                            rec["freeze"] = {"predShape": [int(d) for d in pshape],
                                             "slots": extract_freeze(node, n_state, pshape, st_shapes)}
                elif kind == "fori":
                    rec["params"] = {"kind": "fori", "lo": int(p.get("lower", 0) or 0),
                                     "trip": int(p.get("trip_count", 0)), "nState": len(eqn.invars)}
                    rec["real"] = extract_loop_wiring(node, invar_vals, outvar_vals, ["state"] * len(eqn.invars))
                elif kind == "scan":
                    jx = p["jaxpr"].jaxpr
                    n_out = len(eqn.outvars)
                    # arities from JAX's own equation layout, independent of jax2onnx._compat.scan_arity:
                    # results = carries ++ ys ; the body returns the same; operands = consts ++ carries ++ xs
                    # and the body's per-step operands drop the leading axis of exactly the xs.
                    n_xs = sum(1 for ov, iv in zip(eqn.invars[::-1], jx.invars[::-1])
                               if len(getattr(ov.aval, "shape", ())) == len(getattr(iv.aval, "shape", ())) + 1)
                    # xs are a suffix: count the maximal suffix whose ranks differ by one
                    n_xs = 0
                    for ov, iv in zip(eqn.invars[::-1], jx.invars[::-1]):
                        if len(getattr(ov.aval, "shape", ())) == len(getattr(iv.aval, "shape", ())) + 1:
                            n_xs += 1
                        else:
                            break
                    n_ys = 0
                    for ov, iv in zip(eqn.outvars[::-1], jx.outvars[::-1]):
                        if len(getattr(ov.aval, "shape", ())) == len(getattr(iv.aval, "shape", ())) + 1:
                            n_ys += 1
                        else:
                            break
                    n_carry = n_out - n_ys
                    n_const = len(eqn.invars) - n_carry - n_xs
                    length = p.get("length")
                    static_len = int(length) if isinstance(length, (int, np.integer)) else None
                    if n_xs > 0 and static_len is None:
                        d0 = eqn.invars[n_const + n_carry].aval.shape[0]
                        static_len = int(d0) if isinstance(d0, (int, np.integer)) else None
                    roles = ["const"] * n_const + ["carry"] * n_carry + ["xs"] * n_xs
                    rec["params"] = {"kind": "scan", "nConst": n_const, "nCarry": n_carry, "nXs": n_xs, "nYs": n_ys,
                                     "length": static_len}
                    rec["real"] = extract_loop_wiring(node, invar_vals, outvar_vals, roles)
                else:
                    rec["params"] = {"kind": "cond"}
                    rec["real"] = extract_if_wiring(node, eqn)
                # body identity: the marks (closed-over constants of generated bodies) that occur in THIS node's
                # own body graph(s), nested graphs excluded
                own = set()
                for attr in ("body", "then_branch", "else_branch"):
                    if attr in node.attributes:
                        own |= _graph_floats(node.attributes[attr].value, recurse=False) & frozenset(MARKS)
                for i in node.inputs:                  # a constant handed to the node from outside counts as its own
                    c = _const_of(i)
                    if c is not None and c.size <= 4 and c.dtype.kind == "f":
                        own |= {float(x) for x in c.reshape(-1)} & frozenset(MARKS)
                rec["marks"] = sorted(own)
            except Exception as e:  # extraction trouble is reported as a broken correspondence
                rec["extract_error"] = f"{type(e).__name__}: {e}"
            me.records.append(rec)
            return res

        return lower


def wiring_equal(real: dict, model: dict) -> list:
    """fields that differ (slots marked '?' — literal operands — are not compared)"""
    bad = []
    for k, mv in model.items():
        rv = real.get(k)
        if k == "slots":
            if len(rv) != len(mv) or any(r != "?" and r != m for r, m in zip(rv, mv)):
                bad.append(k)
        elif k == "results":
            if len(rv) != len(mv) or any(r is not None and r != m for r, m in zip(rv, mv)):
                bad.append(k)
        elif k == "outs":
            # a carried slot the scheme passes through must be an Identity of its input; a slot the body
            # computes may legitimately come back unchanged (the body returned its argument)
            if len(rv) != len(mv) or any(m == "passthrough" and r != "passthrough" for r, m in zip(rv, mv)):
                bad.append(k)
        elif k == "iterOffset" and isinstance(rv, (tuple, list)) and rv and rv[0] == "one-of":
            if mv not in rv[1]:
                bad.append(k)
        elif rv != mv:
            bad.append(k)
    return bad


# ----------------------------------------------------------------------------- programs


class Prog:
    def __init__(self, name: str, fn: Callable, specs: list, inputs: list, kwargs: Optional[dict] = None,
                 expect: Optional[list] = None, closures: Optional[list] = None):
        self.name, self.fn, self.specs, self.inputs, self.kwargs = name, fn, specs, inputs, kwargs or {}
        self.expect = expect       # expected control-flow kinds (sanity: the construct was not optimised away)
        # body identity: [(code id, closed-over mark), ...] — one entry per control-flow body this program
        # creates from a shared code object (step factory, lambda in a Python loop, the arms of a cond)
        self.closures = closures


def _sds(shape, dtype):
    import jax
    return jax.ShapeDtypeStruct(tuple(shape), dtype)


def f32(*shape):
    import jax.numpy as jnp
    return _sds(shape, jnp.float32)


def i32(*shape):
    import jax.numpy as jnp
    return _sds(shape, jnp.int32)


def vec(n, salt=0):
    return ((np.arange(n, dtype=np.float32) * 3 + salt) % 7 - 2).astype(np.float32)


def fixed_programs() -> list[Prog]:
    import jax
    import jax.numpy as jnp
    from jax import lax
    P: list[Prog] = []
    I = lambda v: np.asarray(v, dtype=np.int32)
    F = lambda v: np.asarray(v, dtype=np.float32)

    # ---- while: counter with a runtime bound (0,1,2,k trips), two carries, captured tracer + constant
    def while_counter(x, n):
        k = x.sum()
        def cond(s):
            return s[0] < n
        def body(s):
            return (s[0] + 1, s[1] * 2.0 + k + 0.5)
        return lax.while_loop(cond, body, (jnp.int32(0), x))
    P.append(Prog("while_counter", while_counter, [f32(3), i32()],
                  [[vec(3), I(n)] for n in (0, 1, 2, 5, -3)], expect=["while"]))

    # ---- while: data-dependent exit (state value crosses a threshold)
    def while_data_exit(x, t):
        def cond(s):
            return (s[1].sum() < t) & (s[0] < 50)
        def body(s):
            return (s[0] + 1, s[1] * 1.5 + 1.0)
        return lax.while_loop(cond, body, (jnp.int32(0), x))
    P.append(Prog("while_data_exit", while_data_exit, [f32(2), f32()],
                  [[F([1, 2]), F(t)] for t in (-1.0, 3.0, 3.5, 20.0, 1000.0, 1e9)], expect=["while"]))

    # ---- while: cond constant (closed-over tracer in cond only) and body constant
    def while_cond_const(x, lim, step):
        def cond(s):
            return s < lim * 2.0
        def body(s):
            return s + step
        return lax.while_loop(cond, body, x)
    P.append(Prog("while_cond_const", while_cond_const, [f32(), f32(), f32()],
                  [[F(0.0), F(l), F(s)] for l, s in ((0.0, 1.0), (0.4, 1.0), (1.0, 1.0), (3.0, 0.7), (-1.0, 1.0))],
                  expect=["while"]))

    # ---- nested: while inside while
    def while_nested(n, m):
        def outer_c(s):
            return s[0] < n
        def outer_b(s):
            def inner_c(t):
                return t[0] < m
            def inner_b(t):
                return (t[0] + 1, t[1] + t[0] + s[0])
            j, acc = lax.while_loop(inner_c, inner_b, (jnp.int32(0), s[1]))
            return (s[0] + 1, acc + 100)
        return lax.while_loop(outer_c, outer_b, (jnp.int32(0), jnp.int32(0)))
    P.append(Prog("while_nested", while_nested, [i32(), i32()],
                  [[I(n), I(m)] for n, m in ((0, 0), (0, 3), (1, 0), (2, 3), (3, 1))], expect=["while", "while"]))

    # ---- vmapped while (batched predicate)
    def while_batched(x):
        def one(v):
            return lax.while_loop(lambda s: s < 5.0, lambda s: s * 2.0 + 1.0, v)
        return jax.vmap(one)(x)
    P.append(Prog("while_batched", while_batched, [f32(4)],
                  [[F(v)] for v in ([9, 9, 9, 9], [0, 9, 9, 9], [0, 1, 4, 7], [0.25, 0.5, 2, 100], [4.9, 5.0, 5.1, 0])],
                  expect=["while"]))

    # ---- vmapped while with a NON-MONOTONE exit predicate: a lane that has left the loop must stay frozen
    #      although applying the body to its final state would satisfy the predicate again; lanes leave at
    #      different trips, one at trip 0
    def while_batched_nonmono(x):
        def one(v0):
            def cond(s):
                v, n = s
                return ((v % 4) != 3) & (n < 24)
            def body(s):
                v, n = s
                return v + 1, n + 1
            return lax.while_loop(cond, body, (v0, jnp.int32(0)))
        return jax.vmap(one)(x)
    P.append(Prog("while_batched_nonmonotone", while_batched_nonmono, [i32(4)],
                  [[I(v)] for v in ([3, 0, 1, 2], [3, 3, 3, 3], [0, 0, 0, 0], [7, 4, 4, 10], [2, 3, 6, 5], [-1, -2, 8, 3])],
                  expect=["while"]))

    def while_batched_band(x):
        def one(v0):
            def cond(s):
                v, n = s
                return (jnp.abs(v - 5.0) > 0.6) & (n < 12)
            def body(s):
                v, n = s
                return v + 1.0, n + 1
            return lax.while_loop(cond, body, (v0, jnp.int32(0)))
        return jax.vmap(one)(x)
    P.append(Prog("while_batched_band", while_batched_band, [f32(3)],
                  [[F(v)] for v in ([5.0, 3.0, 4.0], [0.0, 5.2, 9.0], [4.5, 4.5, 4.5], [1.0, 2.0, 3.0])],
                  expect=["while"]))

    # ---- fori: static bounds incl. zero trips and a non-zero lower bound; index used; two carries
    for lo, hi in ((0, 0), (0, 1), (0, 2), (2, 6), (-2, 1), (5, 3)):
        def fori(x, lo=lo, hi=hi):
            def body(i, s):
                return (s[0] * 1.5 + i, s[1] + i * i)
            return lax.fori_loop(lo, hi, body, (x, jnp.int32(0)))
        P.append(Prog(f"fori_{lo}_{hi}".replace("-", "m"), fori, [f32(2)], [[vec(2)], [vec(2, 3)]], expect=["fori"]))

    # ---- fori nested in scan, captured constant
    def scan_fori(xs):
        def step(c, x):
            y = lax.fori_loop(1, 4, lambda i, s: (s[0] + i * s[1], s[1]), (c, x))[0]
            return y, y * 2.0
        return lax.scan(step, jnp.float32(1.0), xs)
    P.append(Prog("scan_fori", scan_fori, [f32(3)], [[vec(3)], [vec(3, 2)]], expect=["scan", "fori"]))

    # ---- scan: several scanned inputs, two carries, two stacked outputs, captured tracer and constant
    for L in (1, 2, 4):
        def scan_multi(a, b, w, L=L):
            k = w.sum()
            def step(c, xs):
                u, v = xs
                c0, c1 = c
                return (c0 + u * v + k, c1 * 0.5 + u.sum()), (c0 - v, u + c1)
            return lax.scan(step, (jnp.zeros((2,), jnp.float32), jnp.float32(1.0)), (a, b))
        P.append(Prog(f"scan_multi_L{L}", scan_multi, [f32(L, 2), f32(L, 2), f32(3)],
                      [[vec(2 * L).reshape(L, 2), vec(2 * L, 4).reshape(L, 2), vec(3, 1)]], expect=["scan"]))

    # ---- scan with a symbolic length (trip count read at run time), incl. length 1
    def scan_sym(xs, w):
        def step(c, x):
            return c * 0.5 + x + w, c + x
        return lax.scan(step, jnp.float32(0.0), xs)
    P.append(Prog("scan_symbolic_len", scan_sym, [("L",), ()],
                  [[vec(L), F(0.25)] for L in (1, 2, 3, 7)], expect=["scan"]))

    def scan_sym2(xs, ys):
        def step(c, xy):
            x, y = xy
            return c + x.sum() * y, (x * y, c)
        return lax.scan(step, jnp.float32(0.0), (xs, ys))
    P.append(Prog("scan_symbolic_two_xs", scan_sym2, [("L", 2), ("L",)],
                  [[vec(2 * L).reshape(L, 2), vec(L, 5)] for L in (1, 2, 5)], expect=["scan"]))

    # ---- scan without xs (static length), 0 / 1 / 3 steps
    for L in (0, 1, 3):
        def scan_noxs(x, L=L):
            def step(c, _):
                return c * 2.0 + 1.0, c.sum()
            return lax.scan(step, x, None, length=L)
        P.append(Prog(f"scan_noxs_L{L}", scan_noxs, [f32(2)], [[vec(2)]], expect=["scan"]))

    # ---- scan of length 0 with xs
    def scan_len0(xs, c0):
        return lax.scan(lambda c, x: (c + x, c * x), c0, xs)
    P.append(Prog("scan_xs_len0", scan_len0, [f32(0), f32()], [[np.zeros((0,), np.float32), F(3.0)]], expect=["scan"]))

    # ---- cond: both branches, operands, captured tracer; nested cond
    def cond_basic(p, x, w):
        k = w * 2.0
        return lax.cond(p > 0.0, lambda v: v * MAGIC[1] + k, lambda v: v - MAGIC[0] * k, x)
    P.append(Prog("cond_basic", cond_basic, [f32(), f32(3), f32()],
                  [[F(p), vec(3), F(0.5)] for p in (-1.0, 0.0, 1.0, 1e-6)], expect=["cond"]))

    def cond_nested(p, q, x):
        def t(v):
            return lax.cond(q > 0.0, lambda u: u * MAGIC[3], lambda u: u + MAGIC[2], v)
        return lax.cond(p > 0.0, lambda v: t(v) * MAGIC[1], lambda v: v - MAGIC[0], x)
    P.append(Prog("cond_nested", cond_nested, [f32(), f32(), f32(2)],
                  [[F(p), F(q), vec(2)] for p in (-1.0, 1.0) for q in (-1.0, 1.0)], expect=["cond", "cond"]))

    # ---- two-branch switch: every clamped index
    def switch2(i, x):
        return lax.switch(i, [lambda v: v * MAGIC[0], lambda v: v + MAGIC[1]], x)
    P.append(Prog("switch2", switch2, [i32(), f32(2)], [[I(i), vec(2)] for i in (-5, -1, 0, 1, 2, 7)], expect=["cond"]))

    # ---- cond inside a while body, while inside a cond branch
    def while_with_cond(n, x):
        def body(s):
            v = lax.cond(s[0] % 2 == 0, lambda u: u + MAGIC[1], lambda u: u * 0.5 - MAGIC[0], s[1])
            return (s[0] + 1, v)
        return lax.while_loop(lambda s: s[0] < n, body, (jnp.int32(0), x))
    P.append(Prog("while_with_cond", while_with_cond, [i32(), f32()],
                  [[I(n), F(1.0)] for n in (0, 1, 2, 5)], expect=["while", "cond"]))

    # ---- bodies with scatter (the loop_axis0_override heuristics), integer carries, literal inits,
    #      nested scans of different lengths, symbolic state extents
    def scan_scatter(xs, idx):
        def step(c, xi):
            x, i = xi
            c = c.at[i].set(x)
            return c, c.sum()
        return lax.scan(step, jnp.zeros((5,), jnp.float32), (xs, idx))
    P.append(Prog("scan_scatter_5_3", scan_scatter, [f32(3), i32(3)],
                  [[F([1, 2, 3]), I([0, 4, 2])], [F([1, 2, 3]), I([1, 1, 1])]], expect=["scan"]))

    def fori_scatter(x):
        return lax.fori_loop(0, 3, lambda i, v: v.at[i].set(i * 2.0 + v[i]), x)
    P.append(Prog("fori_scatter_5_3", fori_scatter, [f32(5)], [[F([1, 2, 3, 4, 5])]], expect=["fori"]))

    def while_scatter(x, n):
        def body(s):
            i, v = s
            return i + 1, v.at[i].set(v[i] * 10.0)
        return lax.while_loop(lambda s: s[0] < n, body, (jnp.int32(0), x))
    P.append(Prog("while_scatter", while_scatter, [f32(4), i32()],
                  [[F([1, 2, 3, 4]), I(n)] for n in (0, 1, 3, 4)], expect=["while"]))

    def scan_int(xs):
        return lax.scan(lambda c, x: (c + x, c * 2), jnp.int32(1), xs)
    P.append(Prog("scan_int", scan_int, [i32(4)], [[I([1, 2, 3, 4])]], expect=["scan"]))

    def while_literal_init(n):
        return lax.while_loop(lambda s: s < n, lambda s: s + 2, 0)
    P.append(Prog("while_literal_init", while_literal_init, [i32()], [[I(n)] for n in (0, 1, 5)], expect=["while"]))

    def scan_nested_len(a, b):
        def outer(c, x):
            def inner(d, y):
                return d + x * y, d
            d, ys = lax.scan(inner, c, b)
            return d, ys.sum()
        return lax.scan(outer, jnp.float32(0.0), a)
    P.append(Prog("scan_nested_len", scan_nested_len, [f32(3), f32(2)], [[F([1, 2, 3]), F([4, 5])]],
                  expect=["scan", "scan"]))

    def scan_2d(xs):
        return lax.scan(lambda c, x: (c + x.sum(), x * c), jnp.float32(1.0), xs)
    P.append(Prog("scan_2d_symbolic", scan_2d, [("L", 3)],
                  [[np.arange(3 * L, dtype=np.float32).reshape(L, 3)] for L in (1, 2, 5)], expect=["scan"]))

    def while_sym_state(x, n):
        return lax.while_loop(lambda s: s[0] < n, lambda s: (s[0] + 1, s[1] * 2.0), (jnp.int32(0), x))
    P.append(Prog("while_symbolic_state", while_sym_state, [("B",), i32()],
                  [[np.arange(B, dtype=np.float32), I(n)] for B in (1, 3) for n in (0, 2)], expect=["while"]))

    def cond_with_while(p, n):
        def loop(v):
            return lax.while_loop(lambda s: s[0] < n, lambda s: (s[0] + 1, s[1] * MAGIC[1]), (jnp.int32(0), v))[1]
        return lax.cond(p > 0.0, loop, lambda v: v - MAGIC[0], jnp.float32(1.0))
    P.append(Prog("cond_with_while", cond_with_while, [f32(), i32()],
                  [[F(p), I(n)] for p in (-1.0, 1.0) for n in (0, 1, 3)], expect=["cond", "while"]))
    return P


def random_programs(rng: common.Rng, n: int) -> list[Prog]:
    """seeded variations of arities: number of carries / scanned inputs / stacked outputs / captured
    tracers, static trip counts and bounds"""
    import jax.numpy as jnp
    from jax import lax
    P = []
    F = lambda v: np.asarray(v, dtype=np.float32)
    I = lambda v: np.asarray(v, dtype=np.int32)
    for t in range(n):
        kind = rng.choice(["scan", "scan", "while", "fori", "cond"])
        ncar = rng.randint(1, 3)
        ncap = rng.randint(0, 2)
        if kind == "scan":
            nxs, nys, L = rng.randint(1, 3), rng.randint(0, 2), rng.choice([1, 2, 3, 5])
            def fn(*args, ncar=ncar, nxs=nxs, nys=nys, ncap=ncap):
                caps, xs, c0 = args[:ncap], args[ncap:ncap + nxs], args[ncap + nxs:]
                ks = [c.sum() for c in caps]
                def step(c, x):
                    s = sum(x) + sum(ks) if ks else sum(x)
                    newc = tuple(ci * (0.5 + 0.25 * j) + s for j, ci in enumerate(c))
                    ys = tuple(c[j % len(c)] - s * (j + 1) for j in range(nys))
                    return newc, ys
                return lax.scan(step, tuple(c0), tuple(xs))
            specs = [f32(2)] * ncap + [f32(L)] * nxs + [f32()] * ncar
            inputs = [[vec(2, j) for j in range(ncap)] + [vec(L, j + 1) for j in range(nxs)] + [F(j) for j in range(ncar)]]
            P.append(Prog(f"rand_scan_{t}", fn, specs, inputs, expect=["scan"]))
        elif kind == "while":
            def fn(n, *args, ncar=ncar, ncap=ncap):
                caps, st = args[:ncap], args[ncap:]
                ks = [c.sum() for c in caps]
                def cond(s):
                    return s[0] < n
                def body(s):
                    base = sum(ks) if ks else 1.0
                    return (s[0] + 1,) + tuple(v * 1.25 + base + j for j, v in enumerate(s[1:]))
                return lax.while_loop(cond, body, (jnp.int32(0),) + tuple(st))
            specs = [i32()] + [f32(2)] * ncap + [f32()] * ncar
            inputs = [[I(k)] + [vec(2, j) for j in range(ncap)] + [F(j) for j in range(ncar)] for k in (0, 1, 2, 4)]
            P.append(Prog(f"rand_while_{t}", fn, specs, inputs, expect=["while"]))
        elif kind == "fori":
            lo, nt = rng.randint(-2, 3), rng.randint(0, 4)
            def fn(*st, lo=lo, nt=nt):
                def body(i, s):
                    return tuple(v * 1.5 + i + j for j, v in enumerate(s))
                return lax.fori_loop(lo, lo + nt, body, tuple(st))
            P.append(Prog(f"rand_fori_{t}", fn, [f32()] * ncar, [[F(j + 0.5) for j in range(ncar)]], expect=["fori"]))
        else:
            nop = rng.randint(1, 3)
            def fn(p, *ops, ncap=ncap):
                caps, xs = ops[:ncap], ops[ncap:]
                k = sum(c.sum() for c in caps) if caps else 0.0
                return lax.cond(p > 0.0,
                                lambda *v: tuple(u * MAGIC[1] + k for u in v),
                                lambda *v: tuple(u - MAGIC[0] - k for u in v), *xs)
            specs = [f32()] + [f32(2)] * ncap + [f32(2)] * nop
            inputs = [[F(p)] + [vec(2, j) for j in range(ncap)] + [vec(2, j + 3) for j in range(nop)] for p in (-1.0, 1.0)]
            P.append(Prog(f"rand_cond_{t}", fn, specs, inputs, expect=["cond"]))
    return P


# ----------------------------------------------------------------------------- round 2 program families


# shared code objects: every body made by one of these factories has the SAME code object and differs
# only in its closure cells (module level on purpose: shared across programs = across exports, too)
def make_fori_step(scale, mark):
    def step(i, v):
        return v * scale + mark + i
    return step


def make_while_cond(limit):
    def cond(s):
        return s[0] < limit
    return cond


def make_while_body(scale, mark):
    def body(s):
        return s[0] + 1, s[1] * scale + mark
    return body


def make_scan_step(scale, mark):
    def step(c, x):
        return c * scale + x + mark, c - x
    return step


def make_branch(mark):
    def branch(v):
        return v * 0.5 + mark
    return branch


BW_SHAPES = {0: [(3,), (1,)], 1: [(2, 2), (3, 2)], 2: [(2, 2, 3), (3, 2, 2), (2, 3, 2)], 3: [(2, 2, 2, 2), (3, 2, 1, 2)]}
BODY_KINDS = ("scatter_add", "scatter_set", "gather", "dus", "concat", "iota", "reshape")


def _lanes(shape, lane_vals):
    """(B,)+rest array: lane j is filled with lane_vals[j] (+ a small distinct ramp, so that an update that
    lands on the wrong axis is visible)"""
    B = shape[0]
    rest = int(np.prod(shape[1:])) if len(shape) > 1 else 1
    out = np.zeros((B, rest), np.float32)
    for j in range(B):
        out[j] = lane_vals[j % len(lane_vals)] + 0.015625 * np.arange(rest, dtype=np.float32)
    return out.reshape(shape)


def batched_while_programs(rng: common.Rng, thorough: bool) -> list[Prog]:
    """class (a): vmapped while with a batched predicate; carried values of per-example rank 0..3 (B = N and
    B != N), a second carried value of per-example rank 0, lanes with different trip counts incl. zero trips"""
    import jax
    import jax.numpy as jnp
    from jax import lax
    P = []

    def mk(shape, T):
        def fn(x):
            def one(m):
                def cond(s):
                    v, n = s
                    return (jnp.sum(v) < T) & (n < 9)
                def body(s):
                    v, n = s
                    return v * 2.0 + 1.0, n + 1
                return lax.while_loop(cond, body, (m, jnp.int32(0)))
            return jax.vmap(one)(x)
        return fn

    for r, shapes in BW_SHAPES.items():
        picks = shapes if thorough else [shapes[0], rng.choice(shapes[1:])] if len(shapes) > 1 else shapes
        for shape in picks:
            size = int(np.prod(shape[1:])) if len(shape) > 1 else 1
            T = 20.0 * size
            # per-lane start values: 0 -> 5 trips, 1 -> 4, 3 -> 3, 7 -> 2, 12 -> 1, 25 -> 0 trips
            sets = [[0.0, 25.0, 3.0], [25.0, 0.0, 12.0], [7.0, 1.0, 25.0], [25.0, 25.0, 25.0], [1.0, 1.0, 1.0]]
            inputs = [[_lanes(shape, lv)] for lv in sets]
            name = "bw_rank%d_%s" % (r, "x".join(map(str, shape)))
            P.append(Prog(name, mk(shape, T), [f32(*shape)], inputs, expect=["while"]))

    # integer matrix state, non-monotone exit: a finished lane must stay frozen
    def bw_int(x):
        def one(m):
            def cond(s):
                v, n = s
                return ((jnp.sum(v) % 4) != 3) & (n < 16)
            def body(s):
                v, n = s
                return v.at[0, 0].add(1), n + 1
            return lax.while_loop(cond, body, (m, jnp.int32(0)))
        return jax.vmap(one)(x)
    def imat(vals):
        a = np.zeros((2, 2, 2), np.int32)
        for j, v in enumerate(vals):
            a[j, 0, 0] = v
            a[j, 1, 1] = 4 * (j + 1)
        return a
    P.append(Prog("bw_int_nonmonotone_2x2x2", bw_int, [i32(2, 2, 2)],
                  [[imat(v)] for v in ([3, 0], [0, 3], [1, 2], [3, 3], [2, 7])], expect=["while"]))

    # nested vmap: predicate of rank 2
    def bw_nested(x):
        def one(m):
            return lax.while_loop(lambda v: jnp.sum(v) < 40.0, lambda v: v * 2.0 + 1.0, m)
        return jax.vmap(jax.vmap(one))(x)
    def nested_in(vals):
        a = np.zeros((2, 2, 2), np.float32)
        for j, v in enumerate(vals):
            a[j // 2, j % 2] = v + 0.015625 * np.arange(2, dtype=np.float32)
        return a
    P.append(Prog("bw_nested_vmap_2x2x2", bw_nested, [f32(2, 2, 2)],
                  [[nested_in(v)] for v in ([0, 25, 3, 7], [25, 25, 25, 25], [12, 0, 25, 1])], expect=["while"]))
    return P


def extent_body_programs(rng: common.Rng, thorough: bool) -> list[Prog]:
    """class (b): loop bodies whose primitives carry their own static extents (scatter / gather with index
    vectors, dynamic_update_slice, concatenate, iota, reshape) that differ from the trip count"""
    import jax.numpy as jnp
    from jax import lax
    P = []
    F = lambda v: np.asarray(v, dtype=np.float32)
    I = lambda v: np.asarray(v, dtype=np.int32)

    def body_of(kind):
        idx = np.array([0, 2], dtype=np.int32)
        gidx = np.array([3, 1, 0], dtype=np.int32)
        def upd(c, x):          # c: (4,), x: (2,)
            if kind == "scatter_add":
                return c.at[jnp.asarray(idx)].add(x)
            if kind == "scatter_set":
                return c.at[jnp.asarray(idx)].set(x + c[1])
            if kind == "gather":
                return c + jnp.sum(c[jnp.asarray(gidx)] * jnp.asarray([1.0, 2.0, 3.0], jnp.float32)) * 0.125 + jnp.sum(x)
            if kind == "dus":
                return lax.dynamic_update_slice(c, x * 0.5, (1,)) + 1.0
            if kind == "concat":
                return c * 0.5 + jnp.concatenate([x, x, x])[1:5]
            if kind == "iota":
                return c + jnp.arange(4, dtype=jnp.float32) * jnp.sum(x)
            if kind == "reshape":
                return (c.reshape(2, 2) * x.reshape(1, 2) + 1.0).reshape(4)
            raise KeyError(kind)
        return upd

    def xs_of(T, salt=0):
        return (np.arange(2 * T, dtype=np.float32).reshape(T, 2) * 0.25 + 1.0 + salt).astype(np.float32)
    buf = F([0.5, -1.0, 2.0, 0.25])

    def mk_scan(kind):
        upd = body_of(kind)
        def fn(xs, b):
            def body(c, x):
                new = upd(c, x)
                return new, jnp.sum(new)
            return lax.scan(body, b, xs)
        return fn

    lens = {"scatter_add": (1, 2, 3, 5), "scatter_set": (1, 3)}
    for kind in BODY_KINDS:
        Ts = lens.get(kind, (3,) if not thorough else (1, 3, 5))
        if not thorough and kind not in lens:
            Ts = (rng.choice([1, 3, 5]),)
        for T in Ts:
            P.append(Prog(f"scan_{kind}_T{T}", mk_scan(kind), [f32(T, 2), f32(4)],
                          [[xs_of(T), buf], [xs_of(T, 2), buf * 2.0]], expect=["scan"]))
    # symbolic length: the trip count must be read from the scanned input at run time
    for kind in ("scatter_add", "gather") if not thorough else BODY_KINDS:
        P.append(Prog(f"scan_{kind}_symbolic", mk_scan(kind), [("L", 2), f32(4)],
                      [[xs_of(T), buf] for T in (1, 2, 3, 6)], expect=["scan"]))
    # two scanned inputs of the same length, scatter window 2, carry of extent 4, stacked output of extent 3
    def scan_two_xs(xs, ws, b):
        def body(c, xw):
            x, w = xw
            new = c.at[jnp.asarray([1, 3])].add(x * w)
            return new, jnp.concatenate([new[:2], w[None]])
        return lax.scan(body, b, (xs, ws))
    for T in (1, 3, 4):
        P.append(Prog(f"scan_two_xs_scatter_T{T}", scan_two_xs, [f32(T, 2), f32(T), f32(4)],
                      [[xs_of(T), vec(T, 1), buf]], expect=["scan"]))
    # scan without xs
    for kind, L in (("scatter_add", 3), ("scatter_set", 1), ("iota", 1), ("dus", 5)):
        upd = body_of(kind)
        def noxs(b, w, upd=upd, L=L):
            def body(c, _):
                new = upd(c, w)
                return new, new[:3]
            return lax.scan(body, b, None, length=L)
        P.append(Prog(f"scan_noxs_{kind}_L{L}", noxs, [f32(4), f32(2)], [[buf, F([1.0, 2.0])]], expect=["scan"]))
    # zero trips with a NON-SCALAR per-step output: the empty stacked output must keep the per-step extents
    def scan_len0_noxs(b):
        return lax.scan(lambda c, _: (c * 2.0, c[:3]), b, None, length=0)
    P.append(Prog("scan_len0_vector_ys_noxs", scan_len0_noxs, [f32(4)], [[buf]], expect=["scan"]))
    def scan_len0_xs(xs, b):
        return lax.scan(lambda c, x: (c * 2.0 + jnp.sum(x), c[:3]), b, xs)
    P.append(Prog("scan_len0_vector_ys_xs", scan_len0_xs, [f32(0, 2), f32(4)], [[np.zeros((0, 2), np.float32), buf]],
                  expect=["scan"]))
    # fori: trip count 0/1/3/5 vs window 2
    for lo, hi in ((0, 0), (0, 1), (1, 4), (0, 5)):
        def fori_vec(b, lo=lo, hi=hi):
            def body(i, c):
                return c.at[jnp.asarray([0, 2])].add(jnp.stack([i * 1.0, i * 2.0 + 1.0]))
            return lax.fori_loop(lo, hi, body, b)
        P.append(Prog(f"fori_scatter_vec_{lo}_{hi}", fori_vec, [f32(4)], [[buf], [buf + 1.0]], expect=["fori"]))
    def fori_concat(b):
        def body(i, c):
            return jnp.concatenate([c[2:], c[:2]]) + jnp.arange(4, dtype=jnp.float32) * i
        return lax.fori_loop(0, 3, body, b)
    P.append(Prog("fori_concat_iota_0_3", fori_concat, [f32(4)], [[buf]], expect=["fori"]))
    # while with a run-time bound
    def while_vec(b, n):
        def body(s):
            i, c = s
            return i + 1, c.at[jnp.asarray([0, 2])].add(jnp.stack([c[1], c[3] * 0.5]))
        return lax.while_loop(lambda s: s[0] < n, body, (jnp.int32(0), b))
    P.append(Prog("while_scatter_vec", while_vec, [f32(4), i32()], [[buf, I(n)] for n in (0, 1, 2, 3, 5)],
                  expect=["while"]))
    def while_dus(b, n):
        def body(s):
            i, c = s
            return i + 1, lax.dynamic_update_slice(c, c[:2] * 2.0, (i % 3,))
        return lax.while_loop(lambda s: s[0] < n, body, (jnp.int32(0), b))
    P.append(Prog("while_dus", while_dus, [f32(4), i32()], [[buf, I(n)] for n in (0, 1, 4)], expect=["while"]))
    return P


def shared_code_programs(rng: common.Rng, thorough: bool) -> list[Prog]:
    """class (c): several control-flow constructs whose bodies share a code object and differ only in
    closed-over constants — in one export (step factory, lambda in a Python loop, the arms of a cond) and
    across successive exports in this process (the factories are module level)"""
    import jax.numpy as jnp
    from jax import lax
    P = []
    F = lambda v: np.asarray(v, dtype=np.float32)
    I = lambda v: np.asarray(v, dtype=np.int32)
    x2 = F([1.0, -2.0])
    marks = iter(MARKS)
    nx = lambda: next(marks)
    sc = lambda: rng.choice([2.0, 3.0, 0.5, -1.0, 1.5])

    m = [nx() for _ in range(3)]
    cs = [sc() for _ in range(3)]
    def fori_stacked(x, m=m, cs=cs):
        for scale, mark in zip(cs, m):
            x = lax.fori_loop(0, 2, make_fori_step(scale, mark), x)
        return x
    P.append(Prog("fori_factory_stacked", fori_stacked, [f32(2)], [[x2], [x2 * 3.0]], expect=["fori"] * 3,
                  closures=[(a,) for a in m]))

    m2 = [nx() for _ in range(2)]
    def fori_arms(p, x, m2=m2):
        return lax.cond(p > 0.0,
                        lambda v: lax.fori_loop(0, 3, make_fori_step(2.0, m2[0]), v),
                        lambda v: lax.fori_loop(0, 3, make_fori_step(-1.0, m2[1]), v), x)
    P.append(Prog("fori_factory_cond_arms", fori_arms, [f32(), f32(2)], [[F(p), x2] for p in (-1.0, 1.0)],
                  expect=["cond", "fori", "fori"], closures=[(), (m2[0],), (m2[1],)]))

    m3 = [nx() for _ in range(3)]
    def fori_trips(x, m3=m3):
        a = lax.fori_loop(0, 0, make_fori_step(5.0, m3[0]), x)
        b = lax.fori_loop(0, 1, make_fori_step(7.0, m3[1]), x)
        c = lax.fori_loop(2, 5, make_fori_step(1.5, m3[2]), x)
        return a, b, c
    P.append(Prog("fori_factory_trips", fori_trips, [f32(2)], [[x2]], expect=["fori"] * 3,
                  closures=[(a,) for a in m3]))

    m4 = [nx() for _ in range(3)]
    def fori_pyloop(x, m4=m4):
        for k in m4:                                   # one lambda per layer, late-bound cell `k`
            x = lax.fori_loop(0, 2, lambda i, v: v * 0.5 + k + i, x)
        return x
    P.append(Prog("fori_lambda_pyloop", fori_pyloop, [f32(2)], [[x2]], expect=["fori"] * 3,
                  closures=[(a,) for a in m4]))

    # the same factory again in a LATER export (a memo that outlives one export)
    m5 = nx()
    s5 = sc()
    P.append(Prog("fori_factory_next_export", lambda x: lax.fori_loop(0, 2, make_fori_step(s5, m5), x),
                  [f32(2)], [[x2]], expect=["fori"], closures=[(m5,)]))

    m6 = [nx() for _ in range(2)]
    def while_factory(x, n, m6=m6):
        a = lax.while_loop(make_while_cond(n), make_while_body(0.5, m6[0]), (jnp.int32(0), x))[1]
        b = lax.while_loop(make_while_cond(n + 1), make_while_body(2.0, m6[1]), (jnp.int32(0), x))[1]
        return a, b
    P.append(Prog("while_factory_two", while_factory, [f32(2), i32()], [[x2, I(n)] for n in (0, 1, 3)],
                  expect=["while"] * 2, closures=[(a,) for a in m6]))
    m7 = nx()
    P.append(Prog("while_factory_next_export",
                  lambda x, n: lax.while_loop(make_while_cond(n), make_while_body(3.0, m7), (jnp.int32(0), x))[1],
                  [f32(2), i32()], [[x2, I(n)] for n in (0, 2)], expect=["while"], closures=[(m7,)]))

    m8 = [nx() for _ in range(2)]
    def scan_factory(xs, m8=m8):
        c1, y1 = lax.scan(make_scan_step(0.5, m8[0]), jnp.float32(1.0), xs)
        c2, y2 = lax.scan(make_scan_step(2.0, m8[1]), jnp.float32(1.0), xs)
        return c1, y1, c2, y2
    P.append(Prog("scan_factory_two", scan_factory, [f32(3)], [[vec(3)]], expect=["scan"] * 2,
                  closures=[(a,) for a in m8]))
    m9 = nx()
    P.append(Prog("scan_factory_next_export", lambda xs: lax.scan(make_scan_step(-1.0, m9), jnp.float32(1.0), xs),
                  [f32(4)], [[vec(4)]], expect=["scan"], closures=[(m9,)]))

    m10 = [nx() for _ in range(4)]
    def cond_factory(p, q, x, m10=m10):
        a = lax.cond(p > 0.0, make_branch(m10[1]), make_branch(m10[0]), x)
        b = lax.cond(q > 0.0, make_branch(m10[3]), make_branch(m10[2]), x)
        return a, b
    P.append(Prog("cond_factory_two", cond_factory, [f32(), f32(), f32(2)],
                  [[F(p), F(q), x2] for p in (-1.0, 1.0) for q in (-1.0, 1.0)], expect=["cond"] * 2,
                  closures=[tuple(sorted(m10[:2])), tuple(sorted(m10[2:]))]))
    return P


def round2_programs(rng: common.Rng, thorough: bool) -> list[Prog]:
    return batched_while_programs(rng, thorough) + extent_body_programs(rng, thorough) + shared_code_programs(rng, thorough)


# ----------------------------------------------------------------------------- reject table


def variant_programs() -> list[tuple]:
    """(variant fields, callable, specs). Every row is run on the live code: raised?"""
    import jax.numpy as jnp
    from jax import lax
    V = []
    base = {"reverse": False, "nXs": 1, "staticLength": True, "nState": 1, "dynamicBounds": False,
            "capturesTracer": False, "nBranches": 2}
    def row(construct, fn, specs, **kw):
        V.append(({**base, "construct": construct, **kw}, fn, specs))
    row("while", lambda x: lax.while_loop(lambda s: s < 3.0, lambda s: s + 1.0, x), [f32()])
    row("while", lambda x: lax.while_loop(lambda s: s[0] < 3.0, lambda s: (s[0] + 1.0, s[1]), (x, x)), [f32()], nState=2)
    row("fori", lambda x: lax.fori_loop(0, 3, lambda i, s: s + i, x), [f32()])
    row("fori", lambda x, n: lax.fori_loop(0, n, lambda i, s: s + i, x), [f32(), i32()], dynamicBounds=True)
    row("fori", lambda x, n: lax.fori_loop(n, 5, lambda i, s: s + i, x), [f32(), i32()], dynamicBounds=True)
    row("fori", lambda x, w: lax.fori_loop(0, 3, lambda i, s: s + i * w, x), [f32(), f32()], capturesTracer=True)
    row("fori", lambda x: lax.fori_loop(0, 3, lambda i, s: s + i * 2.5, x), [f32()])

    def stateless(x, n):
        lax.while_loop(lambda s: n < 0, lambda s: s, ())
        return x + 1.0
    row("while", stateless, [f32(), i32()], nState=0)
    row("scan", lambda xs: lax.scan(lambda c, x: (c + x, c), jnp.float32(0), xs), [f32(3)])
    row("scan", lambda xs, ys: lax.scan(lambda c, x: (c + x[0] * x[1], c), jnp.float32(0), (xs, ys)), [f32(3), f32(3)], nXs=2)
    row("scan", lambda x: lax.scan(lambda c, _: (c * 2.0, c), x, None, length=3), [f32()], nXs=0)
    row("scan", lambda xs: lax.scan(lambda c, x: (c + x, c), jnp.float32(0), xs, reverse=True), [f32(3)], reverse=True)
    row("scan", lambda x: lax.scan(lambda c, _: (c * 2.0, c), x, None, length=3, reverse=True), [f32()], nXs=0, reverse=True)
    row("scan", lambda x, n: lax.scan(lambda c, _: (c * 2.0, c), x, None, length=n), [f32(), i32()], nXs=0, staticLength=False)
    row("cond", lambda p, x: lax.cond(p > 0, lambda v: v + 1.0, lambda v: v - 1.0, x), [f32(), f32()])
    row("cond", lambda i, x: lax.switch(i, [lambda v: v + 1.0, lambda v: v - 1.0], x), [i32(), f32()])
    row("cond", lambda i, x: lax.switch(i, [lambda v: v + 1.0, lambda v: v - 1.0, lambda v: v * 2.0], x), [i32(), f32()], nBranches=3)
    row("cond", lambda i, x: lax.switch(i, [lambda v: v + 1.0, lambda v: v - 1.0, lambda v: v * 2.0, lambda v: v * 3.0], x),
        [i32(), f32()], nBranches=4)
    return V


CONSTRUCT_CODE = {"while": 0, "fori": 1, "scan": 2, "cond": 3}


def _sample_inputs(specs) -> list:
    out = []
    for j, sp in enumerate(specs):
        shape = tuple(sp.shape)
        if np.issubdtype(np.dtype(sp.dtype), np.integer):
            out.append(np.asarray(2, dtype=sp.dtype).reshape(shape) if shape == () else np.full(shape, 2, dtype=sp.dtype))
        else:
            n = int(np.prod(shape)) if shape else 1
            out.append((vec(n, j) + 1.5).reshape(shape).astype(sp.dtype))
    return out


def tabulate_rejects() -> list[dict]:
    from jax2onnx import to_onnx
    rows = []
    for fields, fn, specs in variant_programs():
        err, agree, detail = None, None, None
        try:
            model = to_onnx(fn, list(specs))
        except Exception as e:
            err = f"{type(e).__name__}: {str(e)[:120]}"
        else:
            # exported: does it compute what JAX computes on a sample input?
            try:
                inp = _sample_inputs(specs)
                sess = ort_session(model.SerializeToString())
                outs = run_guarded(sess, dict(zip([i.name for i in sess.get_inputs()], inp)))
                exp = flat(fn(*inp))
                agree = len(outs) == len(exp) and all(same_result(o, e) for o, e in zip(outs, exp))
                detail = {"inputs": [np.asarray(v).reshape(-1)[:6].tolist() for v in inp],
                          "ort": [np.asarray(o).reshape(-1)[:6].tolist() for o in outs],
                          "jax": [np.asarray(e).reshape(-1)[:6].tolist() for e in exp]}
            except Exception as e:
                agree, detail = False, {"ort_error": f"{type(e).__name__}: {str(e)[-200:]}"}
        rows.append({**fields, "raised": err is not None, "error": err, "agrees_with_jax": agree, "detail": detail})
    return rows


def generate(rows: Optional[list] = None) -> list:
    if rows is None:
        # standalone call (vcheck setup / seedtest's final regeneration): same lock as run(), so that the table
        # is never swapped between another run's generate() and its build of GenProps
        import fcntl
        rows = tabulate_rejects()
        (LEAN / ".lake").mkdir(exist_ok=True)
        with open(LEAN / ".lake" / "c06.gen.lock", "w") as lock_fh:
            fcntl.flock(lock_fh, fcntl.LOCK_EX)
            try:
                return generate(rows)
            finally:
                fcntl.flock(lock_fh, fcntl.LOCK_UN)

    def lean_row(r):
        return (f"({CONSTRUCT_CODE[r['construct']]}, {lean_bool(r['reverse'])}, {r['nXs']}, "
                f"{lean_bool(r['staticLength'])}, {r['nState']}, {lean_bool(r['dynamicBounds'])}, "
                f"{lean_bool(r['capturesTracer'])}, {r['nBranches']}, {lean_bool(r['raised'])})")
    src = f"""/- GENERATED by harness/props/c06.py from /repo on every run — do not edit. -/
namespace J2O.Gen.C06

/-- (construct 0=while 1=fori 2=scan 3=cond, reverse, nXs, staticLength, nState, dynamicBounds,
    capturesTracer, nBranches, did the live `to_onnx` raise?) — one row per variant program run on the
    real code. -/
def rejectTable : List (Nat × Bool × Nat × Bool × Nat × Bool × Bool × Nat × Bool) := {lean_list(map(lean_row, rows), 2)}

end J2O.Gen.C06
"""
    write_if_changed(LEAN / "J2O/Gen/C06.lean", src)
    return rows


# ----------------------------------------------------------------------------- ORT helpers


def ort_session(model_bytes: bytes):
    import onnxruntime as ort
    so = ort.SessionOptions()
    so.log_severity_level = 4
    so.intra_op_num_threads = 1
    so.inter_op_num_threads = 1
    so.graph_optimization_level = ort.GraphOptimizationLevel.ORT_DISABLE_ALL
    return ort.InferenceSession(model_bytes, so, providers=["CPUExecutionProvider"])


def run_guarded(sess, feeds: dict, seconds: float = 30.0):
    """sess.run with a watchdog: a Loop that does not end (e.g. a mis-wired condition) is terminated and
    reported as an ORT error instead of hanging the check"""
    import threading
    import onnxruntime as ort
    ro = ort.RunOptions()
    timer = threading.Timer(seconds, lambda: setattr(ro, "terminate", True))
    timer.start()
    try:
        return sess.run(None, feeds, ro)
    finally:
        timer.cancel()


def flat(r) -> list:
    import jax
    return [np.asarray(v) for v in jax.tree_util.tree_leaves(r)]


def same_result(a: np.ndarray, b: np.ndarray) -> bool:
    a, b = np.asarray(a), np.asarray(b)
    if a.shape != b.shape:
        return False
    if a.dtype.kind in "iub" and b.dtype.kind in "iub":
        return bool(np.array_equal(a.astype(np.int64), b.astype(np.int64)))
    if (a.dtype.kind in "iub") != (b.dtype.kind in "iub"):
        return False
    return bool(np.allclose(a.astype(np.float64), b.astype(np.float64), rtol=2e-5, atol=1e-5))


LOOP_CASES = [(M, c0, a, b, c, T, s0) for M in (0, 1, 2, 5) for c0 in (False, True) for (a, b, c) in ((2, 1, 1), (1, 0, 3))
              for T in (0, 4, 12, 1000) for s0 in (0, 1)]
WHILE_CASES = [(a, c, T, s0) for (a, c) in ((2, 1), (1, 3)) for T in (0, 1, 5, 40) for s0 in (0, 1, 7)]


def loop_semantics_requests() -> list:
    reqs = [json.dumps({"op": "loop", "M": M, "cond0": c0, "a": a, "b": b, "c": c, "T": T, "s0": s0})
            for (M, c0, a, b, c, T, s0) in LOOP_CASES]
    reqs += [json.dumps({"op": "while", "a": a, "c": c, "T": T, "s0": s0, "fuel": 64}) for (a, c, T, s0) in WHILE_CASES]
    return reqs


def check_loop_semantics(chk: Check, raw: list) -> None:
    """`loopO` (the ONNX Loop of the theorems) vs ONNX Runtime on hand-built Loop models, and
    `whileFuel` vs a Python while."""
    from onnx import helper, TensorProto
    cases, wcases = LOOP_CASES, WHILE_CASES
    ans = [json.loads(x) for x in raw]
    I64 = TensorProto.INT64
    # body: s' = a*s + b*iter + c ; cond_out = s' < T ; scan out = s'
    body = helper.make_graph(
        [helper.make_node("Mul", ["A", "s"], ["as"]), helper.make_node("Mul", ["B", "it"], ["bi"]),
         helper.make_node("Add", ["as", "bi"], ["t0"]), helper.make_node("Add", ["t0", "C"], ["s2"]),
         helper.make_node("Less", ["s2", "T"], ["cout"]), helper.make_node("Identity", ["s2"], ["y"])],
        "body",
        [helper.make_tensor_value_info("it", I64, []), helper.make_tensor_value_info("cin", TensorProto.BOOL, []),
         helper.make_tensor_value_info("s", I64, [])],
        [helper.make_tensor_value_info("cout", TensorProto.BOOL, []), helper.make_tensor_value_info("s2", I64, []),
         helper.make_tensor_value_info("y", I64, [])])
    g = helper.make_graph(
        [helper.make_node("Loop", ["M", "c0", "s0"], ["sf", "ys"], body=body)], "g",
        [helper.make_tensor_value_info(n, I64, []) for n in ("M", "s0", "A", "B", "C", "T")]
        + [helper.make_tensor_value_info("c0", TensorProto.BOOL, [])],
        [helper.make_tensor_value_info("sf", I64, []), helper.make_tensor_value_info("ys", I64, [None])])
    m = helper.make_model(g, opset_imports=[helper.make_opsetid("", 21)], ir_version=10)
    sess = ort_session(m.SerializeToString())
    bad = []
    for (M, c0, a, b, c, T, s0), an in zip(cases, ans):
        A64 = lambda v: np.asarray(v, dtype=np.int64)
        sf, ys = sess.run(None, {"M": A64(M), "s0": A64(s0), "A": A64(a), "B": A64(b),
                                 "C": A64(c), "T": A64(T), "c0": np.asarray(c0, dtype=np.bool_)})
        if int(sf) != an["state"] or [int(v) for v in ys] != an["stacked"]:
            bad.append(((M, c0, a, b, c, T, s0), int(sf), [int(v) for v in ys], an))
    for (a, c, T, s0), an in zip(wcases, ans[len(cases):]):
        s, fuel = s0, 65
        while s < T and fuel > 0:
            s, fuel = a * s + c, fuel - 1
        exp = s if fuel > 0 else None
        if an["state"] != exp:
            bad.append(((a, c, T, s0), exp, an))
    if bad:
        raise RuntimeError(f"the modelled Loop/while semantics disagree with the runtime: {bad[:3]}")
    chk.info("loop_semantics_box", {"loop_cases": len(cases), "while_cases": len(wcases),
                                    "result": "Lean loopO = ONNX Runtime Loop (state and stacked outputs, zero trips, "
                                              "initial condition false, trip limit); whileFuel = Python while"})
    chk.add("traces_validated_against_impl", len(cases) + len(wcases))


BCAST_CASES = [([2, 1], [2, 2, 3]), ([2, 1, 1], [2, 2, 3]), ([3, 1], [3, 2]), ([2], [2]), ([2, 2, 1], [2, 2, 2]),
               ([1, 1], [1, 2]), ([3, 1, 1, 1], [3, 2, 1, 2]), ([2, 1], [3, 2, 2]), ([2, 3], [2, 3]), ([1], [2, 2])]
SCANM_CASES = [(0, []), (3, [1, 2, 3]), (2, [1, 2, 3]), (1, [5]), (4, [1, -2, 3, 7])]


def check_broadcast_semantics(chk: Check, raw: list) -> None:
    """`bproj` (which mask element ONNX broadcasting reads for every element of the state) vs ONNX Runtime's
    `Where` (one one-hot mask per mask element); `scanSchemeM`/`scanJ` vs a Python scan."""
    from onnx import helper, TensorProto
    ans = [json.loads(x) for x in raw]
    g = helper.make_graph([helper.make_node("Where", ["m", "a", "b"], ["y"])], "g",
                          [helper.make_tensor_value_info("m", TensorProto.BOOL, None),
                           helper.make_tensor_value_info("a", TensorProto.INT64, None),
                           helper.make_tensor_value_info("b", TensorProto.INT64, None)],
                          [helper.make_tensor_value_info("y", TensorProto.INT64, None)])
    sess = ort_session(helper.make_model(g, opset_imports=[helper.make_opsetid("", 21)], ir_version=10).SerializeToString())
    bad = []
    for (ms, ss), an in zip(BCAST_CASES, ans):
        n_mask = int(np.prod(ms))
        reads = np.full(int(np.prod(ss)), -1, dtype=np.int64)
        for q in range(n_mask):
            m = np.zeros(n_mask, dtype=np.bool_)
            m[q] = True
            (y,) = sess.run(None, {"m": m.reshape(ms), "a": np.ones(ss, np.int64), "b": np.zeros(ss, np.int64)})
            if list(y.shape) != list(ss):
                bad.append((ms, ss, "shape", list(y.shape)))
            reads[np.asarray(y).reshape(-1) == 1] = q
        if reads.tolist() != an.get("reads"):
            bad.append((ms, ss, reads.tolist(), an))
    for (M, xs), an in zip(SCANM_CASES, ans[len(BCAST_CASES):]):
        c, ys = 0, []
        for x in xs:
            ys.append(c * 2 + x)
            c = c + x
        if an.get("jaxCarry") != c or an.get("jaxStacked") != ys or \
                ((an.get("carry"), an.get("stacked")) == (c, ys)) != (M == len(xs)):
            bad.append(("scanM", M, xs, an))
    if bad:
        raise RuntimeError(f"the modelled broadcasting / scan semantics disagree with the runtime: {bad[:3]}")
    chk.info("broadcast_semantics_box", {"where_cases": len(BCAST_CASES), "scan_cases": len(SCANM_CASES),
                                         "result": "Lean bproj = ONNX Runtime Where broadcasting (which mask element every "
                                                   "state element reads); scanSchemeM M = scanJ exactly when M = length"})
    chk.add("traces_validated_against_impl", len(BCAST_CASES) + len(SCANM_CASES))


# ----------------------------------------------------------------------------- the check


def export(prog: Prog):
    from jax2onnx import to_onnx
    with Instr() as ins:
        model = to_onnx(prog.fn, list(prog.specs), **prog.kwargs)
    return model, ins


def run(chk: Check) -> None:
    import time
    rng = common.Rng(chk.seed)
    thorough = chk.tier == "thorough"

    # ---- T: accept/reject table from the live plugins -> Gen/C06.lean ---------------------
    # Gen/C06.lean is a shared file: another run of this check (e.g. against a scratch worktree) must not
    # swap the table between our generate() and our build of GenProps -> one C06 run at a time here.
    import fcntl
    t_start = time.time()
    rows = tabulate_rejects()
    t_table = time.time() - t_start
    fields = ("construct", "reverse", "nXs", "staticLength", "nState", "dynamicBounds", "capturesTracer", "nBranches")
    acc_reqs = [json.dumps({"op": "accepts", **{k: r[k] for k in fields}}) for r in rows]
    t_p = time.time()
    (LEAN / ".lake").mkdir(exist_ok=True)
    with open(LEAN / ".lake" / "c06.gen.lock", "w") as lock_fh:
        fcntl.flock(lock_fh, fcntl.LOCK_EX)
        try:
            generate(rows)
            proved = prove_robust(chk, MODS, thorough)
        finally:
            fcntl.flock(lock_fh, fcntl.LOCK_UN)
    t_prove = time.time() - t_p

    # ---- H: wiring of every real Loop/If node ---------------------------------------------
    progs = fixed_programs() + random_programs(rng, 24 if not thorough else 240) + round2_programs(rng, thorough)
    stats = {"programs": 0, "not_exportable": 0, "equations": 0, "wiring_equal": 0, "ort_runs": 0, "ort_errors": 0,
             "outputs_compared": 0, "by_kind": {}}
    timing = {"export": 0.0, "ort": 0.0, "jax": 0.0}
    not_exportable, broken = [], []
    exported = []
    t0 = time.time()
    for prog in progs:
        try:
            model, ins = export(prog)
        except Exception as e:
            stats["not_exportable"] += 1
            not_exportable.append({"program": prog.name, "error": f"{type(e).__name__}: {str(e)[:200]}"})
            continue
        stats["programs"] += 1
        exported.append((prog, model, ins))
    timing["export"] = round(time.time() - t0, 1)
    if stats["programs"] < 0.8 * len(progs):
        raise RuntimeError(f"only {stats['programs']} of {len(progs)} programs exported: {not_exportable[:3]}")

    reqs, owner = [], []
    for pi, (prog, model, ins) in enumerate(exported):
        kinds = sorted(r["kind"] for r in ins.records)
        if prog.expect is not None and sorted(prog.expect) != kinds:
            broken.append({"program": prog.name, "what": "control-flow equations seen by the plugins",
                           "expected": sorted(prog.expect), "seen": kinds})
        for ri, rec in enumerate(ins.records):
            stats["equations"] += 1
            stats["by_kind"][rec["kind"]] = stats["by_kind"].get(rec["kind"], 0) + 1
            if "extract_error" in rec:
                broken.append({"program": prog.name, "what": "extraction", "error": rec["extract_error"]})
                continue
            reqs.append(json.dumps({"op": "prescribe", **rec["params"]}))
            owner.append((pi, ri))
    # round 2: freeze masks of the vmapped whiles, body identity of programs with shared code objects
    r2_reqs, r2_owner = [], []
    for pi, (prog, model, ins) in enumerate(exported):
        for ri, rec in enumerate(ins.records):
            fz = rec.get("freeze")
            if fz:
                for si, slot in enumerate(fz["slots"]):
                    r2_reqs.append(json.dumps({"op": "mask", "predShape": fz["predShape"], "stateRank": slot["stateRank"],
                                               "axes": slot["axes"] if slot["axes"] is not None else []}))
                    r2_owner.append(("mask", pi, ri, si))
        if prog.closures is not None:
            singles = [c[0] for c in prog.closures if len(c) == 1]
            r2_reqs.append(json.dumps({"op": "bodies", "loops": [[0, int(m)] for m in singles]}))
            r2_owner.append(("bodies", pi, None, None))
    box_reqs = [json.dumps({"op": "bcast", "maskShape": ms, "stateShape": ss}) for ms, ss in BCAST_CASES] + \
               [json.dumps({"op": "scanM", "M": M, "xs": xs}) for M, xs in SCANM_CASES]
    # one driver process for everything: accept table, Loop semantics box, prescriptions
    sem_reqs = loop_semantics_requests()
    raw = common.run_driver("C06", acc_reqs + sem_reqs + reqs + r2_reqs + box_reqs)
    acc = [json.loads(a) for a in raw[:len(acc_reqs)]]
    check_loop_semantics(chk, raw[len(acc_reqs):len(acc_reqs) + len(sem_reqs)])
    n0 = len(acc_reqs) + len(sem_reqs)
    answers = [json.loads(a) for a in raw[n0:n0 + len(reqs)]]
    r2_answers = [json.loads(a) for a in raw[n0 + len(reqs):n0 + len(reqs) + len(r2_reqs)]]
    check_broadcast_semantics(chk, raw[n0 + len(reqs) + len(r2_reqs):])
    stats["freeze_masks"] = stats["freeze_equal"] = stats["body_identity_programs"] = stats["body_identity_equal"] = 0
    for (what, pi, ri, si), ans in zip(r2_owner, r2_answers):
        prog, _, ins = exported[pi]
        if "error" in ans:
            broken.append({"program": prog.name, "driver_error": ans["error"]})
            continue
        if what == "mask":
            slot = ins.records[ri]["freeze"]["slots"][si]
            real_shape = ans["shape"] if slot["axes"] is not None else slot["maskShape"]
            stats["freeze_masks"] += 1
            chk.count({"program": prog.name, "freeze": slot, "predShape": ins.records[ri]["freeze"]["predShape"]},
                      nontrivial=True)
            if slot["select"] == "Where" and slot["elseOld"] is True and real_shape == ans["prescribedShape"]:
                stats["freeze_equal"] += 1
            else:
                broken.append({"program": prog.name, "what": "freeze mask of the vmapped while (Where(mask, new, old))",
                               "slot": si, "real": {**slot, "maskShapeFromAxes": real_shape},
                               "prescribed": {"maskShape": ans["prescribedShape"], "axes": ans["prescribedAxes"],
                                              "select": "Where", "elseOld": True}})
        else:
            stats["body_identity_programs"] += 1
            model_marks = sorted([(float(m),) for m in ans["bodies"]] + [tuple(c) for c in prog.closures if len(c) != 1])
            real_marks = sorted(tuple(rec.get("marks", ())) for rec in ins.records)
            chk.count({"program": prog.name, "bodies": real_marks}, nontrivial=True)
            if ans["bodies"] == ans["own"] and real_marks == model_marks:
                stats["body_identity_equal"] += 1
            else:
                broken.append({"program": prog.name,
                               "what": "body identity: closed-over constants found in each exported Loop/If body",
                               "real": real_marks, "prescribed": model_marks})
    table_bad = []
    for r, a in zip(rows, acc):
        chk.count({"variant": {k: r[k] for k in fields}, "raised": r["raised"], "error": r["error"],
                   "agrees_with_jax": r.get("agrees_with_jax")}, nontrivial=True)
        if not r["raised"] and r.get("agrees_with_jax") is False and a["accepts"]:
            chk.finding({"kind": "control_flow_mismatch", "program": "variant:" + r["construct"],
                         **{k: r[k] for k in fields}},
                        f"accepted variant {dict((k, r[k]) for k in fields)}: ONNX Runtime differs from JAX: {r.get('detail')}",
                        {"variant": r})
        if r["raised"] == a["accepts"]:
            table_bad.append({"variant": r, "model_accepts": a["accepts"]})
    chk.info("reject_table", [{k: v for k, v in r.items()} for r in rows])
    for tb in table_bad:
        r = tb["variant"]
        if not r["raised"] and r.get("agrees_with_jax") is False:
            # exported although no proved scheme covers it, and the export is wrong on a concrete input
            chk.finding({"kind": "unsupported_variant_exported", **{k: r[k] for k in fields}},
                        f"variant {dict((k, r[k]) for k in fields)} is exported instead of rejected and ONNX Runtime "
                        f"differs from JAX: {r.get('detail')}", {"variant": r})
        elif not r["raised"]:
            chk.violation({"what": "a variant outside the proved schemes is now exported (ORT = JAX on the sample input)",
                           "variant": r}, name=f"accept-{r['construct']}", no_failing_input=True)
        else:
            chk.violation({"what": "a variant the proved schemes cover is now rejected at export", "variant": r},
                          name=f"reject-{r['construct']}", no_failing_input=True)
    mismatched_programs = set()
    for (pi, ri), model_w in zip(owner, answers):
        prog, _, ins = exported[pi]
        rec = ins.records[ri]
        chk.count({"program": prog.name, "construct": rec["params"], "wiring": rec["real"]}, nontrivial=True)
        if "error" in model_w:
            broken.append({"program": prog.name, "driver_error": model_w["error"]})
            continue
        bad = wiring_equal(rec["real"], model_w)
        if not bad:
            stats["wiring_equal"] += 1
        else:
            mismatched_programs.add(prog.name)
            broken.append({"program": prog.name, "construct": rec["params"], "fields": bad,
                           "real": {k: rec["real"].get(k) for k in bad}, "prescribed": {k: model_w.get(k) for k in bad}})
    chk.add("traces_validated_against_impl", stats["equations"])

    # ---- search / validation: ORT vs eager JAX over the steering inputs ---------------------
    found_on_mismatched = set()
    import jax
    for prog, model, ins in exported:
        t1 = time.time()
        try:
            sess = ort_session(model.SerializeToString())
        except Exception as e:
            # ONNX Runtime refuses the exported model (e.g. shape inference fails inside a Loop body): JAX runs
            # the program, the export cannot be run at all -> a failing input (the first steering input)
            stats["ort_errors"] += 1
            inp = prog.inputs[0]
            exp = flat(prog.fn(*inp))
            found_on_mismatched.add(prog.name)
            chk.finding({"kind": "control_flow_mismatch", "program": prog.name,
                         "inputs": [np.asarray(v).reshape(-1)[:6].tolist() for v in inp],
                         "ort_shapes": None, "jax_shapes": [list(x.shape) for x in exp]},
                        f"{prog.name}: ONNX Runtime cannot load the exported model, eager JAX runs the program: "
                        f"{str(e)[-240:]}",
                        {"program": prog.name, "inputs": [np.asarray(v).tolist() for v in inp],
                         "ort_error": "load: " + str(e)[-300:], "ort": None,
                         "jax": [(list(x.shape), str(x.dtype), np.asarray(x).reshape(-1)[:8].tolist()) for x in exp],
                         "wiring": [r.get("real") for r in ins.records]})
            continue
        names = [i.name for i in sess.get_inputs()]
        # the JAX side of the oracle: the same callable, compiled once per program and input shape (traced outside
        # to_onnx, i.e. without any conversion-time substitute); plain eager evaluation if jit refuses
        jfn = jax.jit(prog.fn)
        for inp in prog.inputs:
            stats["ort_runs"] += 1
            chk.count({"program": prog.name, "steering": [np.asarray(v).reshape(-1)[:4].tolist() for v in inp]},
                      nontrivial=True)
            try:
                outs = run_guarded(sess, dict(zip(names, inp)))
                err = None
            except Exception as e:
                outs, err = None, str(e)[-300:]
                stats["ort_errors"] += 1
            timing["ort"] += time.time() - t1
            t1 = time.time()
            try:
                exp = flat(jfn(*inp))
            except Exception:
                exp = flat(prog.fn(*inp))
            timing["jax"] += time.time() - t1
            t1 = time.time()
            ok = outs is not None and len(outs) == len(exp) and all(same_result(o, e) for o, e in zip(outs, exp))
            stats["outputs_compared"] += len(exp)
            if not ok:
                found_on_mismatched.add(prog.name)
                chk.finding({"kind": "control_flow_mismatch", "program": prog.name,
                             "inputs": [np.asarray(v).reshape(-1)[:6].tolist() for v in inp],
                             "ort_shapes": None if outs is None else [list(np.asarray(o).shape) for o in outs],
                             "jax_shapes": [list(e.shape) for e in exp]},
                            f"{prog.name}: ONNX Runtime and eager JAX differ for steering input "
                            f"{[np.asarray(v).reshape(-1)[:4].tolist() for v in inp]}",
                            {"program": prog.name, "inputs": [np.asarray(v).tolist() for v in inp],
                             "ort_error": err,
                             "ort": None if outs is None else [(list(o.shape), str(o.dtype), np.asarray(o).reshape(-1)[:8].tolist()) for o in outs],
                             "jax": [(list(e.shape), str(e.dtype), np.asarray(e).reshape(-1)[:8].tolist()) for e in exp],
                             "wiring": [r.get("real") for r in ins.records]})
    timing = {k: round(v, 1) for k, v in timing.items()}
    timing["reject_table_incl_import"] = round(t_table, 1)
    timing["lean_build_audit_incl_lock_wait"] = round(t_prove, 1)
    chk.info("correspondence", stats)
    chk.info("timing_s", timing)
    chk.info("programs", stats["programs"])
    chk.info("not_exportable", not_exportable[:20])
    chk.info("disagreements_checked", len(broken))
    chk.log(f"programs={stats['programs']} (not exportable {stats['not_exportable']}) equations={stats['equations']} "
            f"wiring-equal={stats['wiring_equal']} ort_runs={stats['ort_runs']} reject-rows={len(rows)} timing={timing}")

    if broken and not chk.violations:
        chk.violation({"correspondence": "the wiring of a real Loop/If node differs from what the proved scheme prescribes",
                       "cases": broken[:12],
                       "note": "ORT and eager JAX agreed on every steering input of these programs"},
                      name="wiring", no_failing_input=True)
    if not proved and not chk.violations:
        chk.violation({"broken": getattr(chk, "broken", []), "reject_table_rows_off": table_bad,
                       "build_log_tail": getattr(chk, "build_log", "")[-3000:]},
                      name="obligation-broken", no_failing_input=True)
    chk.assumptions += [
        "ONNX Loop/If behave as modelled by loopO/ifO (compared with ONNX Runtime on a box each run)",
        "loop bodies, conditions and branches are opaque total functions; their own lowering is C01's scope",
        "trip counts stay below 2^63-1 (the while scheme's M)",
        "the wiring extractor's data-flow analysis of the live onnx_ir graphs is trusted",
        "implicit Expand/Pad driven by loop_axis0_override is validated by the ORT-vs-JAX sweeps only",
        "ONNX broadcasting of the freeze mask behaves as modelled by bproj (compared with ONNX Runtime Where on a box each run)",
    ]
    chk.coverage["rule"] = ("fixed programs (while: runtime bound 0/1/2/k, data-dependent exit, cond/body constants, nested, "
                            "vmapped; fori: zero trips, negative/non-zero lower bound, nested in scan; scan: several xs, "
                            "carries, stacked outputs, captured tracers, symbolic and zero length, no xs; cond/switch: both "
                            "branches, all clamped indices, nested, mixed with while) + seeded arity variations + round-2 "
                            "families (vmapped while with per-example ranks 0..3 and lanes of different trip counts; loop "
                            "bodies with scatter/gather/dynamic_update_slice/concatenate/iota/reshape extents != trip count; "
                            "bodies from shared code objects with different closures, within and across exports); every "
                            "control-flow equation yields one wiring comparison, every steering input one ORT-vs-JAX run; "
                            "all counted cases are non-trivial (a real Loop/If node or a real execution)")
    chk.coverage["exhaustive"] = False


def replay(path: str) -> int:
    rep = json.loads(open(path).read())
    print(json.dumps(rep, indent=1)[:3000])
    name = rep.get("program")
    seed = int(rep.get("seed", 0))
    thorough = rep.get("tier") == "thorough"
    rng = common.Rng(seed)
    progs = fixed_programs() + random_programs(rng, 24 if not thorough else 240) + round2_programs(rng, thorough)
    prog = next((p for p in progs if p.name == name), None)
    if prog is None or "inputs" not in rep:
        print("replay: nothing executable recorded (see the JSON above)")
        return 1
    model, _ = export(prog)
    try:
        sess = ort_session(model.SerializeToString())
    except Exception as e:
        print("ORT cannot load the exported model:", str(e)[-300:])
        print("reproduced")
        return 1
    inp = [np.asarray(v, dtype=ref.dtype).reshape(ref.shape) if np.asarray(v).size == ref.size else np.asarray(v, dtype=ref.dtype)
           for v, ref in zip(rep["inputs"], prog.inputs[0])]
    try:
        outs = run_guarded(sess, dict(zip([i.name for i in sess.get_inputs()], inp)))
    except Exception as e:
        outs = None
        print("ORT error:", str(e)[-300:])
    exp = flat(prog.fn(*inp))
    print("ORT:", None if outs is None else [np.asarray(o).reshape(-1)[:8].tolist() for o in outs])
    print("JAX:", [np.asarray(e).reshape(-1)[:8].tolist() for e in exp])
    same = outs is not None and len(outs) == len(exp) and all(same_result(o, e) for o, e in zip(outs, exp))
    print("not reproduced (ORT = JAX now)" if same else "reproduced")
    return 0 if same else 1
