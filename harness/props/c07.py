"""C07 — ONNX function boundaries are transparent; bodies shared only when equal.

Lean (Props/C07.lean): inline_sound (any nesting depth, any operator interpretation),
key_injective, shared_only_if_equal_key/_components over all call histories, arity_agrees(_out),
domain_name_unique; refuted full-strength statements kept next to the partial ones.

Tie (H): FunctionRegistry.get/put and FunctionPlugin._lower_and_call of the imported /repo modules
are wrapped at run time.  For every call site of every generated program the harness records the
*ground-truth components* (target, avals of the positional inputs, every keyword argument with its
bytes, callee identity and full state, arities) and what the real code did (registry hit/miss, the
definition used, arities of the emitted call node and of the definition).  The same event sequence
is run through the Lean registry machine (drivers/C07.lean); compared: partition of call sites into
definitions (one-sided: real-shared ⇒ model-shared; the other side is reported as drift), hit/miss,
(domain, name) strings and arities.

Search oracle (always on): ORT(decorated export) = ORT(undecorated export) = eager JAX, bit for bit
(the programs use dyadic values and + − × only, so float32 arithmetic is exact), and
ModelProto.functions signatures vs call nodes.
"""
from __future__ import annotations

import contextlib
import hashlib
import json
import warnings
from typing import Any, Optional

import numpy as np

warnings.filterwarnings("ignore")

import common
from common import Check

META = {
    "ready": True,
    "level": "proof",
    "technique": "Lean 4 theorems (term language with functions: inlining; FunctionKey construction incl. its flattened "
                 "tuple layout; registry machine invariant over all call histories; _allocate_friendly_name over all "
                 "allocation histories) + table of live FunctionKey fields / component responses regenerated into "
                 "Gen/C07.lean with decide-obligations + run-time correspondence of the real "
                 "FunctionRegistry/_lower_and_call/_allocate_friendly_name with the Lean machines through a "
                 "line-protocol driver; ORT(decorated)=ORT(undecorated)=JAX bit-exact oracle",
    "level_text": "Kernel-checked: inline_sound (replacing every call by its body preserves evaluation, any nesting "
                  "depth, every operator interpretation); key_injective (equal FunctionKeys => equal target, input "
                  "shapes+dtypes, every keyword capture with its bytes, same instance / equal full state, digests "
                  "assumed injective); shared_only_if_equal_key/_components and arity_agrees for ALL histories of "
                  "enter/exit events; encKey_injective (the nested Python tuple determines the model key); "
                  "structure_of_key / shared_only_if_equal_key_full / never_shared_if_{dtype,symbol_pattern,kwarg_order}_"
                  "differs WITHOUT digest assumptions; domain_name_unique_keys (different keys never get one (domain, "
                  "name), any namespace depth, decimal counters, base != 'unique') and alloc_history_unique over all "
                  "allocator histories; live dataclass fields = model fields and every function-changing component is "
                  "separated by the field the model names (GenProps, decide). The full-strength 'equal key "
                  "=> equal callee state' is refuted in Lean for the default mode (mutated instance) and replayed on "
                  "the real code (known finding).",
    "level_note": "Trusted: Lean kernel + 3 standard axioms; digest injectivity (SHA-1, hash(bytes)); the harness that "
                  "extracts call-site components and wraps the registry; that a component tuple captures everything a "
                  "callee depends on (globals, state mutated during tracing) is validated by execution only; ONNX/ORT "
                  "operator semantics; the correspondence is sampled on generated programs (pairs of call sites differing "
                  "in exactly one component, nesting <= 3, input_params).",
    "design_ref": "DESIGN.md §3 C07",
}

MODS = ["J2O.Props.C07", "J2O.Props.C07Key", "J2O.GenProps.C07"]


# ----------------------------------------------------------------------------- instrumentation


class Tap:
    """Wraps FunctionRegistry.get/put and FunctionPlugin._lower_and_call; restores on exit."""

    def __init__(self):
        self.frames: list[dict] = []     # one per call site, in entry order
        self.ops: list[tuple] = []
        self.stack: list[dict] = []
        self.ids: dict[int, int] = {}
        self.objs: list[Any] = []

    def _ordinal(self, obj) -> int:
        k = id(obj)
        if k not in self.ids:
            self.ids[k] = len(self.ids) + 1
            self.objs.append(obj)        # keep alive: ids are never reused inside one program
        return self.ids[k]

    def __enter__(self):
        import jax2onnx.plugins.plugin_system as ps
        import jax2onnx.converter.function_scope as fs
        self.ps, self.fs = ps, fs
        self._get, self._put = fs.FunctionRegistry.get, fs.FunctionRegistry.put
        self._lower = ps.FunctionPlugin._lower_and_call
        tap = self

        def get(reg, key):
            res = tap._get(reg, key)
            if tap.stack:
                fr = tap.stack[-1]
                fr["real_hit"] = res is not None
                fr["real_key"] = key
                if res is not None:
                    fr["fdef"] = res
            return res

        def put(reg, key, fdef):
            if tap.stack:
                tap.stack[-1]["fdef"] = fdef
                tap.stack[-1]["put_key_same"] = (key == tap.stack[-1].get("real_key"))
            return tap._put(reg, key, fdef)

        def lower(plugin, converter, eqn, params):
            fr = tap.components(plugin, converter, eqn, dict(params))
            fr["depth"] = len(tap.stack)
            tap.frames.append(fr)
            tap.ops.append(("enter", fr))
            tap.stack.append(fr)
            try:
                out = tap._lower(plugin, converter, eqn, params)
                ctx = ps._extract_ir_ctx(converter)
                nodes = list(ctx.builder.nodes)
                if nodes:
                    nd = nodes[-1]
                    fr["call_node"] = {"op": nd.op_type, "domain": nd.domain or "",
                                       "n_in": len(list(nd.inputs)), "n_out": len(list(nd.outputs))}
                return out
            finally:
                tap.stack.pop()
                tap.ops.append(("exit",))

        fs.FunctionRegistry.get = get
        fs.FunctionRegistry.put = put
        ps.FunctionPlugin._lower_and_call = lower
        return self

    def __exit__(self, *exc):
        self.fs.FunctionRegistry.get = self._get
        self.fs.FunctionRegistry.put = self._put
        self.ps.FunctionPlugin._lower_and_call = self._lower
        return False

    # ground truth of one call site, extracted from the live objects (not from the key)
    def components(self, plugin, converter, eqn, params: dict) -> dict:
        ps = self.ps
        ctx = ps._extract_ir_ctx(converter)
        call_names = set(getattr(ctx, "_call_input_param_names", set()) or ())
        in_sig = []
        for v in eqn.invars:
            aval = getattr(v, "aval", None)
            in_sig.append({"shape": [str(d) for d in tuple(getattr(aval, "shape", ()))],
                           "dtype": str(getattr(aval, "dtype", None))})
        if "instance_key" in params:
            obj = ps.INSTANCE_MAP2.get(params["instance_key"])
        else:
            obj = plugin._orig_fn
        literal_map = getattr(ctx, "_call_input_param_literals", None) or {}
        caps = []
        for name, val in params.items():
            if name == "instance_key":
                continue
            raw = val.value if isinstance(val, ps._DynamicParamWrapper) else val
            if _is_tracer(raw):
                aval = raw.aval
                # inside a function body the forwarded input param is the body's own input for it
                kind = "dynamic"
                try:
                    var = getattr(raw, "val", None)
                    scoped = (getattr(ctx, "_call_param_value_by_name", None) or {}).get(name)
                    if name in call_names and scoped is not None and var is not None \
                            and ctx.builder._var2val.get(var) is scoped:
                        kind = "callInput"
                except Exception:
                    pass
                caps.append({"name": name, "kind": kind, "shape": [str(d) for d in aval.shape],
                             "dtype": str(aval.dtype)})
            elif name in call_names and name in literal_map and _same_literal(raw, literal_map[name]):
                # ground truth: this keyword argument IS the forwarded input param
                arr = np.asarray(raw)
                caps.append({"name": name, "kind": "callInput", "shape": [str(d) for d in arr.shape],
                             "dtype": str(arr.dtype)})
            else:
                try:
                    arr = np.asarray(raw)
                    if arr.dtype == object:
                        raise TypeError
                    caps.append({"name": name, "kind": "const", "shape": [str(d) for d in arr.shape],
                                 "dtype": str(arr.dtype), "bytes": list(arr.tobytes())})
                except Exception:
                    # a Python object (callable, config object …): its value is its identity
                    o = self._ordinal(raw)
                    caps.append({"name": name, "kind": "const", "shape": [], "dtype": "object:" + type(raw).__name__,
                                 "bytes": [o // 256, o % 256]})
        injected = []
        passed = {c["name"] for c in caps}
        for name in sorted(call_names):
            if name in passed or name not in literal_map or obj is None:
                continue
            try:
                import inspect as _insp
                accepts = name in _insp.signature(obj).parameters
            except Exception:
                accepts = False
            if accepts:
                arr = np.asarray(literal_map[name])
                injected.append({"name": name, "kind": "callInput", "shape": [str(d) for d in arr.shape],
                                 "dtype": str(arr.dtype)})
        import inspect
        if inspect.isclass(plugin.target):
            st = obj._verif_state() if hasattr(obj, "_verif_state") else \
                [{"tag": "identity", "kind": "obj", "ty": type(obj).__name__, "repr": str(self._ordinal(obj))}]
            t = type(obj)
            callee = {"kind": "inst", "id": self._ordinal(obj),
                      "type": f"{t.__module__}.{getattr(t, '__qualname__', t.__name__)}", "state": st}
        else:
            callee = {"kind": "func", "id": self._ordinal(obj), "module": getattr(obj, "__module__", "<unknown>"),
                      "name": getattr(obj, "__qualname__", getattr(obj, "__name__", repr(obj)))}
        ns = [p for p in (plugin.namespace or "custom").split(".") if p]
        site = {"target": plugin.name, "unique": bool(plugin.unique), "ns": ns,
                "base": ps._sanitize_op_type_name(plugin._friendly_name_base()),
                "inSig": in_sig, "caps": caps, "paramNames": sorted(call_names), "injected": injected,
                "callee": callee, "nOut": len(eqn.outvars)}
        return {"site": site}


def _is_tracer(x) -> bool:
    import jax
    return isinstance(x, jax.core.Tracer)


def _same_literal(a, b) -> bool:
    try:
        return type(a) is type(b) and bool(np.array_equal(np.asarray(a), np.asarray(b)))
    except Exception:
        return False


# ----------------------------------------------------------------------------- running one program


def _my_plugins():
    import jax2onnx.plugins.plugin_system as ps
    import c07_progs
    pref = f"onnx_fn::{c07_progs.MY_MODULE}."
    return ps, [k for k in ps.PLUGIN_REGISTRY if k.startswith(pref)]


def export(prog, decorated: bool, tap: Optional[Tap] = None):
    from jax2onnx import to_onnx
    ps, mine = _my_plugins()
    saved = {}
    if not decorated:
        for k in mine:
            saved[k] = ps.PLUGIN_REGISTRY.pop(k)
    try:
        kw = {"input_params": prog.input_params} if prog.input_params else {}
        if tap is not None:
            with tap:
                return to_onnx(prog.fn, prog.specs, **kw)
        return to_onnx(prog.fn, prog.specs, **kw)
    finally:
        if saved:
            ps.PLUGIN_REGISTRY.update(saved)


def _feed_sets(prog):
    return prog.feed_sets if getattr(prog, "feed_sets", None) else [prog.feeds]


def run_model(proto, prog) -> list[np.ndarray]:
    """ORT outputs for every binding of the symbolic dims, concatenated."""
    import irtools
    names = [i.name for i in proto.graph.input]
    outs: list[np.ndarray] = []
    for fs in _feed_sets(prog):
        feeds = {}
        pos = list(fs)
        for n in names:
            if prog.input_params and n in prog.input_params:
                feeds[n] = np.asarray(prog.input_params[n])
            else:
                feeds[n] = pos.pop(0)
        outs += irtools.run_ort(proto, feeds)
    return outs


def run_jax(prog) -> list[np.ndarray]:
    import jax
    kw = dict(prog.input_params or {})
    outs: list[np.ndarray] = []
    for fs in _feed_sets(prog):
        out = prog.fn(*fs, **kw)
        outs += [np.asarray(v) for v in jax.tree_util.tree_leaves(out)]
    return outs


def check_functions(proto) -> list[str]:
    """ModelProto.functions signatures vs every call node (main graph and bodies, recursively)."""
    problems = []
    fns = {}
    for f in proto.functions:
        k = (f.domain, f.name)
        if k in fns:
            problems.append(f"two FunctionProtos with identifier {k}")
        fns[k] = f

    def walk(nodes, where):
        for n in nodes:
            if n.domain not in ("", "ai.onnx") and (n.domain, n.op_type) in fns:
                f = fns[(n.domain, n.op_type)]
                if len(n.input) != len(f.input) or len(n.output) != len(f.output):
                    problems.append(f"{where}: call {n.domain}::{n.op_type} has {len(n.input)}/{len(n.output)} "
                                    f"inputs/outputs, definition has {len(f.input)}/{len(f.output)}")
            elif n.domain not in ("", "ai.onnx", "com.microsoft", "ai.onnx.ml"):
                problems.append(f"{where}: call node {n.domain}::{n.op_type} has no FunctionProto")
            for a in n.attribute:
                if a.HasField("g"):
                    walk(a.g.node, where + "/" + n.name)
                for g in a.graphs:
                    walk(g.node, where + "/" + n.name)

    walk(proto.graph.node, "graph")
    for f in proto.functions:
        walk(f.node, f"function {f.domain}::{f.name}")
    return problems


def same(a: np.ndarray, b: np.ndarray) -> bool:
    a, b = np.asarray(a), np.asarray(b)
    return a.shape == b.shape and a.dtype == b.dtype and bool(np.array_equal(a, b))


def driver_lines(tap: Tap) -> list[str]:
    lines = [json.dumps({"op": "reset"})]
    for op in tap.ops:
        if op[0] == "enter":
            lines.append(json.dumps({"op": "enter", "site": op[1]["site"]}))
        else:
            lines.append(json.dumps({"op": "exit"}))
    return lines


def real_view(tap: Tap) -> list[dict]:
    out = []
    for fr in tap.frames:
        fdef = fr.get("fdef")
        out.append({
            "hit": bool(fr.get("real_hit")),
            "name": getattr(fdef, "name", None), "domain": getattr(fdef, "domain", None),
            "def_in": len(getattr(fdef, "inputs", []) or []) if fdef is not None else None,
            "def_out": len(getattr(fdef, "outputs", []) or []) if fdef is not None else None,
            "call": fr.get("call_node"),
            "depth": fr.get("depth"),
            "key": fr.get("real_key"),
        })
    return out


def live_key_fields() -> list[str]:
    """names of the dataclass fields of the live FunctionKey, in declaration order"""
    import dataclasses
    import jax2onnx.converter.function_scope as fs
    return [f.name for f in dataclasses.fields(fs.FunctionKey)]


MODEL_FIELD_COLUMN = {"qualified_name": "q", "input_sig": "i", "capture_sig": "c"}


def _first_equal(vals: list) -> list[int]:
    out = []
    for i, v in enumerate(vals):
        k = i
        for j in range(i):
            try:
                if vals[j] == v:
                    k = j
                    break
            except Exception:
                pass
        out.append(k)
    return out


def compare(real: list[dict], answers: list[str]) -> dict:
    """Compare the real registry behaviour with the Lean machine's answers for one program."""
    model = []
    for a in answers:
        parts = a.split(" ")
        if parts[0] not in ("hit", "miss") or len(parts) != 10:
            raise RuntimeError(f"driver answer not understood: {a!r}")
        model.append({"hit": parts[0] == "hit", "idx": int(parts[1]), "name": parts[2], "domain": parts[3],
                      "n_in": int(parts[4]), "n_out": int(parts[5]), "k": int(parts[6]), "q": int(parts[7]),
                      "i": int(parts[8]), "c": int(parts[9])})
    res = {"unsound": [], "finer": [], "naming": [], "arity": [], "key_unsound": [], "key_finer": 0}
    n = len(real)
    # ---- the keys themselves, whole and field by field: live-equal => model-equal
    keys = [r.get("key") for r in real]
    if all(k is not None for k in keys):
        cols = [("<whole key>", _first_equal(keys), [m["k"] for m in model])]
        for f in live_key_fields():
            col = MODEL_FIELD_COLUMN.get(f)
            if col is not None:       # a field the model does not know is an obligation of GenProps/C07.lean
                cols.append((f, _first_equal([getattr(k, f, None) for k in keys]), [m[col] for m in model]))
        for f, live_cls, model_cls in cols:
            for i in range(n):
                for j in range(i + 1, n):
                    if live_cls[i] == live_cls[j] and model_cls[i] != model_cls[j]:
                        res["key_unsound"].append({"field": f, "sites": [i, j]})
                    elif f == "<whole key>" and live_cls[i] != live_cls[j] and model_cls[i] == model_cls[j]:
                        res["key_finer"] += 1
    for i in range(n):
        for j in range(i + 1, n):
            r_same = (real[i]["domain"], real[i]["name"]) == (real[j]["domain"], real[j]["name"])
            m_same = model[i]["idx"] == model[j]["idx"]
            if r_same and not m_same:
                res["unsound"].append((i, j))
            if m_same and not r_same:
                res["finer"].append((i, j))
    if not res["unsound"] and not res["finer"]:
        for i in range(n):
            if (real[i]["hit"], real[i]["name"], real[i]["domain"]) != \
                    (model[i]["hit"], model[i]["name"], model[i]["domain"]):
                res["naming"].append({"site": i, "real": [real[i]["hit"], real[i]["name"], real[i]["domain"]],
                                      "model": [model[i]["hit"], model[i]["name"], model[i]["domain"]]})
    drift_sites = {i for pair in res["finer"] for i in pair}
    for i in range(n):
        c = real[i]["call"] or {}
        if c.get("n_in") != real[i]["def_in"] or c.get("n_out") != real[i]["def_out"]:
            res["arity"].append({"site": i, "call": c, "def": [real[i]["def_in"], real[i]["def_out"]], "kind": "real"})
        elif i in drift_sites:
            pass    # the real code is more conservative than the model here; only real call vs real def counts
        elif c.get("n_in") != model[i]["n_in"] or c.get("n_out") != model[i]["n_out"]:
            res["arity"].append({"site": i, "call": c, "model": [model[i]["n_in"], model[i]["n_out"]], "kind": "model"})
        if c and (c.get("op"), c.get("domain")) != (real[i]["name"], real[i]["domain"]):
            res["arity"].append({"site": i, "call": c, "def_id": [real[i]["domain"], real[i]["name"]], "kind": "target"})
    res["model"] = model
    return res


def observe(desc: dict) -> dict:
    """Everything the check looks at for one program, on the real code."""
    import c07_progs
    prog = c07_progs.build(desc)
    obs: dict[str, Any] = {"desc": desc}
    tap = Tap()
    try:
        dec = export(prog, True, tap)
        obs["dec_ok"] = True
    except Exception as e:
        dec = None
        obs["dec_ok"] = False
        obs["dec_error"] = type(e).__name__
        obs["dec_error_text"] = str(e)[:300]
    obs["tap"] = tap
    try:
        und = export(prog, False)
        obs["und_ok"] = True
    except Exception as e:
        und = None
        obs["und_ok"] = False
        obs["und_error"] = f"{type(e).__name__}: {str(e)[:300]}"
    try:
        jx = run_jax(prog)
        obs["jax_ok"] = True
    except Exception as e:
        jx = None
        obs["jax_ok"] = False
        obs["jax_error"] = f"{type(e).__name__}: {str(e)[:300]}"
    if dec is not None:
        obs["n_functions"] = len(dec.functions)
        obs["fn_problems"] = check_functions(dec)
        try:
            obs["ort_dec"] = run_model(dec, prog)
        except Exception as e:
            obs["ort_dec_error"] = f"{type(e).__name__}: {str(e)[:300]}"
    if und is not None:
        obs["und_functions"] = len(und.functions)
        try:
            obs["ort_und"] = run_model(und, prog)
        except Exception as e:
            obs["ort_und_error"] = f"{type(e).__name__}: {str(e)[:300]}"
    obs["jax"] = jx
    return obs


def numeric_verdict(obs: dict) -> Optional[dict]:
    """None if ORT(dec) = ORT(undec) = JAX exactly; else a description of the first difference."""
    if "ort_dec_error" in obs:
        return {"kind": "ort_rejects_decorated", "error": obs["ort_dec_error"]}
    od, ou, jx = obs.get("ort_dec"), obs.get("ort_und"), obs.get("jax")
    if od is None:
        return None
    for name, ref in (("undecorated", ou), ("jax", jx)):
        if ref is None:
            continue
        if len(ref) != len(od):
            return {"kind": "numeric_mismatch", "against": name, "n_outputs": [len(od), len(ref)]}
        for i, (a, b) in enumerate(zip(od, ref)):
            if not same(a, b):
                return {"kind": "numeric_mismatch", "against": name, "output": i,
                        "decorated": np.asarray(a).ravel()[:6].tolist(), "dtype_dec": str(np.asarray(a).dtype),
                        "reference": np.asarray(b).ravel()[:6].tolist(), "dtype_ref": str(np.asarray(b).dtype)}
    return None


def desc_id(desc: dict) -> str:
    return hashlib.sha1(json.dumps(desc, sort_keys=True).encode()).hexdigest()[:10]


# ----------------------------------------------------------------------------- Gen/C07.lean (tie T)

GEN_PATH = common.LEAN / "J2O/Gen/C07.lean"


@contextlib.contextmanager
def gen_lock():
    """Serialises (write Gen/C07.lean -> build -> audit) between concurrent C07 runs on DIFFERENT trees (seed tests
    in parallel): each run's obligations are built against its own table."""
    import fcntl
    with open(common.LEAN / ".c07_gen.lock", "w") as f:
        fcntl.flock(f, fcntl.LOCK_EX)
        try:
            yield
        finally:
            fcntl.flock(f, fcntl.LOCK_UN)


def label_of(desc: dict) -> str:
    if desc["pattern"] == "probe":
        return f"probe:{desc['id']}"
    return f"{desc['pattern']}:{desc.get('kind', desc.get('outer'))}:{desc.get('diff', desc.get('variant'))}"


def response_of(obs: dict) -> list[str]:
    """live dataclass fields whose value differs between the first two call sites of a cover program"""
    keys = [fr.get("real_key") for fr in obs["tap"].frames[:2]]
    if not obs.get("dec_ok") or len(keys) < 2 or any(k is None for k in keys):
        return ["<no-export>"]
    return [f for f in live_key_fields() if getattr(keys[0], f, None) != getattr(keys[1], f, None)]


def write_gen(cover_obs: list) -> dict:
    """Regenerate lean/J2O/Gen/C07.lean from the live code: the dataclass fields of FunctionKey and, per cover
    program (two call sites differing in exactly one component), the fields that told the two sites apart."""
    fields = live_key_fields()
    rows = [(c["component"], c["mode"], label_of(c["desc"]), response_of(obs)) for c, obs in cover_obs]
    items = ["(" + ", ".join([common.lean_str(a), common.lean_str(b), common.lean_str(l),
                              "[" + ", ".join(common.lean_str(f) for f in r) + "]"]) + ")" for a, b, l, r in rows]
    src = ("/- GENERATED by harness/props/c07.py from the live jax2onnx on every run — do not edit.\n"
           "   liveKeyFields : dataclasses.fields(FunctionKey)\n"
           "   liveResponse  : (component, mode, cover program, key fields whose value differs between the two call\n"
           "                    sites of that program) -/\n"
           "namespace J2O.C07.Gen\n\n"
           "def liveKeyFields : List String := [" + ", ".join(common.lean_str(f) for f in fields) + "]\n\n"
           "def liveResponse : List (String × String × String × List String) := "
           + common.lean_list(items, per_line=1) + "\n\nend J2O.C07.Gen\n")
    common.write_if_changed(GEN_PATH, src)
    return {"fields": fields, "rows": rows}


def generate() -> dict:
    import c07_progs
    cover_obs = [(c, observe(c["desc"])) for c in c07_progs.cover()]
    with gen_lock():
        return write_gen(cover_obs)


# ----------------------------------------------------------------------------- allocator histories (tie H, direct)


def _pool_plugins():
    import c07_progs
    ps, _ = _my_plugins()
    out = []
    for m in c07_progs.ALLOC_POOL:
        pl = ps.PLUGIN_REGISTRY.get(f"onnx_fn::{c07_progs.MY_MODULE}.{m['attr']}")
        if pl is None:
            return None
        out.append((m, pl))
    return out


def gen_alloc_history(rng, n_pool: int) -> list[int]:
    """pattern-directed: a few members (so that counters advance), biased to members that share a friendly name"""
    members = rng.sample(list(range(n_pool)), rng.choice([2, 3, 4, 6]))
    return [rng.choice(members) for _ in range(rng.choice([3, 5, 8, 12]))]


def run_alloc_history(hist: list[int]) -> Optional[dict]:
    """Drive the live `_allocate_friendly_name` over one fresh context; None if it is not addressable."""
    import types
    import c07_progs
    pool = _pool_plugins()
    if pool is None:
        return None
    ctx = types.SimpleNamespace()
    live, reqs = [], []
    for i in hist:
        m, pl = pool[i]
        alloc = getattr(pl, "_allocate_friendly_name", None)
        if alloc is None:
            return None
        name, domain = alloc(ctx)
        live.append([str(name), str(domain)])
        reqs.append(c07_progs.pool_request(m))
    return {"history": hist, "requests": reqs, "live": live}


def alloc_driver_lines(res: dict) -> list[str]:
    return [json.dumps({"op": "reset"})] + [json.dumps(dict(r, op="alloc")) for r in res["requests"]]


def alloc_verdict(res: dict, answers: list[str]) -> dict:
    model = [a.split(" ") for a in answers[1:]]
    out = {"collisions": [], "differs": []}
    live = res["live"]
    for i in range(len(live)):
        for j in range(i + 1, len(live)):
            if live[i] == live[j]:
                out["collisions"].append([i, j])
        if i < len(model) and model[i] != live[i]:
            out["differs"].append({"step": i, "live": live[i], "model": model[i]})
    return out


# ----------------------------------------------------------------------------- the check


def run(chk: Check) -> None:
    import c07_progs
    rng = common.Rng(chk.seed)
    thorough = chk.tier == "thorough"

    n_prog = 100 if not thorough else 700
    cover = c07_progs.cover()
    descs = c07_progs.generate(rng, n_prog)          # starts with the cover programs
    assert [c["desc"] for c in cover] == descs[:len(cover)]
    probes = [{"pattern": "probe", "id": pid} for pid in c07_progs.PROBES]

    all_obs = []
    lines: list[str] = []
    spans = []
    for desc in descs + probes:
        obs = observe(desc)
        tap = obs["tap"]
        dl = driver_lines(tap)
        spans.append((len(lines), len(dl)))
        lines += dl
        all_obs.append(obs)

    # ---- tie T: the live key fields and the response table go to Gen/C07.lean, then the obligations are built
    with gen_lock():
        gen = write_gen(list(zip(cover, all_obs[:len(cover)])))
        proved = chk.prove(MODS, checker=thorough)
    chk.info("live_key_fields", gen["fields"])
    chk.info("live_response", {f"{l} [{a}/{b}]": r for a, b, l, r in gen["rows"]})

    # ---- allocator histories on the live `_allocate_friendly_name`
    n_hist = 150 if not thorough else 1500
    alloc_runs = []
    alloc_spans = []
    alloc_ok = True
    for _ in range(n_hist):
        res = run_alloc_history(gen_alloc_history(rng, len(c07_progs.ALLOC_POOL)))
        if res is None:
            alloc_ok = False
            break
        al = alloc_driver_lines(res)
        alloc_spans.append((len(lines), len(al)))
        lines += al
        alloc_runs.append(res)
    if not alloc_ok:
        chk.log("live allocator is not addressable as FunctionPlugin._allocate_friendly_name: name allocation is tied "
                "through the exports only (names patterns)")
    chk.info("allocator_histories", len(alloc_runs))

    answers = common.run_driver("C07", lines)
    chk.add("traces_validated_against_impl", len(all_obs) + len(alloc_runs))

    dist: dict[str, int] = {}
    stats = {"programs": 0, "call_sites": 0, "real_hits": 0, "definitions": 0, "nested_sites": 0,
             "drift_real_finer_pairs": 0, "runtime_param_sites": 0, "max_depth": 0}
    found_concrete = False
    corr_broken: list[dict] = []

    def finding(key, what, rep):
        # a concrete failing input counts as "found" for a broken obligation only if it is NOT a listed finding
        nonlocal found_concrete
        listed = chk.finding(key, what, rep)
        if not listed:
            found_concrete = True
        return listed

    alloc_stats = {"allocations": 0, "collisions": 0, "model_differs": 0}
    for res, (start, ln) in zip(alloc_runs, alloc_spans):
        v = alloc_verdict(res, answers[start:start + ln])
        alloc_stats["allocations"] += len(res["live"])
        hid = hashlib.sha1(json.dumps(res["history"]).encode()).hexdigest()[:10]
        chk.count({"label": "alloc_history", "len": len(res["history"]), "members": len(set(res["history"])),
                   "domains": sorted({d for _, d in res["live"]})[:6]}, nontrivial=len(res["history"]) >= 2)
        if v["collisions"]:
            alloc_stats["collisions"] += 1
            if alloc_stats["collisions"] <= 3:
                i, j = v["collisions"][0]
                finding({"kind": "alloc_collision", "history": hid},
                            f"_allocate_friendly_name returned {res['live'][i]} twice (calls {i} and {j}) for requests "
                            f"{res['requests'][i]} / {res['requests'][j]}",
                            {"alloc_history": res["history"], "requests": res["requests"], "live": res["live"],
                             "how": "vcheck.py C07 --replay <this file>"})
        elif v["differs"]:
            alloc_stats["model_differs"] += 1
            corr_broken.append({"kind": "allocator", "alloc_history": res["history"], "requests": res["requests"],
                                "detail": v["differs"][:4]})
    chk.info("allocator_statistics", alloc_stats)

    for obs, (start, ln) in zip(all_obs, spans):
        desc = obs["desc"]
        tap: Tap = obs["tap"]
        is_probe = desc["pattern"] == "probe"
        label = label_of(desc)
        dist[label.split(":")[0] + ":" + label.split(":")[-1]] = dist.get(label.split(":")[0] + ":" + label.split(":")[-1], 0) + 1
        ans = [a for a, l in zip(answers[start:start + ln], lines[start:start + ln]) if '"enter"' in l[:16]]
        real = real_view(tap)
        base_key = {"probe": desc["id"]} if is_probe else {"prog": desc_id(desc), "pattern": desc["pattern"]}
        replay = {"desc": desc, "how": "vcheck.py C07 --replay <this file>"}

        # ---- export outcome
        if not obs["und_ok"] or not obs["jax_ok"]:
            if is_probe:
                chk.log(f"probe {desc['id']}: reference side failed ({obs.get('und_error') or obs.get('jax_error')})")
            else:
                raise RuntimeError(f"generator produced a program whose undecorated export or eager run fails: "
                                   f"{desc} -> {obs.get('und_error')} {obs.get('jax_error')}")
        if not obs["dec_ok"]:
            chk.count({"label": label, "outcome": "export_raises", "error": obs["dec_error"]}, nontrivial=True)
            finding(dict(base_key, kind="export_raises", error=obs["dec_error"]),
                        f"decorated export raises {obs['dec_error']} while the undecorated export succeeds ({label})",
                        dict(replay, error=obs.get("dec_error_text")))
            continue

        # ---- numeric oracle + proto check (always)
        nv = numeric_verdict(obs)
        if nv is not None:
            finding(dict(base_key, kind=nv["kind"]),
                        f"decorated export disagrees with {nv.get('against', 'ORT')} ({label}): {nv}",
                        dict(replay, verdict=nv))
        if obs.get("fn_problems"):
            finding(dict(base_key, kind="function_signature"),
                        f"ModelProto.functions vs call nodes ({label}): {obs['fn_problems'][:3]}",
                        dict(replay, problems=obs["fn_problems"]))

        # ---- correspondence with the Lean registry machine
        if len(ans) != len(real):
            raise RuntimeError("driver/trace length mismatch")
        cmp_ = compare(real, ans) if real else {"unsound": [], "finer": [], "naming": [], "arity": [], "model": [],
                                                "key_unsound": [], "key_finer": 0}
        n_defs_real = len({(r["domain"], r["name"]) for r in real})
        if obs.get("n_functions") is not None and real and obs["n_functions"] != n_defs_real:
            cmp_["arity"].append({"kind": "count", "functions_in_model": obs["n_functions"],
                                  "definitions_created": n_defs_real})
        stats["programs"] += 1
        stats["call_sites"] += len(real)
        stats["real_hits"] += sum(1 for r in real if r["hit"])
        stats["definitions"] += n_defs_real
        stats["nested_sites"] += sum(1 for r in real if (r["depth"] or 0) > 0)
        stats["max_depth"] = max([stats["max_depth"]] + [(r["depth"] or 0) + 1 for r in real])
        stats["drift_real_finer_pairs"] += len(cmp_["finer"])
        stats["runtime_param_sites"] += sum(1 for fr in tap.frames
                                            if any(c["kind"] in ("dynamic", "callInput") for c in fr["site"]["caps"]))
        case = {"label": label, "sites": len(real), "real_defs": n_defs_real,
                "model_defs": len({m["idx"] for m in cmp_["model"]}),
                "partition": [f"{r['domain']}" for r in real]}
        chk.count(case, nontrivial=len(real) >= 2)
        if cmp_["unsound"]:
            # the property's second sentence, observed directly on the real code: one definition for two
            # call sites whose components differ
            i, j = cmp_["unsound"][0]
            si, sj = tap.frames[i]["site"], tap.frames[j]["site"]
            differ = [k for k in ("target", "inSig", "caps", "injected", "callee") if si[k] != sj[k]]
            finding(dict(base_key, kind="shared_unequal"),
                        f"call sites {i} and {j} share definition {real[i]['domain']}::{real[i]['name']} although "
                        f"they differ in {differ} ({label})",
                        dict(replay, sites=[si, sj], real=[{k: v for k, v in r.items() if k != "key"} for r in real],
                             model=cmp_["model"]))
        stats["key_pairs_live_finer"] = stats.get("key_pairs_live_finer", 0) + cmp_["key_finer"]
        if cmp_["key_unsound"]:
            # two call sites with EQUAL live keys (or equal live key fields) whose ground-truth components differ in
            # what that field holds: the key construction lost a component
            ku = cmp_["key_unsound"][0]
            i, j = ku["sites"]
            si, sj = tap.frames[i]["site"], tap.frames[j]["site"]
            differ = [k for k in ("target", "inSig", "caps", "injected", "callee") if si[k] != sj[k]]
            flds = sorted({k["field"] for k in cmp_["key_unsound"]})
            finding(dict(base_key, kind="key_unequal"),
                        f"call sites {i} and {j} have equal live FunctionKey {flds} although they differ in {differ} "
                        f"({label})",
                        dict(replay, sites=[si, sj], fields=flds, live_keys=[repr(real[i]["key"])[:400],
                                                                              repr(real[j]["key"])[:400]]))
        for kind in ("naming", "arity"):
            if cmp_[kind]:
                item = {"desc": desc, "kind": kind, "detail": cmp_[kind][:5],
                        "real": [{k: v for k, v in r.items() if k != "key"} for r in real],
                        "model": cmp_["model"], "numeric": nv}
                if kind == "arity" and any(d.get("kind") in ("real", "target", "count") for d in cmp_[kind]):
                    # directly an observable of the property on the real code
                    finding(dict(base_key, kind="arity_mismatch"),
                                f"call node and definition disagree in arity/identity ({label}): {cmp_[kind][:2]}",
                                dict(replay, detail=cmp_[kind]))
                elif nv is None:
                    corr_broken.append(item)
                # with nv not None the failing input has already been reported above

    chk.info("generator_distribution", dict(sorted(dist.items())))
    chk.info("registry_statistics", stats)
    chk.info("programs", stats["programs"])
    chk.info("disagreements_checked", len(corr_broken))

    if corr_broken:
        chk.violation({"correspondence": "real FunctionRegistry/_lower_and_call vs Lean registry machine",
                       "cases": corr_broken[:10],
                       "note": "the real code shares / names / sizes a definition differently from the proven model; "
                               "the bit-exact ORT/JAX oracle found no failing input for these programs"},
                      name="registry-correspondence", no_failing_input=True)
    if not proved and not found_concrete:
        chk.violation({"broken": getattr(chk, "broken", []),
                       "build_log_tail": getattr(chk, "build_log", "")[-3000:],
                       "note": "a Lean obligation of C07 no longer checks"},
                      name="obligation-broken", no_failing_input=True)

    chk.assumptions += [
        "digest functions (SHA-1 of array bytes, Python hash of bytes) are injective on the values met",
        "a callee's behaviour is a function of the components recorded per call site (target, avals, keyword "
        "captures, instance state at lowering time) — validated by ORT(decorated)=ORT(undecorated)=JAX, not proved",
        "ONNX Runtime evaluates a call node as its FunctionProto body applied to the arguments (the model's evalFn)",
        "float32 arithmetic on the generated dyadic values is exact (so the oracle needs no tolerance)",
    ]
    chk.coverage["rule"] = ("first the FIXED cover set (one two-site program per component x mode: weight, static, nested "
                            "static, kwarg value/presence/order/object, shape, dtype, symbol pattern, identity, friendly "
                            "name; source of Gen/C07.lean); allocator histories: 150 random call sequences over a pool of "
                            "18 targets sharing friendly names across targets/namespaces/modes, on the live "
                            "_allocate_friendly_name; then "
                            "programs: every (block kind x differing component) pair pattern first (7 class kinds + 2 "
                            "function kinds x {same instance, identity, weight, static alpha, static mode, kwarg value, "
                            "kwarg presence, input shape, input dtype}), every 5th program nested (outer calls two inner "
                            "functions; 2-3 levels), options third call/swap/chain/symbolic batch/input_params; then the "
                            "10 defect probes. One case = one program's partition of call sites into definitions; "
                            "non-trivial = at least two call sites; distinct by (label, sites, partition)")
    chk.coverage["exhaustive"] = False


def replay(path: str) -> int:
    rep = json.loads(open(path).read())
    print(json.dumps({k: v for k, v in rep.items() if k != "cases"}, indent=1)[:3000])
    descs = [rep["desc"]] if "desc" in rep else [c["desc"] for c in rep.get("cases", []) if "desc" in c]
    bad = 0
    hists = ([rep["alloc_history"]] if "alloc_history" in rep else []) + \
        [c["alloc_history"] for c in rep.get("cases", []) if "alloc_history" in c]
    for hist in hists:
        res = run_alloc_history(hist)
        if res is None:
            print("allocator not addressable")
            continue
        v = alloc_verdict(res, common.run_driver("C07", alloc_driver_lines(res)))
        print("allocator history:", hist)
        for r, l in zip(res["requests"], res["live"]):
            print("  ", r, "->", l)
        print(" collisions / differs from the model:", v["collisions"], v["differs"])
        if v["collisions"] or v["differs"]:
            bad += 1
    for desc in descs:
        obs = observe(desc)
        tap = obs["tap"]
        lines = driver_lines(tap)
        answers = common.run_driver("C07", lines)
        ans = [a for a, l in zip(answers, lines) if '"enter"' in l[:16]]
        real = real_view(tap)
        nv = numeric_verdict(obs) if obs["dec_ok"] else {"kind": "export_raises", "error": obs.get("dec_error")}
        cmp_ = compare(real, ans) if real and obs["dec_ok"] else {}
        print("program:", desc)
        print(" decorated export ok:", obs["dec_ok"], obs.get("dec_error_text", ""))
        print(" numeric verdict:", nv)
        print(" function/call problems:", obs.get("fn_problems"))
        print(" real  :", [(r["hit"], r["domain"]) for r in real])
        print(" model :", [(m["hit"], m["domain"]) for m in cmp_.get("model", [])])
        print(" unsound/naming/arity/key:", cmp_.get("unsound"), cmp_.get("naming"), cmp_.get("arity"),
              cmp_.get("key_unsound"))
        if nv is not None or obs.get("fn_problems") or any(cmp_.get(k) for k in ("unsound", "naming", "arity",
                                                                                 "key_unsound")):
            bad += 1
    return 1 if bad else 0
