"""C11 — the requested opset is honoured.

Tie T (regenerated each run into lean/J2O/Gen/C11.lean):
  * `schemas`      every default-domain operator of the INSTALLED onnx.defs with all its versions
                   (since_version, input/output arity bounds, deprecated, attribute names);
  * `reduceForms`  the node the LIVE `builder_reduce_with_axes` emits, per operator of
                   `_REDUCTION_AXES_INPUT_SINCE` × opset 13..max × {explicit axes, no axes};
  * `swishForms`   what the LIVE `rewrite_mul_sigmoid_as_swish_ir` leaves of `x*Sigmoid(x)` per opset;
  * `gateForms`    distinct node forms of the gate programs exported by the LIVE `to_onnx` at every
                   opset 21..max.
GenProps/C11.lean proves (decide +kernel) that every tabulated form is legal for every opset 21..max
and that the tables are complete; Props/C11.lean proves `opsetLegal_sound` for all model trees.
Tie H: the proven checker runs (Lean driver) on real exports: corpus (cumprod / bitcast), gate and core
programs, plugin testcases × opsets (seeded sample in quick, all in thorough).
Search / oracles: onnx.checker(full), ORT load, numeric agreement with the default-opset export.
"""
from __future__ import annotations

import json
import time
import warnings
from typing import Optional

warnings.filterwarnings("ignore")

import numpy as np

import common
from common import Check, LEAN, lean_bool, lean_list, lean_str, write_if_changed

META = {
    "ready": True,
    "level": "proof",
    "technique": "Lean 4: verified opset-legality checker over an unbounded model tree; operator table "
                 "regenerated from the installed onnx.defs; gate decisions of the live code tabulated for every "
                 "opset and proved legal by decide +kernel; the proven checker is run on real exports",
    "level_text": "Kernel-checked: opsetLegal_sound (accepted ⇒ every node at every depth, function bodies included, "
                  "uses an operator whose signature in force at the declared opset admits its input/output counts "
                  "and attribute names; calls resolve; function imports complete and not newer), sigAt_inForce, "
                  "function_imports_complete, nested_functions_honour (call chains of any length), typesLegal_sound "
                  "(input/output element types and type variables, attribute types, required attributes); "
                  "gate_sites_legal_partial (every plugin module comparing the opset, through its own testcases); reduce_gate_legal / swish_gate_legal / gate_programs_legal_partial for "
                  "EVERY opset 21..max over tables regenerated from the live code; machine-checked refutation "
                  "witnesses for CumProd / BitCast below opset 26.",
    "level_note": "PARTIAL: the gates are proved for the tabulated catalogue; the operator sets of the ~600 plugins "
                  "are checked PER EXPORT by the proven checker (seeded sample of testcases × opsets in quick, all "
                  "testcases in thorough) – sampled, not proved. Attribute VALUES are left to "
                  "onnx.checker/ORT (oracles). Opsets 13..20 are explored and only reported. Trusted: onnx.defs as "
                  "the definition of each opset, the translators, Lean's interpreter for per-model runs. Known "
                  "genuine defects (CumProd/BitCast emitted below opset 26) are listed in known_findings.d/C11.json.",
    "design_ref": "DESIGN.md §3 C11",
}

MODS = ["J2O.Props.C11", "J2O.GenProps.C11", "J2O.GenProps.C11Reduce", "J2O.GenProps.C11Gate", "J2O.GenProps.C11Sites"]

GATE_PROGRAMS = ["reduce", "softmax_ln", "tree:silu_swish", "tree:reduce_in_loop", "gate:rms_norm",
                 "gate:dus", "gate:reduce_window", "gate:logsumexp", "gate:l2", "fn_mix", "int_ops"]

# opset-gated components at top level AND inside control-flow bodies, and half-precision / normalization_mode
# variants: "gated:<comp>@<wrap>:<dtype>[/<normalization_mode>]"
_G_COMPS = ["rms_nnx", "ln_nnx", "rms_linen", "silu", "xsig", "gelu", "attention", "dus", "meanvar", "iota"]
GATE_PROGRAMS += [f"gated:{c}@{w}:f32" for c in _G_COMPS for w in ("scan", "cond")]
GATE_PROGRAMS += [f"gated:{c}@top:f32" for c in ("rms_nnx", "ln_nnx", "rms_linen", "attention", "iota", "arange")]
GATE_PROGRAMS += [f"gated:{c}@top:bf16/{m}" for c in ("rms_linen", "ln_linen", "rms_nnx") for m in ("auto", "prefer_native")]
GATE_PROGRAMS += ["gated:rms_linen@top:f16/prefer_native", "gated:rms_linen@top:f16/auto",
                  "gated:iota@top:bf16", "gated:arange@top:bf16", "gated:arange_dyn@top:bf16", "gated:iota@fori:bf16",
                  "gated:rms_linen@scan:bf16/prefer_native"]

# opset-gated components inside @onnx_function bodies / nested functions (harness/c11_fnprogs.py)
_FN_PROGS = ["xsig", "silu", "gelu", "rms", "meanvar", "softmax", "dus", "iota", "loop", "outer", "outer2"]
GATE_PROGRAMS += [f"c11fn:{k}" for k in _FN_PROGS]

# float16 works only for these components at top level on the unchanged tree (see notes/C11.md)
F16_CLEAN = ["rms_nnx", "ln_nnx", "rms_linen", "ln_linen", "silu", "xsig", "gelu", "cumsum"]
NORM_COMPS = ["rms_nnx", "ln_nnx", "rms_linen", "ln_linen"]


# ----------------------------------------------------------------------------- gate programs


def _gate_cfg(name: str) -> dict:
    """configuration overrides carried by a gate program name"""
    if name.startswith("gated:") and "/" in name:
        return {"norm_mode": name.split("/", 1)[1]}
    return {}


def _gate_desc(name: str) -> dict:
    import progs
    if name.startswith("gated:"):
        body = name[6:].split("/", 1)[0]
        comp, rest = body.split("@")
        wrap, dt = rest.split(":")
        return progs.gated_desc(comp, wrap, dt)
    if name.startswith("tree:"):
        k = name[5:]
        return {"kind": "tree", "name": k, "tree": progs.FIXED_TREES[k], "shape": ["B", 3]}
    if name.startswith("gate:"):
        _register_gate_named()
        return {"kind": "named", "name": name}
    if name.startswith("c11fn:"):
        import c11_fnprogs
        reg = c11_fnprogs.register()
        assert name in reg, name
        return {"kind": "named", "name": name}
    return {"kind": "named", "name": name}


_REGISTERED = False


def _register_gate_named() -> None:
    """Extra named programs exercising opset-gated lowerings (registered into progs.NAMED)."""
    global _REGISTERED
    if _REGISTERED:
        return
    import jax
    import jax.numpy as jnp
    from jax import lax
    import progs

    def rms(x):
        return x * lax.rsqrt(jnp.mean(x * x, axis=-1, keepdims=True) + 1e-6)

    def dus(x):
        upd = jnp.ones((1, 2), x.dtype)
        return lax.dynamic_update_slice(x, upd, (0, 1))

    def rwin(x):
        return lax.reduce_window(x, 0.0, lax.add, (1, 2), (1, 1), "VALID")

    def lse(x):
        return jax.nn.logsumexp(x, axis=-1), jnp.linalg.norm(x, axis=-1)

    def l2(x):
        return jnp.sum(jnp.abs(x), axis=1), jnp.sqrt(jnp.sum(x * x, axis=0)), jnp.var(x, axis=-1)

    progs.NAMED["gate:rms_norm"] = (rms, [("B", 4)])
    progs.NAMED["gate:dus"] = (dus, [(3, 4)])
    progs.NAMED["gate:reduce_window"] = (rwin, [(3, 4)])
    progs.NAMED["gate:logsumexp"] = (lse, [("B", 4)])
    progs.NAMED["gate:l2"] = (l2, [("B", 4)])
    _REGISTERED = True


# ----------------------------------------------------------------------------- tables (T)


def tab_schemas() -> dict:
    import c11_gates
    if not c11_gates.attr_type_codes_aligned():
        raise RuntimeError("onnx.defs AttrType codes differ from AttributeProto.AttributeType codes")
    return c11_gates.schema_rows()


def tab_reduce(max_opset: int) -> tuple[list, list]:
    import onnx_ir as ir
    from jax2onnx.converter.ir_context import IRContext
    from jax2onnx.plugins.jax.lax import _opset_utils as ou
    rows = []
    for op in sorted(ou._REDUCTION_AXES_INPUT_SINCE):
        for v in range(13, max_opset + 1):
            for axes in ([1], None):
                ctx = IRContext(opset=v, enable_double_precision=False, input_specs=[])
                x = ir.Value(name="x", type=ir.TensorType(ir.DataType.FLOAT), shape=ir.Shape((2, 3)))
                out = ou.builder_reduce_with_axes(ctx, x, op_type=op, axes=axes, keepdims=0, name_hint="r")
                n = out.producer()
                rows.append((v, n.op_type, len(n.inputs), len(n.outputs), sorted(n.attributes.keys())))
    return rows, sorted((k, int(v)) for k, v in ou._REDUCTION_AXES_INPUT_SINCE.items())


def tab_swish(max_opset: int) -> list:
    import onnx_ir as ir
    import jax2onnx.converter.ir_optimizations as opt
    rows = []
    for v in range(13, max_opset + 1):
        f32 = ir.TensorType(ir.DataType.FLOAT)
        x = ir.Value(name="x", type=f32, shape=ir.Shape((2, 3)))
        s = ir.Value(name="s", type=f32, shape=ir.Shape((2, 3)))
        y = ir.Value(name="y", type=f32, shape=ir.Shape((2, 3)))
        g = ir.Graph(name="g", inputs=[x], outputs=[y], opset_imports={"": v},
                     nodes=[ir.Node("", "Sigmoid", inputs=[x], outputs=[s], name="sg"),
                            ir.Node("", "Mul", inputs=[x, s], outputs=[y], name="ml")])
        opt.rewrite_mul_sigmoid_as_swish_ir(g)
        rows.append((v, [(n.op_type, len(n.inputs), len(n.outputs), sorted(n.attributes.keys())) for n in g]))
    return rows


def tab_gate_sites(max_opset: int) -> dict:
    """Every plugin module of the live tree that compares the opset with a literal (source scan ∪ the sites known on
    the pinned tree ∪ the callers of the shared reduce gate), exercised through ITS OWN plugin testcases at EVERY
    opset 21..max: the distinct typed node forms, which (site testcase, opset) exported / raised, and per site the
    operator set chosen at each opset (the gate decision)."""
    import c11_gates
    import progs
    gs = c11_gates.gate_sites(progs.BASELINE_OPSET, max_opset)
    forms: set = set()
    exported, raised, names, decisions, descs = [], [], [], {}, {}
    for site in gs["sites"]:
        if not site["in_range"]:
            continue
        helper_only = not site["thresholds"] and site["module"] not in c11_gates.KNOWN_SITE_MODULES
        for tp in site["testcases"][:1 if helper_only else 4]:
            name = f"{site['module'].replace('jax2onnx.plugins.', '')}:{tp['testcase']}"
            if name in descs:
                continue
            names.append(name)
            descs[name] = tp
            for v in range(progs.BASELINE_OPSET, max_opset + 1):
                ex = progs.export(progs.plugin_desc(tp), progs.plugin_cfg(tp, opset=v))
                if not ex.ok:
                    raised.append((name, v, ex.error[:80]))
                    continue
                exported.append((name, v))
                tree = c11_gates.typed_tree(ex.proto)
                ops = set()
                for _, n, dts, odts in c11_gates.iter_forms(tree):
                    if n["d"] == "":
                        ops.add(n["op"])
                        forms.add((v, n["op"], len(n["i"]), len(n["o"]), tuple(sorted(n["a"])), tuple(dts), tuple(odts)))
                decisions.setdefault(name, []).append((v, sorted(ops)))
    flips = {}
    for name, rows in decisions.items():
        fl = []
        for (v0, o0), (v1, o1) in zip(rows, rows[1:]):
            if o0 != o1:
                fl.append({"at": v1, "gone": sorted(set(o0) - set(o1)), "new": sorted(set(o1) - set(o0))})
        if fl:
            flips[name] = fl
    return {"forms": sorted(forms), "exported": exported, "raised": raised, "names": names, "descs": descs,
            "flips": flips, "not_in_range": [s_["module"] for s_ in gs["sites"] if not s_["in_range"]],
            "no_testcases": gs["no_testcases"], "scanned": gs["scanned"]}


def tab_gate_programs(max_opset: int) -> dict:
    import c11_gates
    import modeltree
    import progs
    forms: set = set()
    exported, raised = [], []
    for name in GATE_PROGRAMS:
        desc = _gate_desc(name)
        for v in range(progs.BASELINE_OPSET, max_opset + 1):
            ex = progs.export(desc, dict(progs.default_cfg(), opset=v, symbolic=True, **_gate_cfg(name)))
            if not ex.ok:
                raised.append((name, v, ex.error[:80]))
                continue
            exported.append((name, v))
            tree = c11_gates.typed_tree(ex.proto)
            for _, n, dts, odts in c11_gates.iter_forms(tree):
                if n["d"] == "":
                    forms.add((v, n["op"], len(n["i"]), len(n["o"]), tuple(sorted(n["a"])), tuple(dts), tuple(odts)))
    full = [p for p in GATE_PROGRAMS
            if all((p, v) in set(exported) for v in range(progs.BASELINE_OPSET, max_opset + 1))]
    return {"forms": sorted(forms), "exported": exported, "raised": raised, "programs": full}


def tabulate() -> dict:
    import progs
    mx = progs.max_opset()
    red, since = tab_reduce(mx)
    return {"max": mx, "schemas": tab_schemas(), "reduce": red, "since": since, "swish": tab_swish(mx),
            "gate": tab_gate_programs(mx), "sites": tab_gate_sites(mx)}


def _form(f) -> str:
    op, ni, no, attrs = f[:4]
    return f"({lean_str(op)}, {ni}, {no}, [{', '.join(lean_str(a) for a in attrs)}])"


def _tform(f) -> str:
    """typed form: the plain form plus the declared dtype code of every input (0 = not declared)"""
    op, ni, no, attrs, dts, odts = f
    return (f"({lean_str(op)}, {ni}, {no}, [{', '.join(lean_str(a) for a in attrs)}], "
            f"[{', '.join(str(int(d)) for d in dts)}], [{', '.join(str(int(d)) for d in odts)}])")


def _grouped(forms: list) -> str:
    """typed forms grouped by operator: [(op, [(opset, #in, #out, [attrs], [in dtypes], [out dtypes]), …]), …]"""
    by_op: dict = {}
    for v, op, ni, no, at, dts, odts in forms:
        by_op.setdefault(op, []).append(
            f"({v}, {ni}, {no}, [{', '.join(lean_str(a) for a in at)}], [{', '.join(str(int(d)) for d in dts)}], "
            f"[{', '.join(str(int(d)) for d in odts)}])")
    return lean_list([f"({lean_str(op)}, [{', '.join(rows)}])" for op, rows in sorted(by_op.items())], 1)


def generate(tabs: Optional[dict] = None) -> dict:
    tabs = tabs or tabulate()

    def sig(s):
        since, mi, ma, mo, mxo, dep, attrs, in_types, in_vars, variadic, attr_ty, required, out_types, out_vars, \
            variadic_out = s
        tys = ", ".join("[" + ", ".join(str(c) for c in l) + "]" for l in in_types)
        otys = ", ".join("[" + ", ".join(str(c) for c in l) + "]" for l in out_types)
        aty = ", ".join(f"({lean_str(a)}, {t})" for a, t in attr_ty)
        return (f"⟨{since}, {mi}, {ma}, {mo}, {mxo}, {lean_bool(dep)}, [{', '.join(lean_str(a) for a in attrs)}], "
                f"[{tys}], [{', '.join(str(v) for v in in_vars)}], {lean_bool(variadic)}, [{aty}], "
                f"[{', '.join(lean_str(a) for a in required)}], [{otys}], [{', '.join(str(v) for v in out_vars)}], "
                f"{lean_bool(variadic_out)}⟩")

    sch = ",\n  ".join(f"({lean_str(op)}, [{', '.join(sig(s) for s in sigs)}])"
                       for op, sigs in tabs["schemas"].items())
    red = lean_list([f"({v}, {_form((op, ni, no, at))})" for v, op, ni, no, at in tabs["reduce"]], 3)
    sw = lean_list([f"({v}, [{', '.join(_form(f) for f in fs)}])" for v, fs in tabs["swish"]], 1)
    def runs(names, exported, raised=None):
        ex, ra = {}, {}
        for p_, v in exported:
            ex.setdefault(p_, []).append(v)
        for p_, v, *_ in (raised or []):
            ra.setdefault(p_, []).append(v)
        order = list(dict.fromkeys(list(names) + list(ex) + list(ra)))
        if raised is None:
            return lean_list([f"({lean_str(p_)}, {sorted(ex.get(p_, []))})" for p_ in order], 2)
        return lean_list([f"({lean_str(p_)}, {sorted(ex.get(p_, []))}, {sorted(ra.get(p_, []))})" for p_ in order], 2)

    gf = _grouped(tabs["gate"]["forms"])
    sf = _grouped(tabs["sites"]["forms"])
    se = runs(tabs["sites"]["names"], tabs["sites"]["exported"], tabs["sites"]["raised"])
    ge = runs(GATE_PROGRAMS, tabs["gate"]["exported"])
    src = f"""/- GENERATED by harness/props/c11.py from the installed onnx.defs and /repo on every run — do not edit. -/
import J2O.Model.C11
namespace J2O.Gen.C11
open J2O.C11

/-- newest default-domain opset the installed onnx defines -/
def maxOpset : Nat := {tabs['max']}

/-- operator ↦ versions ⟨since, minIn, maxIn, minOut, maxOut, deprecated, attribute names, admitted dtype codes
    per formal input, type-variable id per formal input, last input variadic, attribute types, required
    attributes, admitted dtype codes / type-variable id per formal output, last output variadic⟩ (onnx.defs) -/
def schemas : Schemas := [
  {sch}]

/-- `_REDUCTION_AXES_INPUT_SINCE` -/
def reduceAxesSince : List (String × Nat) := {lean_list([f"({lean_str(k)}, {v})" for k, v in tabs['since']], 5)}

/-- (opset, (op, #inputs, #outputs, attribute names)) emitted by the live `builder_reduce_with_axes` -/
def reduceForms : List (Nat × String × Nat × Nat × List String) := {red}

/-- opset ↦ nodes left by the live `rewrite_mul_sigmoid_as_swish_ir` on `x * Sigmoid(x)` -/
def swishForms : List (Nat × List (String × Nat × Nat × List String)) := {sw}

/-- gate programs that export at every opset 21..max -/
def gatePrograms : List String := {lean_list([lean_str(p) for p in tabs['gate']['programs']], 6)}

/-- program ↦ opsets at which the live `to_onnx` exported it (in catalogue order) -/
def gateExports : List (String × List Nat) := {ge}

/-- distinct default-domain node forms (any depth, function bodies included) of those exports, grouped by operator
    (`op ↦ rows (opset, #in, #out, attributes, input dtypes, output dtypes)`): attributes as
    `name:AttributeType`, the declared dtype code of every input and of every output (0 = not declared) -/
def gateForms : List (String × List (Nat × Nat × Nat × List String × List Nat × List Nat)) := {gf}

/-- gate sites: `<plugin module>:<testcase>` for every plugin module of the live tree that compares the opset with
    a literal (or calls the shared reduce gate), exercised through its own testcases -/
def gateSites : List String := {lean_list([lean_str(p) for p in tabs['sites']['names']], 2)}

/-- site ↦ (opsets at which the live `to_onnx` exported it, opsets at which it raised – the explicit error the
    property allows) -/
def siteRuns : List (String × List Nat × List Nat) := {se}

/-- distinct typed default-domain node forms (any depth) of the site exports -/
def siteForms : List (String × List (Nat × Nat × Nat × List String × List Nat × List Nat)) := {sf}

end J2O.Gen.C11
"""
    write_if_changed(LEAN / "J2O/Gen/C11.lean", src)
    return tabs


# ----------------------------------------------------------------------------- H: real exports


CORPUS = [  # (context, testcase) of the listed defects: always exported, at the opsets named in the property
    ("primitives.lax", "cumprod_i32_axis2"), ("primitives.lax", "cumprod_f32_axism1_reverse"),
    ("primitives.lax", "bitcast_scalar_f32_to_i32"), ("primitives.lax", "bitcast_tensor_i32_to_f32"),
    ("primitives.jnp", "jnp_cumprod_axis1"),
    # not opset related (they fail at every opset, see C03) but met by this check's oracles as well
    ("primitives.lax", "reduce_sum_dtype_f64"), ("primitives.lax", "dus_tensorscatter_axis1_opset24"),
    ("primitives.random", "random_bits_uint32_f64"),
]

NONDETERMINISTIC_OPS = {"RandomNormal", "RandomUniform", "RandomNormalLike", "RandomUniformLike",
                        "Multinomial", "Bernoulli", "Dropout"}


def _component_of(desc: dict) -> tuple[str, str]:
    if desc["kind"] == "plugin":
        return desc.get("context", ""), desc.get("component", "")
    if desc["kind"] == "gated":
        return "gated", desc.get("name", "")
    return "program", desc.get("name", "")


def export_plan(chk: Check, rng: common.Rng, thorough: bool, site_plan: Optional[list] = None) -> list:
    import progs
    mx = progs.max_opset()
    opsets = list(range(progs.BASELINE_OPSET, mx + 1))
    params = progs.plugin_params()
    plan = []
    by_key = {(p.get("context"), p["testcase"]): p for p in params}
    for key in CORPUS:
        tp = by_key.get(key)
        if tp is None:
            continue
        for v in (21, 23, 24, 26):
            plan.append((progs.plugin_desc(tp), progs.plugin_cfg(tp, opset=v)))
    for name in GATE_PROGRAMS:
        for v in opsets:
            plan.append((_gate_desc(name), dict(progs.default_cfg(), opset=v, **_gate_cfg(name))))
    plan += list(site_plan or [])
    # seeded combinations outside the tabulated catalogue: component × wrapper × element type × mode × opset
    for _ in range(70 if not thorough else 1200):
        comp = rng.choice(progs.GATED_COMPS)
        dt = rng.choice(["f32", "f32", "bf16", "bf16", "f16"])
        wrap = rng.choice(progs.GATED_WRAPS)
        if dt == "f16":
            if comp not in F16_CLEAN:
                dt = "bf16"
            else:
                wrap = "top"
        cfg = dict(progs.default_cfg(), opset=rng.choice(opsets))
        if comp in NORM_COMPS:
            cfg["norm_mode"] = rng.choice(["auto", "prefer_native", "force_decomposed"])
        plan.append((progs.gated_desc(comp, wrap, dt), cfg))
    core = progs.core_programs(rng, n_random=6 if not thorough else 40)
    for d in core:
        for v in (rng.sample(opsets, 2) if not thorough else opsets):
            plan.append((d, dict(progs.random_cfg(rng, d), opset=v)))
    if thorough:
        chosen = rng.shuffle(params)        # seeded order: a budget cut drops a different tail per seed
    else:
        light = [p for p in params if not str(p.get("context", "")).startswith("examples.")]
        heavy = [p for p in params if str(p.get("context", "")).startswith("examples.")]
        chosen = rng.sample(light, 80) + rng.sample(heavy, 4)
    for tp in chosen:
        vs = [21, mx, rng.choice(opsets[1:-1])] if thorough else rng.sample(opsets, 2)
        for v in vs:
            plan.append((progs.plugin_desc(tp), progs.plugin_cfg(tp, opset=v)))
    # explored only (no claim): a few testcases at 13..20
    explore = []
    for tp in rng.sample(chosen, min(len(chosen), 8 if not thorough else 200)):
        explore.append((progs.plugin_desc(tp), progs.plugin_cfg(tp, opset=rng.randint(13, 20))))
    return plan, explore


def numeric_agreement(ex, ref, rng_np) -> Optional[dict]:
    """Run both exports in ORT on the same feeds; None = agree / not comparable."""
    import oracles
    import progs
    import modeltree
    ops = set()
    for m in (ex.proto, ref.proto):
        ops |= {n["op"] for _, n in modeltree.iter_nodes(modeltree.from_proto(m, with_vinfo=False))}
    if ops & NONDETERMINISTIC_OPS:      # any depth, function bodies included
        return None
    for m in (ex.proto, ref.proto):
        if not oracles.ort_supports_opset(oracles.default_opset(m)):
            return None
    try:
        feeds = progs.feeds_for(ref.proto, rng_np, {"B": 3})
        a = oracles.run(ref.proto, feeds)
    except Exception:
        return None                      # the reference itself does not run: not this check's subject
    try:
        feeds2 = {vi.name: feeds[rn.name] for vi, rn in zip(
            [v for v in ex.proto.graph.input if v.name not in {t.name for t in ex.proto.graph.initializer}],
            [v for v in ref.proto.graph.input if v.name not in {t.name for t in ref.proto.graph.initializer}])}
        b = oracles.run(ex.proto, feeds2)
    except Exception as e:
        if "NOT_IMPLEMENTED" in str(e):
            return None
        return {"error": str(e)[:300]}
    if len(a) != len(b):
        return {"outputs": [len(a), len(b)]}
    for k, (u, w) in enumerate(zip(a, b)):
        u, w = np.asarray(u), np.asarray(w)
        if u.shape != w.shape or u.dtype != w.dtype:
            return {"output": k, "shape_dtype": [str(u.shape), str(u.dtype), str(w.shape), str(w.dtype)]}
        if u.dtype.kind in "fc" or "float" in u.dtype.name:
            half = u.dtype.itemsize <= 2
            uf, wf = u.astype(np.float64), w.astype(np.float64)
            if not np.allclose(uf, wf, rtol=5e-2 if half else 1e-3, atol=5e-2 if half else 1e-4, equal_nan=True):
                return {"output": k, "max_abs_diff": float(np.nanmax(np.abs(uf - wf)))}
            continue
        if not np.array_equal(u, w):
            return {"output": k, "differ": True}
    return None


TYPED_WHY = ("input-type", "type-variable", "output-type", "attribute-type", "required-attribute")


def run(chk: Check) -> None:
    import c11_gates
    import modeltree
    import oracles
    import progs
    rng = common.Rng(chk.seed)
    thorough = chk.tier == "thorough"
    tabs = generate()
    mx = tabs["max"]
    chk.info("tables", {"operators": len(tabs["schemas"]), "signatures": sum(len(v) for v in tabs["schemas"].values()),
                        "max_opset": mx, "reduce_rows": len(tabs["reduce"]), "swish_rows": len(tabs["swish"]),
                        "gate_programs": tabs["gate"]["programs"], "gate_exports": len(tabs["gate"]["exported"]),
                        "gate_distinct_forms": len(tabs["gate"]["forms"]),
                        "gate_exports_raising": tabs["gate"]["raised"][:10]})
    st = tabs["sites"]
    chk.info("gate_sites", {"sites": st["names"], "exports": len(st["exported"]), "raised": st["raised"][:20],
                            "distinct_forms": len(st["forms"]), "decision_flips": st["flips"],
                            "source_scan": st["scanned"], "thresholds_outside_21_max_reported_only": st["not_in_range"],
                            "sites_without_testcases": st["no_testcases"]})
    proved = chk.prove(MODS, checker=thorough)
    chk.log(f"phase prove done at {round(time.time() - chk.t0, 1)} s")

    # rows of the tables judged by the model (interpreter) – locates broken rows, reports 13..20
    rows = [("reduce", v, (op, ni, no, at)) for v, op, ni, no, at in tabs["reduce"]]
    rows += [("swish", v, f) for v, fs in tabs["swish"] for f in fs]
    rows += [("gate", v, (op, ni, no, list(at), list(dts), list(odts)))
             for v, op, ni, no, at, dts, odts in tabs["gate"]["forms"]]
    rows += [("site", v, (op, ni, no, list(at), list(dts), list(odts)))
             for v, op, ni, no, at, dts, odts in tabs["sites"]["forms"]]
    bad_rows, explored_bad = [], []
    try:
        req = json.dumps({"op": "forms", "rows": [[v, f[0], f[1], f[2], list(f[3]), list(f[4]) if len(f) > 4 else [],
                                                    list(f[5]) if len(f) > 5 else []] for _, v, f in rows]})
        ans = json.loads(common.run_driver("C11", [req])[0])
        for (tab, v, f), ok in zip(rows, ans):
            chk.count({"table": tab, "opset": v, "form": [f[0], f[1], f[2], list(f[3])] + ([list(f[4]), list(f[5])] if len(f) > 5 else [])},
                      nontrivial=v >= 21)
            if not ok:
                (bad_rows if v >= 21 else explored_bad).append({"table": tab, "opset": v, "form": list(f)})
    except Exception as e:
        chk.log(f"driver unavailable for table rows: {str(e)[:300]}")
    chk.info("table_rows_illegal_in_13_20_reported_only", explored_bad[:20])

    # gate-site testcases: whole models through the proven checker and the oracles (all in thorough, a seeded
    # sample in quick; the tabulated forms of ALL of them are proved legal in GenProps)
    site_pairs = [(n, v) for n, v in st["exported"]]
    site_pick = site_pairs if thorough else rng.sample(site_pairs, min(len(site_pairs), 24))
    bad_site_opsets = sorted({r["opset"] for r in bad_rows if r["table"] == "site"})
    if bad_site_opsets:
        bad_forms = {(r["opset"], r["form"][0]) for r in bad_rows if r["table"] == "site"}
        site_pick = [(n, v) for n, v in site_pairs if v in bad_site_opsets][:120] + site_pick
        chk.log(f"illegal gate-site forms {sorted(bad_forms)[:8]}: every site testcase at opsets {bad_site_opsets} "
                f"goes through the checker first")
    site_plan = [(progs.plugin_desc(st["descs"][n]), progs.plugin_cfg(st["descs"][n], opset=v)) for n, v in site_pick]
    plan, explore = export_plan(chk, rng, thorough, [] if bad_site_opsets else site_plan)
    if bad_site_opsets:
        plan = site_plan + plan
    if bad_rows:
        # targeted search: testcases whose plugin metadata names an operator of a broken row, at that opset
        bad_ops = {r["form"][0] for r in bad_rows}
        bad_opsets = sorted({r["opset"] for r in bad_rows})
        cands = [tp for tp in progs.plugin_params()
                 if any(isinstance(o, dict) and o.get("component") in bad_ops for o in (tp.get("onnx") or []))]
        extra = []
        for tp in rng.sample(cands, min(len(cands), 25)):
            for v in bad_opsets[:3]:
                extra.append((progs.plugin_desc(tp), progs.plugin_cfg(tp, opset=v)))
        chk.log(f"{len(bad_rows)} tabulated gate rows are illegal ({sorted(bad_ops)} at {bad_opsets}); "
                f"targeted search over {len(extra)} exports")
        plan = extra + plan
    t0 = time.time()
    budget = 100 if not thorough else 1500
    raised: dict = {}
    rng_np = np.random.default_rng(chk.seed)
    limitations: dict = {}
    per_opset: dict = {}
    explored_illegal: list = []
    concrete = 0
    n_numeric = 0
    n_done = 0
    full_plan = plan + list(explore)
    for chunk in progs.export_in_chunks(full_plan, max_models=600, deadline=t0 + budget):
        done, lines = [], []
        for ex in chunk:
            if not ex.ok:
                k = ex.error.split(":")[0]
                raised[k] = raised.get(k, 0) + 1
                continue
            is_explore = int(ex.cfg["opset"]) < 21        # 13..20: explored and reported only
            tree = c11_gates.typed_tree(ex.proto)
            done.append((ex, tree, is_explore))
            lines.append(modeltree.request("legal", tree))
        answers = common.run_driver("C11", lines)
        n_done += len(done)
        for (ex, tree, is_explore), ans in zip(done, answers):
            v = int(ex.cfg["opset"])
            ctx_, comp = _component_of(ex.desc)
            ops = sorted({n["op"] for _, n in modeltree.iter_nodes(tree)})
            per_opset[v] = per_opset.get(v, 0) + 1
            chk.count({"program": progs.describe(ex.desc), "opset": v, "ops": ops[:12]},
                      nontrivial=(v != 23) and not is_explore)
            if ans == "true":
                reasons = []
            elif ans.startswith("["):
                reasons = json.loads(ans)
            else:
                raise RuntimeError(f"driver C11: {ans[:300]}")
            if is_explore:
                if reasons:
                    explored_illegal.append({"program": progs.describe(ex.desc), "opset": v, "why": reasons[:3]})
                continue
            for r in reasons:
                wher, dom, op, why = (r.split("|") + ["", "", "", ""])[:4]
                concrete += 1
                w0 = why.split(" ")[0]
                kind = "input_type_illegal" if w0 in TYPED_WHY else "op_not_in_opset"
                chk.finding({"kind": kind, "op_type": op, "why": w0,
                             "context": ctx_, "component": comp, "opset": v},
                            f"{progs.describe(ex.desc)} exported at opset {v}: {op} {why}",
                            {"program": ex.desc, "config": ex.cfg, "reasons": reasons[:10]})
            # oracles
            fails = []
            try:
                import onnx
                onnx.checker.check_model(ex.proto, full_check=True)
            except Exception as e:
                fails.append({"oracle": "onnx.checker", "msg": str(e)[:400]})
            _, f, lim = oracles.ort_load(ex.proto)
            if f:
                fails.append(f)
            if lim:
                limitations[lim.split(":")[0]] = limitations.get(lim.split(":")[0], 0) + 1
            for f in fails:
                # an oracle failure explained by an operator the proven checker already flagged is the
                # same finding; anything else is reported on its own
                blamed = [r.split("|")[2] for r in reasons if r.split("|")[2] and r.split("|")[2] in f["msg"]]
                key = {"kind": "oracle_rejects", "oracle": f["oracle"], "context": ctx_, "component": comp,
                       "opset": v}
                if blamed:
                    typed = any(r.split("|")[2] == blamed[0] and
                                r.split("|")[3].split(" ")[0] in TYPED_WHY for r in reasons)
                    key = {"kind": "input_type_illegal" if typed else "op_not_in_opset", "op_type": blamed[0],
                           "why": "oracle", "context": ctx_, "component": comp, "opset": v, "oracle": f["oracle"]}
                concrete += 1
                chk.finding(key, f"{f['oracle']} rejects {progs.describe(ex.desc)} at opset {v}: {f['msg'][:160]}",
                            {"program": ex.desc, "config": ex.cfg, "oracle": f, "checker_reasons": reasons[:5]})
            # numeric agreement with the default-opset export (sampled)
            if not reasons and not fails and v != 23 and n_numeric < (40 if not thorough else 1500):
                ref = progs.export(ex.desc, dict(ex.cfg, opset=23))
                if ref.ok:
                    n_numeric += 1
                    dis = numeric_agreement(ex, ref, rng_np)
                    if dis is not None:
                        concrete += 1
                        chk.finding({"kind": "numeric_mismatch_across_opsets", "context": ctx_, "component": comp,
                                     "opset": v},
                                    f"{progs.describe(ex.desc)}: opset {v} export computes something else than "
                                    f"the opset 23 export: {dis}",
                                    {"program": ex.desc, "config": ex.cfg, "disagreement": dis})
        chk.log(f"{n_done} models checked at {round(time.time() - chk.t0, 1)} s")
    chk.coverage["programs"] = n_done
    chk.info("exports", {"planned": len(full_plan), "exported": n_done, "export_raised": raised})
    chk.add("traces_validated_against_impl", n_done)
    chk.info("exports_per_opset", {str(k): v for k, v in sorted(per_opset.items())})
    chk.info("numeric_comparisons_with_default_opset", n_numeric)
    chk.info("runtime_limitations_not_counted_as_failures", limitations)
    chk.info("explored_13_20_illegal_reported_only", explored_illegal[:20])
    chk.coverage["disagreements_checked"] = concrete

    if (not proved or bad_rows) and not chk.violations and not [h for h in chk.known_hits if "gate" in h]:
        chk.violation({"broken": getattr(chk, "broken", []), "illegal_table_rows": bad_rows[:20],
                       "build_log_tail": getattr(chk, "build_log", "")[-2500:],
                       "note": "a Lean obligation about the regenerated gate tables / onnx.defs no longer checks, "
                               "but every exported model of this run was legal"},
                      name="obligation-broken", no_failing_input=True)
    chk.coverage["rule"] = (
        "tables: every operator×version of onnx.defs; reduce/swish forms for every opset 13..max; gate programs "
        "exported at every opset 21..max (non-trivial = opset >= 21). exports: corpus (cumprod, bitcast at 21/23/26) + "
        "gate programs × all opsets + core programs × seeded opsets + plugin testcases (seeded sample × 2 seeded "
        "opsets in quick; all × {21, max, seeded} in thorough); non-trivial = opset other than the default 23; "
        "distinct by (program, opset, operator set)")
    chk.coverage["exhaustive"] = False
    chk.assumptions += [
        "the installed onnx.defs is the definition of what each opset contains",
        "attribute VALUES are not modelled (left to onnx.checker / ORT); attribute types, required attributes and "
        "input/output element types are checked against onnx.defs where the model declares them",
        "an export that raises at an opset is the 'explicit error' the property allows",
        "ORT limitations (opset 27 unsupported by ORT 1.30, operators without CPU kernel) are reported, not failures",
        "numeric agreement is sampled with one random feed per pair, rtol 1e-3 / atol 1e-4",
    ]
    progs.cleanup()


def replay(path: str) -> int:
    import modeltree
    import progs
    rep = json.loads(open(path).read())
    print(json.dumps(rep, indent=1)[:3000])
    if "program" not in rep:
        return 0
    generate()
    ex = progs.export(rep["program"], rep.get("config"))
    if not ex.ok:
        print("export raises now (explicit error):", ex.error)
        return 0
    import c11_gates
    tree = c11_gates.typed_tree(ex.proto)
    ans = common.run_driver("C11", [modeltree.request("legal", tree)])[0]
    print("checker:", ans)
    try:
        import onnx
        onnx.checker.check_model(ex.proto, full_check=True)
        print("onnx.checker: ok")
    except Exception as e:
        print("onnx.checker:", str(e)[:300])
    progs.cleanup()
    return 0 if ans == "true" else 1
